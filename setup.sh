#!/bin/sh
# MANIFEST.setup_cmd: build the framework from files on disk only (offline).
set -e
cd "$(dirname "$0")"
export CARGO_NET_OFFLINE=true
python3 tools/extract_consts.py
(cd lean && lake build Asn1Verif driver)
[ -f harness/Cargo.lock ] || cp /repo/Cargo.lock harness/Cargo.lock
(cd harness && cargo build --offline)
# second feature configuration for C19 (+descriptive-deserialize-errors)
(cd harness && cargo build --offline --target-dir target-diag --features diag)
