//! stream `front` (C14): the whole front end on one text, stage by stage, every stage under
//! `catch_unwind`
//!
//!   front total <hex text> → ok
//!                          | err parse:<class> <token>
//!                          | err resolve:<class>
//!                          | panic <tokenizer|parser|resolver|to_rust|to_protobuf>
//!
//! `<token>` is what `parse::Error::token()` carries: `-` (no token) |
//! `T:<line>:<column>:<hex of text>` | `S:<line>:<column>:<hex of char>`.
//! The stages are those of `parse fuzz` (harness/src/parse.rs): real `Tokenizer::parse` →
//! `Model::try_from` → `try_resolve` → `to_rust()` → `to_protobuf()`.  A stack overflow kills the
//! process (the runner answers `abort` for that request).
use crate::parse::{parse_err_class, resolve_err_class, text_of};
use crate::util::*;
use asn1rs_model::parse::{Token, Tokenizer};
use asn1rs_model::Model;

fn stage<T>(f: impl FnOnce() -> T) -> Result<T, ()> {
    std::panic::catch_unwind(std::panic::AssertUnwindSafe(f)).map_err(drop)
}

fn token_str(t: Option<&Token>) -> String {
    match t {
        None => "-".to_string(),
        Some(t) => {
            let l = t.location();
            match t {
                Token::Text(_, s) => format!("T:{}:{}:{}", l.line(), l.column(), hex(s.as_bytes())),
                Token::Separator(_, c) => {
                    let mut b = [0u8; 4];
                    format!(
                        "S:{}:{}:{}",
                        l.line(),
                        l.column(),
                        hex(c.encode_utf8(&mut b).as_bytes())
                    )
                }
            }
        }
    }
}

pub fn handle(args: &[&str]) -> Option<String> {
    Some(match args {
        ["total", h] => {
            let text = text_of(h)?;
            let tokens = match stage(|| Tokenizer::default().parse(&text)) {
                Ok(t) => t,
                Err(()) => return Some("panic tokenizer".to_string()),
            };
            let model = match stage(|| Model::try_from(tokens)) {
                Ok(Ok(m)) => m,
                Ok(Err(e)) => {
                    return Some(format!(
                        "err parse:{} {}",
                        parse_err_class(&e),
                        token_str(e.token())
                    ))
                }
                Err(()) => return Some("panic parser".to_string()),
            };
            let resolved = match stage(|| model.try_resolve()) {
                Ok(Ok(m)) => m,
                Ok(Err(e)) => return Some(format!("err resolve:{}", resolve_err_class(&e))),
                Err(()) => return Some("panic resolver".to_string()),
            };
            let rust = match stage(|| resolved.to_rust()) {
                Ok(m) => m,
                Err(()) => return Some("panic to_rust".to_string()),
            };
            {
                use asn1rs_model::protobuf::ToProtobufModel;
                if stage(|| rust.to_protobuf()).is_err() {
                    return Some("panic to_protobuf".to_string());
                }
            }
            "ok".to_string()
        }
        _ => return None,
    })
}
