//! stream `names` (C09): the name-mangling functions of both layers called on the real code, and
//! the whole pipeline text -> Tokenizer -> Model::try_from -> resolve -> to_rust -> RustCodeGenerator
use crate::util::*;
use asn1rs::model::asn::MultiModuleResolver;
use asn1rs::model::generate::rust::RustCodeGenerator;
use asn1rs::model::generate::Generator;
use asn1rs::model::parse::Tokenizer;
use asn1rs::model::rust as layer_a;
use asn1rs::model::Model;
use std::panic::{catch_unwind, AssertUnwindSafe};

/// The crate under test reports some conditions with `println!` ("Ignoring ValueReference ..",
/// "parse_args failed ..", "Errör: .."); stdout is the protocol channel of this harness, so file
/// descriptor 1 points to /dev/null while the real code runs (restored on unwind as well).
pub fn quiet<T>(f: impl FnOnce() -> T) -> T {
    use std::io::Write;
    use std::os::fd::AsRawFd;
    extern "C" {
        fn dup(fd: i32) -> i32;
        fn dup2(a: i32, b: i32) -> i32;
        fn close(fd: i32) -> i32;
    }
    struct Restore(i32);
    impl Drop for Restore {
        fn drop(&mut self) {
            let _ = std::io::stdout().flush();
            unsafe {
                dup2(self.0, 1);
                close(self.0);
            }
        }
    }
    let _ = std::io::stdout().flush();
    let null = match std::fs::OpenOptions::new().write(true).open("/dev/null") {
        Ok(f) => f,
        Err(_) => return f(),
    };
    let saved = unsafe { dup(1) };
    if saved < 0 {
        return f();
    }
    unsafe {
        dup2(null.as_raw_fd(), 1);
    }
    let _restore = Restore(saved);
    f()
}

fn text(h: &str) -> Option<String> {
    String::from_utf8(unhex(h)?).ok()
}

fn okhex(s: String) -> String {
    format!("ok {}", hex(s.as_bytes()))
}

/// `err <class>` / `panic <stage>` of the pipeline
pub enum Stop {
    Parse,
    Resolve,
    PanicFront,
    PanicGen,
}

impl Stop {
    pub fn answer(&self) -> String {
        match self {
            Stop::Parse => "err parse".to_string(),
            Stop::Resolve => "err resolve".to_string(),
            Stop::PanicFront => "panic front".to_string(),
            Stop::PanicGen => "panic gen".to_string(),
        }
    }
}

/// One or several modules (the way `asn1rs::converter::Converter` and `asn_to_rust!` do it):
/// returns (file name, generated text) per module, in input order.
pub fn pipeline(texts: &[String]) -> Result<Vec<(String, String)>, Stop> {
    quiet(|| pipeline_loud(texts))
}

fn pipeline_loud(texts: &[String]) -> Result<Vec<(String, String)>, Stop> {
    let front = catch_unwind(AssertUnwindSafe(|| {
        if texts.len() == 1 {
            // proc_macro::inline::asn_to_rust
            let tokens = Tokenizer.parse(&texts[0]);
            let model = Model::try_from(tokens).map_err(|_| Stop::Parse)?;
            let model = model.try_resolve().map_err(|_| Stop::Resolve)?;
            Ok(vec![model])
        } else {
            // converter.rs
            let mut resolver = MultiModuleResolver::default();
            for t in texts {
                let tokens = Tokenizer.parse(t);
                resolver.push(Model::try_from(tokens).map_err(|_| Stop::Parse)?);
            }
            resolver.try_resolve_all().map_err(|_| Stop::Resolve)
        }
    }));
    let models = match front {
        Ok(Ok(m)) => m,
        Ok(Err(s)) => return Err(s),
        Err(_) => return Err(Stop::PanicFront),
    };
    let gen = catch_unwind(AssertUnwindSafe(|| {
        let scope = models.iter().collect::<Vec<_>>();
        let mut out = Vec::new();
        for model in &models {
            let mut generator = RustCodeGenerator::default();
            if texts.len() == 1 {
                generator.add_model(model.to_rust());
            } else {
                generator.add_model(model.to_rust_with_scope(&scope[..]));
            }
            for (file, content) in generator.to_string().unwrap() {
                out.push((file, content));
            }
        }
        out
    }));
    gen.map_err(|_| Stop::PanicGen)
}

fn fnv(s: &str) -> u64 {
    let mut h: u64 = 0xcbf29ce484222325;
    for b in s.as_bytes() {
        h ^= *b as u64;
        h = h.wrapping_mul(0x100000001b3);
    }
    h
}

/// end (exclusive) of the attribute `#[...]` starting at `s[0..]`, skipping string literals
fn attr_end(s: &str) -> Option<usize> {
    let b = s.as_bytes();
    if !s.starts_with("#[") {
        return None;
    }
    let mut depth = 0i32;
    let mut i = 1;
    let mut in_str = false;
    while i < b.len() {
        let c = b[i];
        if in_str {
            if c == b'\\' {
                i += 1;
            } else if c == b'"' {
                in_str = false;
            }
        } else if c == b'"' {
            in_str = true;
        } else if c == b'[' || c == b'(' {
            depth += 1;
        } else if c == b']' || c == b')' {
            depth -= 1;
            if depth == 0 && c == b']' {
                return Some(i + 1);
            }
        }
        i += 1;
    }
    None
}

fn word(s: &str) -> &str {
    let end = s
        .char_indices()
        .find(|(_, c)| !(c.is_alphanumeric() || *c == '_'))
        .map(|(i, _)| i)
        .unwrap_or(s.len());
    &s[..end]
}

/// Identifiers the generator emitted, in order of appearance, as `kind:name` tokens:
/// `u` use path, `c` constant (module level or in an impl), `s` struct, `e` enum, `f` field,
/// `v` variant.  Line-oriented scan of the `codegen` crate's regular layout; the declarations
/// only (struct/enum bodies), not the impl blocks that repeat the names.
pub fn idents(code: &str) -> Vec<String> {
    let mut out = Vec::new();
    #[derive(PartialEq)]
    enum In {
        Top,
        Struct,
        Enum,
    }
    let mut state = In::Top;
    for raw in code.lines() {
        let indented = raw.starts_with(' ');
        let mut l = raw.trim();
        if l.is_empty() {
            continue;
        }
        if !indented {
            if let Some(rest) = l.strip_prefix("use ") {
                out.push(format!("u:{}", rest.trim_end_matches(';').replace(' ', "")));
                continue;
            }
            if let Some(rest) = l.strip_prefix("pub const ") {
                out.push(format!("c:{}", word(rest)));
                continue;
            }
            if let Some(rest) = l.strip_prefix("pub struct ") {
                out.push(format!("s:{}", word(rest)));
                state = if l.ends_with('{') { In::Struct } else { In::Top };
                // tuple struct: `pub struct X(#[asn(..)] pub T);` has no named field
                continue;
            }
            if let Some(rest) = l.strip_prefix("pub enum ") {
                out.push(format!("e:{}", word(rest)));
                state = if l.ends_with('{') { In::Enum } else { In::Top };
                continue;
            }
            if l.starts_with('}') {
                state = In::Top;
            }
            continue;
        }
        // indented line
        if state == In::Top {
            if let Some(rest) = l.strip_prefix("pub const ") {
                // constants inside `impl X {` written by impl_consts (raw lines, 4 spaces)
                if raw.starts_with("    pub const ") && !rest.starts_with("fn ") {
                    out.push(format!("c:{}", word(rest)));
                }
            }
            continue;
        }
        while l.starts_with("#[") {
            match attr_end(l) {
                Some(e) => l = l[e..].trim_start(),
                None => break,
            }
        }
        if state == In::Struct {
            let l = l.strip_prefix("pub ").unwrap_or(l);
            if let Some(colon) = l.find(':') {
                out.push(format!("f:{}", l[..colon].trim()));
            }
        } else {
            let end = l.find(|c| c == '(' || c == ',').unwrap_or(l.len());
            out.push(format!("v:{}", l[..end].trim()));
        }
    }
    out
}

fn texts_of(tok: &str) -> Option<Vec<String>> {
    tok.split(':').map(text).collect()
}

pub fn handle(args: &[&str]) -> Option<String> {
    Some(match args {
        ["a.field", h] => okhex(layer_a::rust_field_name(&text(h)?)),
        ["a.variant", h] => okhex(layer_a::rust_variant_name(&text(h)?)),
        ["a.type", h] => okhex(layer_a::rust_struct_or_enum_name(&text(h)?)),
        ["a.const", h] => okhex(layer_a::rust_constant_name(&text(h)?)),
        ["a.module", h, pad] => okhex(layer_a::rust_module_name(&text(h)?, pbool(pad)?)),
        ["a.nice", h] => {
            let mut s = text(h)?;
            Model::<asn1rs::model::asn::Asn>::make_name_nice(&mut s);
            okhex(s)
        }
        ["b.field", h, chk] => okhex(RustCodeGenerator::rust_field_name(&text(h)?, pbool(chk)?)),
        ["b.variant", h] => okhex(RustCodeGenerator::rust_variant_name(&text(h)?)),
        ["b.module", h] => okhex(RustCodeGenerator::rust_module_name(&text(h)?)),
        // the compositions, through the real pipeline: a one-definition module is generated and
        // the emitted identifier is read back from the generated text
        ["emit.field", h] => {
            let n = text(h)?;
            let m = format!("M DEFINITIONS AUTOMATIC TAGS ::= BEGIN T ::= SEQUENCE {{ {} BOOLEAN }} END", n);
            emitted(&m, "f:")?
        }
        ["emit.variant", h] => {
            let n = text(h)?;
            let m = format!("M DEFINITIONS AUTOMATIC TAGS ::= BEGIN T ::= ENUMERATED {{ {} }} END", n);
            emitted(&m, "v:")?
        }
        ["emit.type", h] => {
            let n = text(h)?;
            let m = format!("M DEFINITIONS AUTOMATIC TAGS ::= BEGIN {} ::= SEQUENCE {{ x BOOLEAN }} END", n);
            emitted(&m, "s:")?
        }
        ["emit.const", h] => {
            let n = text(h)?;
            let m = format!("M DEFINITIONS AUTOMATIC TAGS ::= BEGIN {} INTEGER ::= 5 END", n);
            emitted(&m, "c:")?
        }
        ["emit.module", h] => {
            let n = text(h)?;
            let m = format!("{} DEFINITIONS AUTOMATIC TAGS ::= BEGIN T ::= BOOLEAN END", n);
            match pipeline(&[m]) {
                Ok(files) => {
                    let f = &files.first()?.0;
                    okhex(f.strip_suffix(".rs")?.to_string())
                }
                Err(s) => s.answer(),
            }
        }
        ["emit.inline", hp, hf] => {
            let (p, f) = (text(hp)?, text(hf)?);
            let m = format!(
                "M DEFINITIONS AUTOMATIC TAGS ::= BEGIN {} ::= SEQUENCE {{ {} SEQUENCE {{ x BOOLEAN }} }} END",
                p, f
            );
            // the inline definition is emitted first
            emitted(&m, "s:")?
        }
        ["iskw", h] => {
            // independent keyword list: syn's identifier parser
            let n = text(h)?;
            let shape = {
                let mut cs = n.chars();
                matches!(cs.next(), Some(c) if c.is_ascii_alphabetic() || c == '_')
                    && cs.all(|c| c.is_ascii_alphanumeric() || c == '_')
            };
            if !shape || n == "_" {
                return None;
            }
            let is_ident = syn::parse_str::<syn::Ident>(&n).is_ok();
            okhex(if is_ident { "0" } else { "1" }.to_string())
        }
        // an optional third token (the abstract schema the request was rendered from) is for the
        // check's class predicates only
        ["gen", toks] | ["gen", toks, _] => match pipeline(&texts_of(toks)?) {
            Ok(files) => {
                let mut all = String::new();
                let mut ids: Vec<String> = Vec::new();
                for (file, content) in &files {
                    all.push_str(file);
                    all.push('\n');
                    all.push_str(content);
                    all.push('\n');
                    ids.push(format!("m:{}", file));
                    ids.extend(idents(content));
                }
                format!("ok {:016x} {}", fnv(&all), ids.join(","))
            }
            Err(s) => s.answer(),
        },
        // writes the generated files into <dir> (hex of the path); used by the rustc oracle
        ["emit", toks, dir] => {
            let dir = std::path::PathBuf::from(text(dir)?);
            match pipeline(&texts_of(toks)?) {
                Ok(files) => {
                    std::fs::create_dir_all(&dir).ok()?;
                    let mut names = Vec::new();
                    for (file, content) in &files {
                        // a file name the generator chose is used as it is, except that it must
                        // stay inside <dir>
                        let safe = file.replace('/', "_");
                        std::fs::write(dir.join(&safe), content).ok()?;
                        names.push(hex(safe.as_bytes()));
                    }
                    format!("ok {}", names.join(","))
                }
                Err(s) => s.answer(),
            }
        }
        ["text", toks] => match pipeline(&texts_of(toks)?) {
            Ok(files) => format!(
                "ok {}",
                files.iter().map(|(f, c)| format!("{}:{}", hex(f.as_bytes()), hex(c.as_bytes()))).collect::<Vec<_>>().join(",")
            ),
            Err(s) => s.answer(),
        },
        _ => return None,
    })
}

fn emitted(module: &str, kind: &str) -> Option<String> {
    Some(match pipeline(&[module.to_string()]) {
        Ok(files) => {
            let ids = idents(&files.first()?.1);
            match ids.iter().find(|i| i.starts_with(kind)) {
                Some(i) => okhex(i[kind.len()..].to_string()),
                None => "err not-emitted".to_string(),
            }
        }
        Err(s) => s.answer(),
    })
}
