//! Generic access to every generated type through the crate's public `Reader`/`Writer` traits:
//!  * `TyGen`     : `Reader` that builds a random typed value and records the descriptor the codec
//!                  actually sees (all `Constraint` constants, field order, every CHOICE alternative,
//!                  DEFAULT values) as a `Ty` S-expression
//!  * `TreeWriter`: `Writer` that turns any typed value into the canonical `Val` S-expression
//!  * `ValReader` : `Reader` that builds a typed value from a parsed `Val`
use asn1rs::descriptor::*;
use asn1rs::prelude::Null;

// ------------------------------------------------------------------------------------------ Val

#[derive(Debug, Clone, PartialEq)]
pub enum Val {
    Bool(bool),
    Null,
    Int(i64),
    Enum(u64),
    Str(String),
    Oct(Vec<u8>),
    Bits(Vec<u8>, u64),
    List(Vec<Val>),
    Seq(Vec<Val>),
    Choice(u64, Box<Val>),
    None,
    Some(Box<Val>),
}

pub fn bits_str(bytes: &[u8], n: u64) -> String {
    if n == 0 {
        return "-".into();
    }
    (0..n as usize)
        .map(|i| if bytes.get(i / 8).map(|b| b & (0x80 >> (i % 8)) != 0).unwrap_or(false) { '1' } else { '0' })
        .collect()
}

impl Val {
    pub fn to_sexpr(&self) -> String {
        match self {
            Val::Bool(b) => format!("(bool {})", if *b { 1 } else { 0 }),
            Val::Null => "(null)".into(),
            Val::Int(i) => format!("(int {})", i),
            Val::Enum(i) => format!("(enum {})", i),
            Val::Str(s) => format!("(str {})", crate::util::hex(s.as_bytes())),
            Val::Oct(b) => format!("(oct {})", crate::util::hex(b)),
            Val::Bits(b, n) => format!("(bits {})", bits_str(b, *n)),
            Val::List(v) => format!("(list{})", v.iter().map(|x| format!(" {}", x.to_sexpr())).collect::<String>()),
            Val::Seq(v) => format!("(seq{})", v.iter().map(|x| format!(" {}", x.to_sexpr())).collect::<String>()),
            Val::Choice(i, v) => format!("(choice {} {})", i, v.to_sexpr()),
            Val::None => "(none)".into(),
            Val::Some(v) => format!("(some {})", v.to_sexpr()),
        }
    }
}

// ---------------------------------------------------------------------------------------- S-expr

#[derive(Debug, Clone, PartialEq)]
pub enum Sx {
    Atom(String),
    List(Vec<Sx>),
}

/// parses a sequence of S-expressions / atoms from a text
pub fn parse_sx_all(s: &str) -> Option<Vec<Sx>> {
    let b = s.as_bytes();
    let mut pos = 0;
    let mut stack: Vec<Vec<Sx>> = vec![Vec::new()];
    while pos < b.len() {
        match b[pos] {
            b' ' => pos += 1,
            b'(' => {
                stack.push(Vec::new());
                pos += 1;
            }
            b')' => {
                let l = stack.pop()?;
                stack.last_mut()?.push(Sx::List(l));
                pos += 1;
            }
            _ => {
                let st = pos;
                while pos < b.len() && !matches!(b[pos], b' ' | b'(' | b')') {
                    pos += 1;
                }
                stack.last_mut()?.push(Sx::Atom(s[st..pos].to_string()));
            }
        }
    }
    if stack.len() != 1 {
        return None;
    }
    stack.pop()
}

pub fn val_of_sx(sx: &Sx) -> Option<Val> {
    let l = match sx {
        Sx::List(l) => l,
        _ => return None,
    };
    let head = match l.first()? {
        Sx::Atom(a) => a.as_str(),
        _ => return None,
    };
    let atom = |i: usize| -> Option<&str> {
        match l.get(i)? {
            Sx::Atom(a) => Some(a.as_str()),
            _ => None,
        }
    };
    Some(match head {
        "bool" => Val::Bool(crate::util::pbool(atom(1)?)?),
        "null" => Val::Null,
        "int" => Val::Int(atom(1)?.parse().ok()?),
        "enum" => Val::Enum(atom(1)?.parse().ok()?),
        "str" => Val::Str(String::from_utf8(crate::util::unhex(atom(1)?)?).ok()?),
        "oct" => Val::Oct(crate::util::unhex(atom(1)?)?),
        "bits" => {
            let (bytes, n) = crate::per::string_to_bits(atom(1)?)?;
            Val::Bits(bytes, n as u64)
        }
        "list" => Val::List(l[1..].iter().map(val_of_sx).collect::<Option<Vec<_>>>()?),
        "seq" => Val::Seq(l[1..].iter().map(val_of_sx).collect::<Option<Vec<_>>>()?),
        "choice" => Val::Choice(atom(1)?.parse().ok()?, Box::new(val_of_sx(l.get(2)?)?)),
        "none" => Val::None,
        "some" => Val::Some(Box::new(val_of_sx(l.get(1)?)?)),
        _ => return None,
    })
}

// ------------------------------------------------------------------------------------------- rng

#[derive(Clone)]
pub struct SplitMix(pub u64);

impl SplitMix {
    pub fn next(&mut self) -> u64 {
        self.0 = self.0.wrapping_add(0x9E3779B97F4A7C15);
        let mut z = self.0;
        z = (z ^ (z >> 30)).wrapping_mul(0xBF58476D1CE4E5B9);
        z = (z ^ (z >> 27)).wrapping_mul(0x94D049BB133111EB);
        z ^ (z >> 31)
    }
    pub fn below(&mut self, n: u64) -> u64 {
        if n == 0 {
            0
        } else {
            self.next() % n
        }
    }
    pub fn range_i(&mut self, lo: i128, hi: i128) -> i128 {
        if hi <= lo {
            return lo;
        }
        let span = (hi - lo + 1) as u128;
        let r = ((self.next() as u128) << 64 | self.next() as u128) % span;
        lo + r as i128
    }
    pub fn chance(&mut self, num: u64, den: u64) -> bool {
        self.below(den) < num
    }
}

// ----------------------------------------------------------------------------------------- TyGen

#[derive(Clone, Debug)]
pub enum Forced {
    Int(i64),
    Bool(bool),
    Str(String),
    Enum(u64),
}

/// how values are drawn
#[derive(Clone, Copy, PartialEq, Debug)]
pub enum GenMode {
    /// values inside all constraints (extensible ones sometimes outside their root)
    Valid,
    /// exactly one non-extensible constraint is violated somewhere (C06); `budget` counts the
    /// leaf visits until the violation is placed
    Violate,
}

pub struct TyGen {
    pub rng: SplitMix,
    pub tys: Vec<String>,
    pub forced: Option<Forced>,
    pub mode: GenMode,
    /// Violate: number of constrained leaves still to pass before violating one; `None` = done
    pub violate_in: Option<u64>,
    pub violated: Option<String>,
    pub max_list: u64,
    depth: usize,
}

fn opt_u(o: Option<u64>) -> String {
    o.map(|x| x.to_string()).unwrap_or_else(|| "none".into())
}
fn opt_i(o: Option<i64>) -> String {
    o.map(|x| x.to_string()).unwrap_or_else(|| "none".into())
}
fn b01(b: bool) -> &'static str {
    if b {
        "1"
    } else {
        "0"
    }
}

impl TyGen {
    pub fn new(seed: u64, mode: GenMode) -> Self {
        let mut rng = SplitMix(seed);
        let violate_in = if mode == GenMode::Violate { Some(rng.below(6)) } else { None };
        TyGen { rng, tys: Vec::new(), forced: None, mode, violate_in, violated: None, max_list: 6, depth: 0 }
    }

    fn pop(&mut self) -> String {
        self.tys.pop().expect("descriptor stack")
    }

    /// true when this constrained leaf is the one to violate
    fn violate_here(&mut self) -> bool {
        match self.violate_in {
            Some(0) => {
                self.violate_in = None;
                true
            }
            Some(n) => {
                self.violate_in = Some(n - 1);
                false
            }
            None => false,
        }
    }

    fn gen_len(&mut self, min: Option<u64>, max: Option<u64>, ext: bool, what: &str) -> u64 {
        let lo = min.unwrap_or(0);
        let hi = max.unwrap_or(u64::MAX);
        if !ext && (min.is_some() || max.is_some()) && self.violate_here() {
            // just outside: lb-1 or ub+1
            if lo > 0 && (max.is_none() || self.rng.chance(1, 2)) {
                self.violated = Some(format!("{what}-size-below"));
                return lo - 1;
            }
            if hi < 200 {
                self.violated = Some(format!("{what}-size-above"));
                return hi + 1 + if self.rng.chance(1, 4) { self.rng.below(5) } else { 0 };
            }
            self.violate_in = Some(0); // cannot violate cheaply here, move on
        }
        if ext && self.rng.chance(1, 4) {
            // outside the root of an extensible size
            if lo > 0 && self.rng.chance(1, 2) {
                return self.rng.below(lo);
            }
            if hi < 1000 {
                return hi + 1 + self.rng.below(4);
            }
        }
        let cap = hi.min(lo.saturating_add(self.max_list));
        match self.rng.below(8) {
            0 => lo,
            1 => cap,
            _ => lo + self.rng.below(cap - lo + 1),
        }
    }

    fn gen_string(&mut self, alphabet: &[char], min: Option<u64>, max: Option<u64>, ext: bool, what: &str) -> String {
        if let Some(Forced::Str(s)) = self.forced.take() {
            return s;
        }
        let n = self.gen_len(min, max, ext, what);
        let mut s: String = (0..n).map(|_| alphabet[self.rng.below(alphabet.len() as u64) as usize]).collect();
        if what != "utf8" && n > 0 && self.violate_here() {
            // one illegal character at the first / middle / last position
            // neighbours of the alphabets and characters from other classes
            let bad = [
                '\u{e9}', '\u{0}', '~', '\u{7f}', 'a', '*', '\u{20ac}', '/', ':', '!', '\u{1f}', '&', ';',
                '<', '>', '@', '[', '`', '{', '\u{80}', '_', '"', '#', '$', '%',
                // code points whose LOW OCTET looks like a legal character
                '\u{100}', '\u{141}', '\u{130}', '\u{2041}', '\u{1f600}', '\u{10041}', '\u{220}',
            ];
            // legality decided HERE (X.680 41, tables written out), never by the crate's own
            // `Charset::is_valid`: a defect there must not be able to hide its own witnesses
            let legal = |c: char| -> bool {
                let cp = c as u32;
                match what {
                    "ia5" => cp <= 127,
                    "num" => c == ' ' || c.is_ascii_digit(),
                    "print" => c.is_ascii_alphanumeric() || " '()+,-./:=?".contains(c),
                    _ => (32..=126).contains(&cp),
                }
            };
            let cands: Vec<char> = bad.iter().copied().filter(|c| !legal(*c)).collect();
            let c = cands[self.rng.below(cands.len() as u64) as usize];
            let pos = match self.rng.below(3) {
                0 => 0,
                1 => (n / 2) as usize,
                _ => (n - 1) as usize,
            };
            let mut chars: Vec<char> = s.chars().collect();
            chars[pos] = c;
            s = chars.into_iter().collect();
            self.violated = Some(format!("{what}-alphabet"));
        }
        s
    }
}

fn unescape_debug(s: &str) -> Option<String> {
    // Debug of &str: quoted, with \" \\ \n \t \r \' \u{..} escapes
    let inner = s.strip_prefix('"')?.strip_suffix('"')?;
    let mut out = String::new();
    let mut it = inner.chars().peekable();
    while let Some(c) = it.next() {
        if c != '\\' {
            out.push(c);
            continue;
        }
        match it.next()? {
            'n' => out.push('\n'),
            't' => out.push('\t'),
            'r' => out.push('\r'),
            '0' => out.push('\0'),
            '\\' => out.push('\\'),
            '"' => out.push('"'),
            '\'' => out.push('\''),
            'u' => {
                let mut h = String::new();
                if it.next()? != '{' {
                    return None;
                }
                for d in it.by_ref() {
                    if d == '}' {
                        break;
                    }
                    h.push(d);
                }
                out.push(char::from_u32(u32::from_str_radix(&h, 16).ok()?)?);
            }
            _ => return None,
        }
    }
    Some(out)
}

const IA5: &str = "\u{0}\u{1}\t\n !\"#$%&'()*+,-./0123456789:;<=>?@ABCDEFGHIJKLMNOPQRSTUVWXYZ[\\]^_`abcdefghijklmnopqrstuvwxyz{|}~\u{7f}";
const VIS: &str = " !\"#$%&'()*+,-./0123456789:;<=>?@ABCDEFGHIJKLMNOPQRSTUVWXYZ[\\]^_`abcdefghijklmnopqrstuvwxyz{|}~";
const PRINT: &str = " '()+,-./0123456789:=?ABCDEFGHIJKLMNOPQRSTUVWXYZabcdefghijklmnopqrstuvwxyz";
const NUM: &str = " 0123456789";
const UTF: &str = "aZ09 \u{e9}\u{20ac}\u{1f600}\u{7f}\n";

impl Reader for TyGen {
    type Error = String;

    fn read_sequence<C: sequence::Constraint, S: Sized, F: Fn(&mut Self) -> Result<S, Self::Error>>(&mut self, f: F) -> Result<S, Self::Error> {
        self.depth += 1;
        if self.depth > 40 {
            return Err("recursive type".into());
        }
        let base = self.tys.len();
        let s = f(self)?;
        self.depth -= 1;
        let fields: Vec<String> = self.tys.drain(base..).collect();
        let mut t = format!("(seq {} {} {}", C::STD_OPTIONAL_FIELDS, C::FIELD_COUNT, opt_u(C::EXTENDED_AFTER_FIELD));
        for fty in fields {
            if fty.starts_with("(o ") || fty.starts_with("(d ") {
                t.push(' ');
                t.push_str(&fty);
            } else {
                t.push_str(&format!(" (m {})", fty));
            }
        }
        t.push(')');
        self.tys.push(t);
        Ok(s)
    }

    fn read_sequence_of<C: sequenceof::Constraint, T: ReadableType>(&mut self) -> Result<Vec<T::Type>, Self::Error> {
        self.depth += 1;
        if self.depth > 40 {
            return Err("recursive type".into());
        }
        // describe the element type once (value discarded)
        let saved = self.violate_in.take();
        let _ = T::read_value(self)?;
        self.violate_in = saved;
        let elem = self.pop();
        let n = self.gen_len(C::MIN, C::MAX, C::EXTENSIBLE, "list");
        let mut v = Vec::new();
        for _ in 0..n {
            v.push(T::read_value(self)?);
            self.pop();
        }
        self.depth -= 1;
        self.tys.push(format!("(seqof {} {} {} {})", opt_u(C::MIN), opt_u(C::MAX), b01(C::EXTENSIBLE), elem));
        Ok(v)
    }

    fn read_set<C: set::Constraint, S: Sized, F: Fn(&mut Self) -> Result<S, Self::Error>>(&mut self, f: F) -> Result<S, Self::Error> {
        self.read_sequence::<C, S, F>(f)
    }

    fn read_set_of<C: setof::Constraint, T: ReadableType>(&mut self) -> Result<Vec<T::Type>, Self::Error> {
        self.read_sequence_of::<C, T>()
    }

    fn read_enumerated<C: enumerated::Constraint>(&mut self) -> Result<C, Self::Error> {
        self.tys.push(format!("(enum {} {} {})", C::STD_VARIANT_COUNT, C::VARIANT_COUNT, b01(C::EXTENSIBLE)));
        let idx = match self.forced.take() {
            Some(Forced::Enum(i)) => i,
            _ => self.rng.below(C::VARIANT_COUNT),
        };
        C::from_choice_index(idx).ok_or_else(|| format!("enum index {idx} has no variant"))
    }

    fn read_choice<C: choice::Constraint>(&mut self) -> Result<C, Self::Error> {
        self.depth += 1;
        if self.depth > 40 {
            return Err("recursive type".into());
        }
        let saved = self.violate_in.take();
        let mut alts = Vec::new();
        for i in 0..C::VARIANT_COUNT {
            let _ = C::read_content(i, self)?.ok_or_else(|| format!("choice index {i} has no alternative"))?;
            alts.push(self.pop());
        }
        self.violate_in = saved;
        let idx = self.rng.below(C::VARIANT_COUNT);
        let v = C::read_content(idx, self)?.ok_or("choice")?;
        self.pop();
        self.depth -= 1;
        self.tys.push(format!("(choice {} {} {} {})", C::STD_VARIANT_COUNT, C::VARIANT_COUNT, b01(C::EXTENSIBLE), alts.join(" ")));
        Ok(v)
    }

    fn read_opt<T: ReadableType>(&mut self) -> Result<Option<T::Type>, Self::Error> {
        let present = self.rng.chance(1, 2);
        let saved = if present { None } else { Some(self.violate_in.take()) };
        let v = T::read_value(self)?;
        if let Some(s) = saved {
            self.violate_in = s;
        }
        let ty = self.pop();
        self.tys.push(format!("(o {})", ty));
        Ok(if present { Some(v) } else { None })
    }

    fn read_default<C: default::Constraint<Owned = T::Type>, T: ReadableType>(&mut self) -> Result<T::Type, Self::Error> {
        let use_default = self.rng.chance(1, 2);
        let saved = if use_default { Some(self.violate_in.take()) } else { None };
        let v = T::read_value(self)?;
        if let Some(s) = saved {
            self.violate_in = s;
        }
        let ty = self.pop();
        // recover the default value as a `Val`
        let dbg = format!("{:?}", C::DEFAULT_VALUE);
        let saved_v = self.violate_in.take();
        let dval = if ty.starts_with("(int ") {
            let n: i64 = dbg.parse().map_err(|_| format!("default int {dbg}"))?;
            self.forced = Some(Forced::Int(n));
            format!("(int {n})")
        } else if ty.starts_with("(bool") {
            let b = dbg == "true";
            self.forced = Some(Forced::Bool(b));
            format!("(bool {})", b01(b))
        } else if ty.starts_with("(str ") {
            let s = unescape_debug(&dbg).ok_or_else(|| format!("default str {dbg}"))?;
            self.forced = Some(Forced::Str(s.clone()));
            format!("(str {})", crate::util::hex(s.as_bytes()))
        } else if ty.starts_with("(enum ") {
            let total: u64 = ty.split(' ').nth(2).and_then(|x| x.parse().ok()).ok_or("enum ty")?;
            let mut found = None;
            for i in 0..total {
                self.forced = Some(Forced::Enum(i));
                let cand = T::read_value(self)?;
                self.pop();
                if C::DEFAULT_VALUE.eq(&cand) {
                    found = Some(i);
                    break;
                }
            }
            let i = found.ok_or_else(|| format!("default enum {dbg} not found"))?;
            self.forced = Some(Forced::Enum(i));
            format!("(enum {i})")
        } else {
            return Err(format!("unsupported DEFAULT kind for descriptor {ty}: {dbg}"));
        };
        // confirm with the PartialEq<Owned> bound against a candidate built through the inner reader
        let cand = T::read_value(self)?;
        self.pop();
        self.forced = None;
        self.violate_in = saved_v;
        if !C::DEFAULT_VALUE.eq(&cand) {
            return Err(format!("default value {dbg} could not be reconstructed"));
        }
        self.tys.push(format!("(d {} {})", dval, ty));
        Ok(if use_default { cand } else { v })
    }

    fn read_number<T: numbers::Number, C: numbers::Constraint<T>>(&mut self) -> Result<T, Self::Error> {
        let width = std::mem::size_of::<T>() * 8;
        let signed = T::from_i64(-1).to_i64() < 0;
        self.tys.push(format!("(int {} {} {} {} {})", opt_i(C::MIN), opt_i(C::MAX), b01(C::EXTENSIBLE), width, b01(signed)));
        if let Some(Forced::Int(n)) = self.forced.take() {
            return Ok(T::from_i64(n));
        }
        // representable range of the Rust type, as i64 (u64 is cut at i64::MAX: profile 4.2)
        let (tlo, thi): (i128, i128) = if signed {
            (-(1i128 << (width - 1)), (1i128 << (width - 1)) - 1)
        } else {
            (0, if width == 64 { i64::MAX as i128 } else { (1i128 << width) - 1 })
        };
        let lo = C::MIN.map(|x| x as i128).unwrap_or(tlo).max(tlo);
        let hi = C::MAX.map(|x| x as i128).unwrap_or(thi).min(thi);
        let constrained = C::MIN.is_some() || C::MAX.is_some();
        if constrained && !C::EXTENSIBLE && self.violate_here() {
            // just outside / far outside, if the Rust type can hold such a value
            let mut cands = Vec::new();
            if let Some(m) = C::MIN {
                if (m as i128) > tlo {
                    cands.push((m as i128 - 1, "int-below"));
                    cands.push((tlo, "int-far-below"));
                }
            }
            if let Some(m) = C::MAX {
                if (m as i128) < thi {
                    cands.push((m as i128 + 1, "int-above"));
                    cands.push((thi, "int-far-above"));
                }
            }
            if !cands.is_empty() {
                let (v, why) = cands[self.rng.below(cands.len() as u64) as usize];
                self.violated = Some(why.to_string());
                return Ok(T::from_i64(v as i64));
            }
            self.violate_in = Some(0);
        }
        // the values around every octet boundary of the two's complement / unsigned forms:
        // +-2^(8k-1) and 2^(8k), each -2..+2
        let around = |rng: &mut SplitMix, a: i128, b: i128| -> Option<i128> {
            let mut c = Vec::new();
            for k in 1..=8u32 {
                for base in [1i128 << (8 * k - 1), -(1i128 << (8 * k - 1)), 1i128 << (8 * k), -(1i128 << (8 * k))] {
                    for d in -2i128..=2 {
                        let x = base + d;
                        if x >= a && x <= b {
                            c.push(x);
                        }
                    }
                }
            }
            if c.is_empty() {
                None
            } else {
                Some(c[rng.below(c.len() as u64) as usize])
            }
        };
        let v = if C::EXTENSIBLE && self.rng.chance(1, 3) {
            // anything the Rust type holds (out of root is allowed)
            match self.rng.below(6) {
                0 => tlo,
                1 => thi,
                2 => (hi + 1).min(thi),
                3 | 4 => around(&mut self.rng, tlo, thi).unwrap_or(tlo),
                _ => self.rng.range_i(tlo, thi),
            }
        } else {
            match self.rng.below(7) {
                0 => lo,
                1 => hi,
                2 => self.rng.range_i(lo, (lo + 300).min(hi)),
                3 => around(&mut self.rng, lo, hi).unwrap_or(lo),
                _ => self.rng.range_i(lo, hi),
            }
        };
        Ok(T::from_i64(v as i64))
    }

    fn read_utf8string<C: utf8string::Constraint>(&mut self) -> Result<String, Self::Error> {
        self.tys.push(format!("(str utf8 {} {} {})", opt_u(C::MIN), opt_u(C::MAX), b01(C::EXTENSIBLE)));
        let a: Vec<char> = UTF.chars().collect();
        Ok(self.gen_string(&a, C::MIN, C::MAX, C::EXTENSIBLE, "utf8"))
    }

    fn read_ia5string<C: ia5string::Constraint>(&mut self) -> Result<String, Self::Error> {
        self.tys.push(format!("(str ia5 {} {} {})", opt_u(C::MIN), opt_u(C::MAX), b01(C::EXTENSIBLE)));
        let a: Vec<char> = IA5.chars().collect();
        Ok(self.gen_string(&a, C::MIN, C::MAX, C::EXTENSIBLE, "ia5"))
    }

    fn read_numeric_string<C: numericstring::Constraint>(&mut self) -> Result<String, Self::Error> {
        self.tys.push(format!("(str num {} {} {})", opt_u(C::MIN), opt_u(C::MAX), b01(C::EXTENSIBLE)));
        let a: Vec<char> = NUM.chars().collect();
        Ok(self.gen_string(&a, C::MIN, C::MAX, C::EXTENSIBLE, "num"))
    }

    fn read_visible_string<C: visiblestring::Constraint>(&mut self) -> Result<String, Self::Error> {
        self.tys.push(format!("(str vis {} {} {})", opt_u(C::MIN), opt_u(C::MAX), b01(C::EXTENSIBLE)));
        let a: Vec<char> = VIS.chars().collect();
        Ok(self.gen_string(&a, C::MIN, C::MAX, C::EXTENSIBLE, "vis"))
    }

    fn read_printable_string<C: printablestring::Constraint>(&mut self) -> Result<String, Self::Error> {
        self.tys.push(format!("(str print {} {} {})", opt_u(C::MIN), opt_u(C::MAX), b01(C::EXTENSIBLE)));
        let a: Vec<char> = PRINT.chars().collect();
        Ok(self.gen_string(&a, C::MIN, C::MAX, C::EXTENSIBLE, "print"))
    }

    fn read_octet_string<C: octetstring::Constraint>(&mut self) -> Result<Vec<u8>, Self::Error> {
        self.tys.push(format!("(oct {} {} {})", opt_u(C::MIN), opt_u(C::MAX), b01(C::EXTENSIBLE)));
        let n = self.gen_len(C::MIN, C::MAX, C::EXTENSIBLE, "oct");
        Ok((0..n).map(|_| self.rng.next() as u8).collect())
    }

    fn read_bit_string<C: bitstring::Constraint>(&mut self) -> Result<(Vec<u8>, u64), Self::Error> {
        self.tys.push(format!("(bits {} {} {})", opt_u(C::MIN), opt_u(C::MAX), b01(C::EXTENSIBLE)));
        let n = self.gen_len(C::MIN, C::MAX, C::EXTENSIBLE, "bits");
        let mut bytes: Vec<u8> = (0..(n + 7) / 8).map(|_| self.rng.next() as u8).collect();
        if n % 8 != 0 {
            // zero padding bits in the last octet (profile 4.2)
            let keep = (n % 8) as u32;
            let last = bytes.len() - 1;
            bytes[last] &= 0xffu8 << (8 - keep);
        }
        Ok((bytes, n))
    }

    fn read_boolean<C: boolean::Constraint>(&mut self) -> Result<bool, Self::Error> {
        self.tys.push("(bool)".into());
        if let Some(Forced::Bool(b)) = self.forced.take() {
            return Ok(b);
        }
        Ok(self.rng.chance(1, 2))
    }

    fn read_null<C: null::Constraint>(&mut self) -> Result<Null, Self::Error> {
        self.tys.push("(null)".into());
        Ok(Null)
    }
}

// ------------------------------------------------------------------------------------ TreeWriter

#[derive(Default)]
pub struct TreeWriter {
    pub out: Vec<Val>,
}

impl Writer for TreeWriter {
    type Error = String;

    fn write_sequence<C: sequence::Constraint, F: Fn(&mut Self) -> Result<(), Self::Error>>(&mut self, f: F) -> Result<(), Self::Error> {
        let base = self.out.len();
        f(self)?;
        let fields: Vec<Val> = self.out.drain(base..).collect();
        self.out.push(Val::Seq(fields));
        Ok(())
    }

    fn write_sequence_of<C: sequenceof::Constraint, T: WritableType>(&mut self, slice: &[T::Type]) -> Result<(), Self::Error> {
        let base = self.out.len();
        for v in slice {
            T::write_value(self, v)?;
        }
        let items: Vec<Val> = self.out.drain(base..).collect();
        self.out.push(Val::List(items));
        Ok(())
    }

    fn write_set<C: set::Constraint, F: Fn(&mut Self) -> Result<(), Self::Error>>(&mut self, f: F) -> Result<(), Self::Error> {
        self.write_sequence::<C, F>(f)
    }

    fn write_set_of<C: setof::Constraint, T: WritableType>(&mut self, slice: &[T::Type]) -> Result<(), Self::Error> {
        self.write_sequence_of::<C, T>(slice)
    }

    fn write_enumerated<C: enumerated::Constraint>(&mut self, e: &C) -> Result<(), Self::Error> {
        self.out.push(Val::Enum(e.to_choice_index()));
        Ok(())
    }

    fn write_choice<C: choice::Constraint>(&mut self, c: &C) -> Result<(), Self::Error> {
        c.write_content(self)?;
        let v = self.out.pop().ok_or("choice content")?;
        self.out.push(Val::Choice(c.to_choice_index(), Box::new(v)));
        Ok(())
    }

    fn write_opt<T: WritableType>(&mut self, value: Option<&T::Type>) -> Result<(), Self::Error> {
        match value {
            None => self.out.push(Val::None),
            Some(v) => {
                T::write_value(self, v)?;
                let x = self.out.pop().ok_or("opt content")?;
                self.out.push(Val::Some(Box::new(x)));
            }
        }
        Ok(())
    }

    fn write_default<C: default::Constraint<Owned = T::Type>, T: WritableType>(&mut self, value: &T::Type) -> Result<(), Self::Error> {
        T::write_value(self, value)
    }

    fn write_number<T: numbers::Number, C: numbers::Constraint<T>>(&mut self, value: T) -> Result<(), Self::Error> {
        self.out.push(Val::Int(value.to_i64()));
        Ok(())
    }

    fn write_utf8string<C: utf8string::Constraint>(&mut self, value: &str) -> Result<(), Self::Error> {
        self.out.push(Val::Str(value.to_string()));
        Ok(())
    }
    fn write_ia5string<C: ia5string::Constraint>(&mut self, value: &str) -> Result<(), Self::Error> {
        self.out.push(Val::Str(value.to_string()));
        Ok(())
    }
    fn write_numeric_string<C: numericstring::Constraint>(&mut self, value: &str) -> Result<(), Self::Error> {
        self.out.push(Val::Str(value.to_string()));
        Ok(())
    }
    fn write_visible_string<C: visiblestring::Constraint>(&mut self, value: &str) -> Result<(), Self::Error> {
        self.out.push(Val::Str(value.to_string()));
        Ok(())
    }
    fn write_printable_string<C: printablestring::Constraint>(&mut self, value: &str) -> Result<(), Self::Error> {
        self.out.push(Val::Str(value.to_string()));
        Ok(())
    }
    fn write_octet_string<C: octetstring::Constraint>(&mut self, value: &[u8]) -> Result<(), Self::Error> {
        self.out.push(Val::Oct(value.to_vec()));
        Ok(())
    }
    fn write_bit_string<C: bitstring::Constraint>(&mut self, value: &[u8], bit_len: u64) -> Result<(), Self::Error> {
        self.out.push(Val::Bits(value.to_vec(), bit_len));
        Ok(())
    }
    fn write_boolean<C: boolean::Constraint>(&mut self, value: bool) -> Result<(), Self::Error> {
        self.out.push(Val::Bool(value));
        Ok(())
    }
    fn write_null<C: null::Constraint>(&mut self, _value: &Null) -> Result<(), Self::Error> {
        self.out.push(Val::Null);
        Ok(())
    }
}

pub fn to_val<T: Writable>(v: &T) -> Result<Val, String> {
    let mut w = TreeWriter::default();
    v.write(&mut w)?;
    w.out.pop().ok_or_else(|| "empty".to_string())
}

// ------------------------------------------------------------------------------------- ValReader

/// values still to be consumed, innermost last
pub struct ValReader {
    pub pending: Vec<Val>,
}

impl ValReader {
    pub fn new(v: Val) -> Self {
        ValReader { pending: vec![v] }
    }
    fn next(&mut self) -> Result<Val, String> {
        self.pending.pop().ok_or_else(|| "value tree exhausted".to_string())
    }
}

impl Reader for ValReader {
    type Error = String;

    fn read_sequence<C: sequence::Constraint, S: Sized, F: Fn(&mut Self) -> Result<S, Self::Error>>(&mut self, f: F) -> Result<S, Self::Error> {
        match self.next()? {
            Val::Seq(fields) => {
                let base = self.pending.len();
                for v in fields.into_iter().rev() {
                    self.pending.push(v);
                }
                let s = f(self)?;
                if self.pending.len() != base {
                    return Err("sequence: field count mismatch".into());
                }
                Ok(s)
            }
            v => Err(format!("expected seq, got {:?}", v)),
        }
    }

    fn read_sequence_of<C: sequenceof::Constraint, T: ReadableType>(&mut self) -> Result<Vec<T::Type>, Self::Error> {
        match self.next()? {
            Val::List(items) => {
                let mut out = Vec::with_capacity(items.len());
                for v in items {
                    self.pending.push(v);
                    out.push(T::read_value(self)?);
                }
                Ok(out)
            }
            v => Err(format!("expected list, got {:?}", v)),
        }
    }

    fn read_set<C: set::Constraint, S: Sized, F: Fn(&mut Self) -> Result<S, Self::Error>>(&mut self, f: F) -> Result<S, Self::Error> {
        self.read_sequence::<C, S, F>(f)
    }

    fn read_set_of<C: setof::Constraint, T: ReadableType>(&mut self) -> Result<Vec<T::Type>, Self::Error> {
        self.read_sequence_of::<C, T>()
    }

    fn read_enumerated<C: enumerated::Constraint>(&mut self) -> Result<C, Self::Error> {
        match self.next()? {
            Val::Enum(i) => C::from_choice_index(i).ok_or_else(|| format!("enum index {i}")),
            v => Err(format!("expected enum, got {:?}", v)),
        }
    }

    fn read_choice<C: choice::Constraint>(&mut self) -> Result<C, Self::Error> {
        match self.next()? {
            Val::Choice(i, v) => {
                self.pending.push(*v);
                C::read_content(i, self)?.ok_or_else(|| format!("choice index {i}"))
            }
            v => Err(format!("expected choice, got {:?}", v)),
        }
    }

    fn read_opt<T: ReadableType>(&mut self) -> Result<Option<T::Type>, Self::Error> {
        match self.next()? {
            Val::None => Ok(None),
            Val::Some(v) => {
                self.pending.push(*v);
                Ok(Some(T::read_value(self)?))
            }
            v => Err(format!("expected none/some, got {:?}", v)),
        }
    }

    fn read_default<C: default::Constraint<Owned = T::Type>, T: ReadableType>(&mut self) -> Result<T::Type, Self::Error> {
        T::read_value(self)
    }

    fn read_number<T: numbers::Number, C: numbers::Constraint<T>>(&mut self) -> Result<T, Self::Error> {
        match self.next()? {
            Val::Int(i) => {
                let t = T::from_i64(i);
                if t.to_i64() != i {
                    return Err(format!("integer {i} does not fit the Rust type"));
                }
                Ok(t)
            }
            v => Err(format!("expected int, got {:?}", v)),
        }
    }

    fn read_utf8string<C: utf8string::Constraint>(&mut self) -> Result<String, Self::Error> {
        self.read_str()
    }
    fn read_ia5string<C: ia5string::Constraint>(&mut self) -> Result<String, Self::Error> {
        self.read_str()
    }
    fn read_numeric_string<C: numericstring::Constraint>(&mut self) -> Result<String, Self::Error> {
        self.read_str()
    }
    fn read_visible_string<C: visiblestring::Constraint>(&mut self) -> Result<String, Self::Error> {
        self.read_str()
    }
    fn read_printable_string<C: printablestring::Constraint>(&mut self) -> Result<String, Self::Error> {
        self.read_str()
    }

    fn read_octet_string<C: octetstring::Constraint>(&mut self) -> Result<Vec<u8>, Self::Error> {
        match self.next()? {
            Val::Oct(b) => Ok(b),
            v => Err(format!("expected oct, got {:?}", v)),
        }
    }

    fn read_bit_string<C: bitstring::Constraint>(&mut self) -> Result<(Vec<u8>, u64), Self::Error> {
        match self.next()? {
            Val::Bits(mut b, n) => {
                // the same value in a buffer that owns more octets than the bit length needs (what
                // `BitVec::from_bytes(vec, bit_len)` keeps): nothing behind the bit length is part of the value
                if n % 3 == 1 {
                    b.extend_from_slice(&[0xEF, 0x12]);
                }
                // … and the same value built bit by bit with the public `BitVec` API, growing from half its
                // length (`with_len`, `set_bit` / `reset_bit`): the length is that of the highest bit touched
                if n % 3 == 2 {
                    let mut v = asn1rs::descriptor::bitstring::BitVec::with_len(n / 2);
                    for i in 0..n {
                        if b[(i / 8) as usize] & (0x80 >> (i % 8)) != 0 {
                            v.set_bit(i);
                        } else {
                            v.reset_bit(i);
                        }
                    }
                    return Ok(v.split());
                }
                Ok((b, n))
            }
            v => Err(format!("expected bits, got {:?}", v)),
        }
    }

    fn read_boolean<C: boolean::Constraint>(&mut self) -> Result<bool, Self::Error> {
        match self.next()? {
            Val::Bool(b) => Ok(b),
            v => Err(format!("expected bool, got {:?}", v)),
        }
    }

    fn read_null<C: null::Constraint>(&mut self) -> Result<Null, Self::Error> {
        match self.next()? {
            Val::Null => Ok(Null),
            v => Err(format!("expected null, got {:?}", v)),
        }
    }
}

impl ValReader {
    fn read_str(&mut self) -> Result<String, String> {
        match self.next()? {
            Val::Str(s) => Ok(s),
            v => Err(format!("expected str, got {:?}", v)),
        }
    }
}

pub fn from_val<T: Readable>(v: Val) -> Result<T, String> {
    let mut r = ValReader::new(v);
    let t = T::read(&mut r)?;
    if !r.pending.is_empty() {
        return Err("value tree not fully consumed".into());
    }
    Ok(t)
}

/// descriptor of a type and a generated value
pub fn gen<T: Readable>(seed: u64, mode: GenMode, max_list: u64) -> Result<(T, String, Option<String>), String> {
    let mut g = TyGen::new(seed, mode);
    g.max_list = max_list;
    let v = T::read(&mut g)?;
    let ty = g.tys.pop().ok_or("no descriptor")?;
    Ok((v, ty, g.violated))
}
