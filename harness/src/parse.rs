//! stream `parse` (front end): real `Tokenizer` → `Model::try_from` → `try_resolve`, canonical dump
//!
//!   parse mod  <hex text>        → ok <dump of Model<Asn<Unresolved>>> | err <class>
//!   parse rt   <hex text> [...]  → ok <unresolved dump> <resolved dump | err:<class>> | err <class>
//!   parse fuzz <hex text>        → ok | err parse:<class> | err resolve:<class> | panic <stage>
//!
//! The dump format (one token, no blanks) is documented in tools/front_gen.py.
use crate::util::*;
use asn1rs_model::asn::{
    Asn, Charset, Choice, ComponentTypeList, Enumerated, ObjectIdentifier,
    ObjectIdentifierComponent, Range, Size, Tag, Type,
};
use asn1rs_model::parse::Tokenizer;
use asn1rs_model::resolve::{LitOrRef, ResolveState, Resolved, Unresolved};
use asn1rs_model::{Import, LiteralValue, Model};

pub trait Show {
    fn show(&self) -> String;
}

impl Show for usize {
    fn show(&self) -> String {
        self.to_string()
    }
}

impl Show for i64 {
    fn show(&self) -> String {
        self.to_string()
    }
}

impl Show for u64 {
    fn show(&self) -> String {
        self.to_string()
    }
}

fn hex_or_empty(bytes: &[u8]) -> String {
    if bytes.is_empty() {
        String::new()
    } else {
        hex(bytes)
    }
}

impl Show for LiteralValue {
    fn show(&self) -> String {
        match self {
            LiteralValue::Boolean(b) => format!("(b,{})", b01(*b)),
            LiteralValue::String(s) => format!("(s,{})", hex_or_empty(s.as_bytes())),
            LiteralValue::Integer(i) => format!("(i,{})", i),
            LiteralValue::OctetString(v) => format!("(o,{})", hex_or_empty(v)),
            LiteralValue::EnumeratedVariant(t, v) => format!("(e,{},{})", t, v),
        }
    }
}

impl<T: Show> Show for LitOrRef<T> {
    fn show(&self) -> String {
        match self {
            LitOrRef::Lit(v) => v.show(),
            LitOrRef::Ref(name) => format!("@{}", name),
        }
    }
}

fn sx(head: &str, args: &[String]) -> String {
    let mut s = String::from("(");
    s.push_str(head);
    for a in args {
        s.push(',');
        s.push_str(a);
    }
    s.push(')');
    s
}

fn dump_tag(tag: &Option<Tag>) -> String {
    match tag {
        None => "-".to_string(),
        Some(Tag::Universal(n)) => format!("U{}", n),
        Some(Tag::Application(n)) => format!("A{}", n),
        Some(Tag::ContextSpecific(n)) => format!("C{}", n),
        Some(Tag::Private(n)) => format!("P{}", n),
    }
}

fn dump_charset(c: &Charset) -> &'static str {
    match c {
        Charset::Utf8 => "utf8",
        Charset::Numeric => "numeric",
        Charset::Printable => "printable",
        Charset::Ia5 => "ia5",
        Charset::Visible => "visible",
    }
}

fn dump_size<T: Show + std::fmt::Display + std::fmt::Debug + Clone>(s: &Size<T>) -> String {
    match s {
        Size::Any => "any".to_string(),
        Size::Fix(n, e) => sx("fix", &[n.show(), b01(*e).to_string()]),
        Size::Range(a, b, e) => sx("range", &[a.show(), b.show(), b01(*e).to_string()]),
    }
}

fn dump_opt<T: Show>(v: &Option<T>) -> String {
    match v {
        None => "-".to_string(),
        Some(v) => v.show(),
    }
}

/// marker position as the number of root components (`extension_after + 1`)
fn dump_ext(e: Option<usize>) -> String {
    match e {
        None => "-".to_string(),
        Some(k) => (k as u128 + 1).to_string(),
    }
}

fn dump_constants<T: Show>(cs: &[(String, T)]) -> String {
    let v: Vec<String> = cs
        .iter()
        .map(|(n, v)| format!("({},{})", n, v.show()))
        .collect();
    sx("c", &v)
}

fn dump_enum(e: &Enumerated) -> String {
    let mut v = vec![dump_ext(e.extension_after_index())];
    for var in e.variants() {
        v.push(sx(
            "v",
            &[
                var.name().to_string(),
                match var.number() {
                    None => "-".to_string(),
                    Some(n) => n.to_string(),
                },
            ],
        ));
    }
    sx("enum", &v)
}

pub trait Dumpable: ResolveState
where
    Self::SizeType: Show,
    Self::RangeType: Show,
    Self::ConstType: Show,
{
}

impl Dumpable for Resolved {}
impl Dumpable for Unresolved {}

fn dump_range<T: Show>(r: &Range<Option<T>>) -> Vec<String> {
    vec![dump_opt(&r.0), dump_opt(&r.1), b01(r.2).to_string()]
}

fn dump_components<RS: Dumpable>(head: &str, c: &ComponentTypeList<RS>) -> String
where
    RS::SizeType: Show,
    RS::RangeType: Show,
    RS::ConstType: Show,
{
    let mut v = vec![dump_ext(c.extension_after)];
    for f in &c.fields {
        v.push(sx(
            "f",
            &[
                f.name.clone(),
                dump_tag(&f.role.tag),
                dump_ty(&f.role.r#type),
                dump_opt(&f.role.default),
            ],
        ));
    }
    sx(head, &v)
}

fn dump_choice<RS: Dumpable>(c: &Choice<RS>) -> String
where
    RS::SizeType: Show,
    RS::RangeType: Show,
    RS::ConstType: Show,
{
    let mut v = vec![dump_ext(c.extension_after_index())];
    for var in c.variants() {
        v.push(sx(
            "a",
            &[
                var.name.clone(),
                dump_tag(&var.tag),
                dump_ty(&var.r#type),
            ],
        ));
    }
    sx("choice", &v)
}

pub fn dump_ty<RS: Dumpable>(t: &Type<RS>) -> String
where
    RS::SizeType: Show,
    RS::RangeType: Show,
    RS::ConstType: Show,
{
    match t {
        Type::Boolean => "bool".to_string(),
        Type::Null => "null".to_string(),
        Type::Integer(i) => {
            let mut v = dump_range(&i.range);
            v.push(dump_constants(&i.constants));
            sx("int", &v)
        }
        Type::String(s, c) => sx("str", &[dump_charset(c).to_string(), dump_size(s)]),
        Type::OctetString(s) => sx("oct", &[dump_size(s)]),
        Type::BitString(b) => sx("bit", &[dump_size(&b.size), dump_constants(&b.constants)]),
        Type::Optional(inner) => sx("opt", &[dump_ty(inner)]),
        // never produced by the ASN.1 parser (proc-macro attribute parser only)
        Type::Default(inner, lit) => sx("dflt", &[dump_ty(inner), lit.show()]),
        Type::Sequence(c) => dump_components("seq", c),
        Type::SequenceOf(inner, s) => sx("seqof", &[dump_size(s), dump_ty(inner)]),
        Type::Set(c) => dump_components("set", c),
        Type::SetOf(inner, s) => sx("setof", &[dump_size(s), dump_ty(inner)]),
        Type::Enumerated(e) => dump_enum(e),
        Type::Choice(c) => dump_choice(c),
        Type::TypeReference(n, t) => sx("ref", &[n.clone(), dump_tag(t)]),
    }
}

fn dump_oid(o: &Option<ObjectIdentifier>) -> String {
    match o {
        None => "-".to_string(),
        Some(oid) => {
            let v: Vec<String> = oid
                .iter()
                .map(|c| match c {
                    ObjectIdentifierComponent::NameForm(n) => sx("n", &[n.clone()]),
                    ObjectIdentifierComponent::NumberForm(k) => sx("u", &[k.to_string()]),
                    ObjectIdentifierComponent::NameAndNumberForm(n, k) => {
                        sx("nn", &[n.clone(), k.to_string()])
                    }
                })
                .collect();
            sx("oid", &v)
        }
    }
}

fn dump_import(i: &Import) -> String {
    sx(
        "imp",
        &[i.from.clone(), dump_oid(&i.from_oid), sx("w", &i.what)],
    )
}

pub fn dump_model<RS: Dumpable>(m: &Model<Asn<RS>>) -> String
where
    RS::SizeType: Show,
    RS::RangeType: Show,
    RS::ConstType: Show,
{
    let imports: Vec<String> = m.imports.iter().map(dump_import).collect();
    let vrefs: Vec<String> = m
        .value_references
        .iter()
        .map(|v| {
            sx(
                "vr",
                &[v.name.clone(), dump_ty(&v.role.r#type), v.value.show()],
            )
        })
        .collect();
    let defs: Vec<String> = m
        .definitions
        .iter()
        .map(|d| sx("def", &[d.0.clone(), dump_tag(&d.1.tag), dump_ty(&d.1.r#type)]))
        .collect();
    sx(
        "mod",
        &[
            m.name.clone(),
            dump_oid(&m.oid),
            sx("imports", &imports),
            sx("vrefs", &vrefs),
            sx("defs", &defs),
        ],
    )
}

/// class of a parse error.  `ErrorKind` is not reachable through the public API of
/// `parse::Error`, its `Display` text is: every variant has its own fixed phrase after the
/// `At line L, column C ` prefix.
pub fn parse_err_class(e: &asn1rs_model::parse::Error) -> &'static str {
    let msg = format!("{}", e);
    let body: &str = if let Some(rest) = msg.strip_prefix("At line ") {
        // skip "<L>, column <C> "
        match rest.find(", column ") {
            Some(p) => {
                let after = &rest[p + ", column ".len()..];
                match after.find(' ') {
                    Some(q) => &after[q + 1..],
                    None => after,
                }
            }
            None => rest,
        }
    } else {
        &msg
    };
    let table: &[(&str, &str)] = &[
        ("expected text, but instead got", "expected-text"),
        ("expected a text like", "expected-text-got"),
        ("expected separator, but instead got", "expected-sep"),
        ("expected a separator like", "expected-sep-got"),
        ("an unexpected token was encountered", "unexpected-token"),
        ("The ASN definition is missing the module name", "missing-module-name"),
        ("Unexpected end of stream or file", "eof"),
        ("an unexpected range value was encountered", "invalid-range-value"),
        ("an invalid value for an enum variant", "invalid-enum-number"),
        ("an invalid value for an constant value", "invalid-constant"),
        ("an invalid value for a tag", "invalid-tag"),
        ("an extension marker is present", "invalid-ext-marker"),
        ("a number was expected but instead got", "invalid-int"),
        ("an (yet) unsupported value reference literal", "unsupported-literal"),
        ("an invalid literal was discovered", "invalid-literal"),
    ];
    for (phrase, class) in table {
        if body.starts_with(phrase) {
            return class;
        }
    }
    "other"
}

pub fn resolve_err_class(e: &asn1rs_model::resolve::Error) -> &'static str {
    use asn1rs_model::resolve::Error::*;
    match e {
        FailedToResolveType(_) => "resolve-type",
        FailedToResolveReference(_) => "resolve-reference",
        FailedToParseLiteral(_) => "resolve-literal",
    }
}

pub fn text_of(h: &str) -> Option<String> {
    String::from_utf8(unhex(h)?).ok()
}

pub fn parse_text(text: &str) -> Result<Model<Asn<Unresolved>>, asn1rs_model::parse::Error> {
    Model::try_from(Tokenizer::default().parse(text))
}

fn stage<T>(f: impl FnOnce() -> T) -> Result<T, ()> {
    std::panic::catch_unwind(std::panic::AssertUnwindSafe(f)).map_err(drop)
}

fn rt_answer(text: &str) -> String {
    match parse_text(text) {
        Ok(m) => {
            let r = match m.try_resolve() {
                Ok(r) => dump_model(&r),
                Err(e) => format!("err:{}", resolve_err_class(&e)),
            };
            format!("ok {} {}", dump_model(&m), r)
        }
        Err(e) => format!("err {}", parse_err_class(&e)),
    }
}

/// the text with a comment behind blanks outside of `"…"` / `'…'` literals (every blank for variant 0,
/// every second / third one else), cycling through the comment forms of X.680 12.6
fn with_comments(text: &str, variant: usize) -> String {
    // (not among them: `--e--` closed on the same line — the tokenizer reads a line comment up to the end of
    //  the line, the property's layouts end line comments with a line break)
    const FORMS: [&str; 7] = [
        "/** c **/",
        "-- d\n",
        "/****/",
        "/* a /* n */ b */",
        "/* \"q */",
        "/*\n*/",
        "/* -- */",
    ];
    let mut out = String::with_capacity(text.len() * 3);
    let mut open: Option<char> = None;
    let mut blanks = 0usize;
    for c in text.chars() {
        out.push(c);
        match open {
            Some(d) if c == d => open = None,
            Some(_) => {}
            None if c == '"' || c == '\'' => open = Some(c),
            None if c == ' ' || c == '\n' => {
                blanks += 1;
                if blanks % (variant + 1) == 0 {
                    out.push_str(FORMS[(blanks / (variant + 1) + variant * 3) % FORMS.len()]);
                    out.push(' ');
                }
            }
            None => {}
        }
    }
    out
}

pub fn handle(args: &[&str]) -> Option<String> {
    Some(match args {
        ["mod", h] => {
            let text = text_of(h)?;
            match parse_text(&text) {
                Ok(m) => format!("ok {}", dump_model(&m)),
                Err(e) => format!("err {}", parse_err_class(&e)),
            }
        }
        ["rt", h, ..] => {
            let text = text_of(h)?;
            let plain = rt_answer(&text);
            // comments are no part of the module: the same text with comments of every form between its
            // items has to give the same answer
            for variant in 0..3 {
                let commented = rt_answer(&with_comments(&text, variant));
                if commented != plain {
                    return Some(format!(
                        "comment-differs [{}] with comments between the items (variant {}) instead of [{}]",
                        commented, variant, plain
                    ));
                }
            }
            plain
        }
        ["fuzz", h] => {
            let text = text_of(h)?;
            let tokens = match stage(|| Tokenizer::default().parse(&text)) {
                Ok(t) => t,
                Err(()) => return Some("panic tokenizer".to_string()),
            };
            let model = match stage(|| Model::try_from(tokens)) {
                Ok(Ok(m)) => m,
                Ok(Err(e)) => return Some(format!("err parse:{}", parse_err_class(&e))),
                Err(()) => return Some("panic parser".to_string()),
            };
            let resolved = match stage(|| model.try_resolve()) {
                Ok(Ok(m)) => m,
                Ok(Err(e)) => return Some(format!("err resolve:{}", resolve_err_class(&e))),
                Err(()) => return Some("panic resolver".to_string()),
            };
            let rust = match stage(|| resolved.to_rust()) {
                Ok(m) => m,
                Err(()) => return Some("panic to_rust".to_string()),
            };
            {
                use asn1rs_model::protobuf::ToProtobufModel;
                if stage(|| rust.to_protobuf()).is_err() {
                    return Some("panic to_protobuf".to_string());
                }
            }
            "ok".to_string()
        }
        _ => return None,
    })
}
