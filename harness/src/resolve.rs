//! stream `resolve` (front end): several modules through the real `MultiModuleResolver`
//!
//!   resolve mods  <hex1>,<hex2>,…          → ok <dump1> <dump2> … | err <class>
//!   resolve subst <mods A> <mods B> [...]  → <answer for A> || <answer for B>
//!   resolve perm  <hex1>,<hex2>,… [...]    → <answer for every load order, dumps put back into
//!                                             request order>, joined by ` || `
//!
//! Module texts in load order; dumps as in the stream `parse` (resolved models).  A module that
//! does not parse answers `err parse:<index>:<class>`.
use crate::parse::{dump_model, parse_err_class, parse_text, resolve_err_class, text_of};
use asn1rs_model::asn::MultiModuleResolver;

fn texts_of(arg: &str) -> Option<Vec<String>> {
    if arg == "-" {
        return Some(Vec::new());
    }
    arg.split(',').map(text_of).collect()
}

/// resolves the texts loaded in the order `order`; the dumps are returned in request order
fn resolve_in_order(texts: &[String], order: &[usize]) -> String {
    let mut resolver = MultiModuleResolver::default();
    for &i in order {
        match parse_text(&texts[i]) {
            Ok(m) => resolver.push(m),
            Err(e) => return format!("err parse:{}:{}", i, parse_err_class(&e)),
        }
    }
    match resolver.try_resolve_all() {
        Ok(models) => {
            let mut dumps = vec![String::new(); texts.len()];
            for (k, m) in models.iter().enumerate() {
                dumps[order[k]] = dump_model(m);
            }
            let mut s = String::from("ok");
            for d in dumps {
                s.push(' ');
                s.push_str(&d);
            }
            s
        }
        Err(e) => format!("err {}", resolve_err_class(&e)),
    }
}

fn permutations(n: usize) -> Vec<Vec<usize>> {
    fn go(cur: &mut Vec<usize>, used: &mut Vec<bool>, n: usize, out: &mut Vec<Vec<usize>>) {
        if cur.len() == n {
            out.push(cur.clone());
            return;
        }
        for i in 0..n {
            if !used[i] {
                used[i] = true;
                cur.push(i);
                go(cur, used, n, out);
                cur.pop();
                used[i] = false;
            }
        }
    }
    let mut out = Vec::new();
    go(&mut Vec::new(), &mut vec![false; n], n, &mut out);
    out
}

pub fn handle(args: &[&str]) -> Option<String> {
    Some(match args {
        ["mods", ms, ..] => {
            let texts = texts_of(ms)?;
            let order: Vec<usize> = (0..texts.len()).collect();
            resolve_in_order(&texts, &order)
        }
        ["subst", a, b, ..] => {
            let ta = texts_of(a)?;
            let tb = texts_of(b)?;
            let oa: Vec<usize> = (0..ta.len()).collect();
            let ob: Vec<usize> = (0..tb.len()).collect();
            format!(
                "{} || {}",
                resolve_in_order(&ta, &oa),
                resolve_in_order(&tb, &ob)
            )
        }
        ["perm", ms, ..] => {
            let texts = texts_of(ms)?;
            if texts.len() > 4 {
                return None;
            }
            let v: Vec<String> = permutations(texts.len())
                .iter()
                .map(|o| resolve_in_order(&texts, o))
                .collect();
            v.join(" || ")
        }
        _ => return None,
    })
}
