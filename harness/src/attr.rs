//! stream `attr` (C08): the `#[asn(..)]` attribute printer of the code generator and the attribute
//! parser of the proc macro, called on the real code.
//!
//!   attr print <spec>                 spec -> RustType -> RustCodeGenerator -> attribute text -> tokens
//!   attr rt <hex attr text> <hex ty>  attribute text -> proc_macro::parse_asn_definition -> spec
//!   attr prt <spec>                   both in a row (what the macro reads back from what was printed)
//!   attr reparse <hex module text>    whole pipeline, per definition, compared on Model<Rust>
//!
//! `spec` is a small prefix notation of the attribute-level type (asn::Type fragment), see `Spec`.
use crate::util::*;
use asn1rs::model::asn::{Asn, Charset, Range, Size, Tag, TagProperty, Type};
use asn1rs::model::generate::rust::RustCodeGenerator;
use asn1rs::model::parse::Tokenizer;
use asn1rs::model::rust::{EncodingOrdering, Field, Rust, RustType};
use asn1rs::model::{Definition, LiteralValue, Model};
use proc_macro2::{Delimiter, TokenStream, TokenTree};
use std::panic::{catch_unwind, AssertUnwindSafe};
use std::str::FromStr;

// ------------------------------------------------------------------------------------------ tokens

fn canon_tokens(ts: TokenStream, out: &mut Vec<String>) {
    for tt in ts {
        match tt {
            TokenTree::Ident(i) => out.push(format!("i:{}", i)),
            TokenTree::Punct(p) => out.push(format!("p:{}", p.as_char())),
            TokenTree::Literal(l) => {
                let s = l.to_string();
                if s.starts_with('"') {
                    match syn::parse_str::<syn::LitStr>(&s) {
                        Ok(v) => out.push(format!("s:{}", hex(v.value().as_bytes()))),
                        Err(_) => out.push(format!("l:{}", hex(s.as_bytes()))),
                    }
                } else {
                    out.push(format!("n:{}", s));
                }
            }
            TokenTree::Group(g) => {
                let (o, c) = match g.delimiter() {
                    Delimiter::Parenthesis => ("(", ")"),
                    Delimiter::Bracket => ("[", "]"),
                    Delimiter::Brace => ("{", "}"),
                    Delimiter::None => ("<", ">"),
                };
                out.push(o.to_string());
                canon_tokens(g.stream(), out);
                out.push(c.to_string());
            }
        }
    }
}

// -------------------------------------------------------------------------------------------- spec

/// spec ::= bool | null | int(min,max,ext,consts) | str(cs,size) | oct(size) | bits(size)
///        | opt(spec) | def(spec,lit) | seqof(size,spec) | setof(size,spec) | ref(name,tag)
/// min,max ::= none | <i64>;  ext ::= 0|1;  consts ::= - | NAME=<i64>{:NAME=<i64>}
/// size ::= any | fix(n,ext) | range(a,b,ext);  tag ::= none | u<n> | a<n> | c<n> | p<n>
/// lit ::= b0 | b1 | i<i64> | s<hex> | o<hex> | e<Type>.<Variant>
fn spec_size(s: &Size) -> String {
    match s {
        Size::Any => "any".to_string(),
        Size::Fix(n, e) => format!("fix({},{})", n, b01(*e)),
        Size::Range(a, b, e) => format!("range({},{},{})", a, b, b01(*e)),
    }
}

fn spec_tag(t: &Option<Tag>) -> String {
    match t {
        None => "none".to_string(),
        Some(Tag::Universal(n)) => format!("u{}", n),
        Some(Tag::Application(n)) => format!("a{}", n),
        Some(Tag::ContextSpecific(n)) => format!("c{}", n),
        Some(Tag::Private(n)) => format!("p{}", n),
    }
}

fn spec_lit(l: &LiteralValue) -> String {
    match l {
        LiteralValue::Boolean(b) => format!("b{}", b01(*b)),
        LiteralValue::Integer(i) => format!("i{}", i),
        LiteralValue::String(s) => format!("s{}", hex(s.as_bytes())),
        LiteralValue::OctetString(o) => format!("o{}", hex(o)),
        LiteralValue::EnumeratedVariant(t, v) => format!("e{}.{}", t, v),
    }
}

fn spec_opt_i64(v: &Option<i64>) -> String {
    v.map(|v| v.to_string()).unwrap_or_else(|| "none".to_string())
}

fn spec_charset(c: Charset) -> &'static str {
    match c {
        Charset::Utf8 => "utf8",
        Charset::Numeric => "numeric",
        Charset::Printable => "printable",
        Charset::Ia5 => "ia5",
        Charset::Visible => "visible",
    }
}

fn spec_type(t: &Type) -> String {
    match t {
        Type::Boolean => "bool".to_string(),
        Type::Null => "null".to_string(),
        Type::Integer(i) => format!(
            "int({},{},{},{})",
            spec_opt_i64(i.range.min()),
            spec_opt_i64(i.range.max()),
            b01(i.range.extensible()),
            if i.constants.is_empty() {
                "-".to_string()
            } else {
                i.constants.iter().map(|(n, v)| format!("{}={}", n, v)).collect::<Vec<_>>().join(":")
            }
        ),
        Type::String(size, cs) => format!("str({},{})", spec_charset(*cs), spec_size(size)),
        Type::OctetString(size) => format!("oct({})", spec_size(size)),
        Type::BitString(b) => format!(
            "bits({}){}",
            spec_size(&b.size),
            if b.constants.is_empty() { "".to_string() } else { "!consts".to_string() }
        ),
        Type::Optional(i) => format!("opt({})", spec_type(i)),
        Type::Default(i, l) => format!("def({},{})", spec_type(i), spec_lit(l)),
        Type::SequenceOf(i, s) => format!("seqof({},{})", spec_size(s), spec_type(i)),
        Type::SetOf(i, s) => format!("setof({},{})", spec_size(s), spec_type(i)),
        Type::TypeReference(n, tag) => format!("ref({},{})", n.replace(' ', ""), spec_tag(tag)),
        Type::Sequence(_) => "sequence".to_string(),
        Type::Set(_) => "set".to_string(),
        Type::Enumerated(_) => "enumerated".to_string(),
        Type::Choice(_) => "choice".to_string(),
    }
}

fn spec_role(a: &Asn) -> String {
    format!(
        "{};{}{}",
        spec_type(&a.r#type),
        spec_tag(&a.tag),
        a.default.as_ref().map(|d| format!(";default={}", spec_lit(d))).unwrap_or_default()
    )
}

struct P<'a> {
    s: &'a [u8],
    i: usize,
}

impl<'a> P<'a> {
    fn eat(&mut self, lit: &str) -> bool {
        if self.s[self.i..].starts_with(lit.as_bytes()) {
            self.i += lit.len();
            true
        } else {
            false
        }
    }
    fn expect(&mut self, lit: &str) -> Option<()> {
        if self.eat(lit) {
            Some(())
        } else {
            None
        }
    }
    fn until(&mut self, stops: &[u8]) -> &'a str {
        let start = self.i;
        while self.i < self.s.len() && !stops.contains(&self.s[self.i]) {
            self.i += 1;
        }
        std::str::from_utf8(&self.s[start..self.i]).unwrap_or("")
    }
    fn opt_i64(&mut self) -> Option<Option<i64>> {
        let t = self.until(b",)");
        if t == "none" {
            Some(None)
        } else {
            t.parse().ok().map(Some)
        }
    }
    fn flag(&mut self) -> Option<bool> {
        pbool(self.until(b",)"))
    }
    fn size(&mut self) -> Option<Size> {
        if self.eat("any") {
            Some(Size::Any)
        } else if self.eat("fix(") {
            let n = self.until(b",").parse().ok()?;
            self.expect(",")?;
            let e = self.flag()?;
            self.expect(")")?;
            Some(Size::Fix(n, e))
        } else if self.eat("range(") {
            let a = self.until(b",").parse().ok()?;
            self.expect(",")?;
            let b = self.until(b",").parse().ok()?;
            self.expect(",")?;
            let e = self.flag()?;
            self.expect(")")?;
            Some(Size::Range(a, b, e))
        } else {
            None
        }
    }
    fn tag(&mut self) -> Option<Option<Tag>> {
        let t = self.until(b",);");
        if t == "none" {
            return Some(None);
        }
        let n: usize = t.get(1..)?.parse().ok()?;
        Some(Some(match t.as_bytes()[0] {
            b'u' => Tag::Universal(n),
            b'a' => Tag::Application(n),
            b'c' => Tag::ContextSpecific(n),
            b'p' => Tag::Private(n),
            _ => return None,
        }))
    }
    fn lit(&mut self) -> Option<LiteralValue> {
        let t = self.until(b",)");
        let (k, rest) = (t.as_bytes().first()?, t.get(1..)?);
        Some(match k {
            b'b' => LiteralValue::Boolean(pbool(rest)?),
            b'i' => LiteralValue::Integer(rest.parse().ok()?),
            b's' => LiteralValue::String(String::from_utf8(unhex(rest)?).ok()?),
            b'o' => LiteralValue::OctetString(unhex(rest)?),
            b'e' => {
                let (a, b) = rest.split_once('.')?;
                LiteralValue::EnumeratedVariant(a.to_string(), b.to_string())
            }
            _ => return None,
        })
    }
    /// (type, constants of the outermost-non-optional integer)
    fn ty(&mut self, consts: &mut Vec<(String, String)>) -> Option<RustType> {
        if self.eat("bool") {
            Some(RustType::Bool)
        } else if self.eat("null") {
            Some(RustType::Null)
        } else if self.eat("int(") {
            let min = self.opt_i64()?;
            self.expect(",")?;
            let max = self.opt_i64()?;
            self.expect(",")?;
            let ext = self.flag()?;
            self.expect(",")?;
            let cs = self.until(b")");
            if cs != "-" {
                for c in cs.split(':') {
                    let (n, v) = c.split_once('=')?;
                    consts.push((n.to_string(), v.to_string()));
                }
            }
            self.expect(")")?;
            match (min, max) {
                (Some(a), Some(b)) => Some(RustType::I64(Range(a, b, ext))),
                (a, b) => {
                    if a.unwrap_or(0) < 0 || b.unwrap_or(0) < 0 {
                        return None;
                    }
                    Some(RustType::U64(Range(a.map(|v| v as u64), b.map(|v| v as u64), ext)))
                }
            }
        } else if self.eat("str(") {
            let cs = match self.until(b",") {
                "utf8" => Charset::Utf8,
                "numeric" => Charset::Numeric,
                "printable" => Charset::Printable,
                "ia5" => Charset::Ia5,
                "visible" => Charset::Visible,
                _ => return None,
            };
            self.expect(",")?;
            let size = self.size()?;
            self.expect(")")?;
            Some(RustType::String(size, cs))
        } else if self.eat("oct(") {
            let size = self.size()?;
            self.expect(")")?;
            Some(RustType::VecU8(size))
        } else if self.eat("bits(") {
            let size = self.size()?;
            self.expect(")")?;
            Some(RustType::BitVec(size))
        } else if self.eat("opt(") {
            let inner = self.ty(consts)?;
            self.expect(")")?;
            Some(RustType::Option(Box::new(inner)))
        } else if self.eat("def(") {
            let inner = self.ty(consts)?;
            self.expect(",")?;
            let l = self.lit()?;
            self.expect(")")?;
            Some(RustType::Default(Box::new(inner), l))
        } else if self.eat("seqof(") || self.eat("setof(") {
            let keep = &self.s[self.i - 6..self.i - 1] == b"seqof";
            let size = self.size()?;
            self.expect(",")?;
            let inner = self.ty(consts)?;
            self.expect(")")?;
            Some(RustType::Vec(
                Box::new(inner),
                size,
                if keep { EncodingOrdering::Keep } else { EncodingOrdering::Sort },
            ))
        } else if self.eat("ref(") {
            let name = self.until(b",").to_string();
            self.expect(",")?;
            let tag = self.tag()?;
            self.expect(")")?;
            Some(RustType::Complex(name, tag))
        } else {
            None
        }
    }
}

/// `<type spec>;<tag>` -> a one-field struct definition as the converter would build it
fn definition_of_spec(spec: &str) -> Option<Definition<Rust>> {
    let mut p = P { s: spec.as_bytes(), i: 0 };
    let mut consts = Vec::new();
    let ty = p.ty(&mut consts)?;
    p.expect(";")?;
    let tag = p.tag()?;
    if p.i != p.s.len() {
        return None;
    }
    let mut field = Field::from_name_type("f", ty).with_constants(consts);
    if let Some(t) = tag {
        field.set_tag(t);
    }
    Some(Definition(
        "S".to_string(),
        Rust::Struct {
            ordering: EncodingOrdering::Keep,
            fields: vec![field],
            tag: None,
            extension_after: None,
        },
    ))
}

// ------------------------------------------------------------------------- generated text handling

/// text the real generator prints for a module that consists of this one definition
fn generate(def: &Definition<Rust>) -> String {
    use asn1rs::model::generate::Generator;
    let mut g = RustCodeGenerator::default();
    g.add_model(Model {
        name: "m".to_string(),
        oid: None,
        imports: Vec::new(),
        definitions: vec![def.clone()],
        value_references: Vec::new(),
    });
    g.to_string().unwrap().into_iter().map(|(_, c)| c).collect::<Vec<_>>().join("\n")
}

/// end (exclusive) of the `#[...]` starting at s[0..], string literals skipped
fn attr_end(s: &str) -> Option<usize> {
    let b = s.as_bytes();
    let mut depth = 0i32;
    let mut i = 1;
    let mut in_str = false;
    while i < b.len() {
        let c = b[i];
        if in_str {
            if c == b'\\' {
                i += 1;
            } else if c == b'"' {
                in_str = false;
            }
        } else if c == b'"' {
            in_str = true;
        } else if c == b'[' || c == b'(' {
            depth += 1;
        } else if c == b']' || c == b')' {
            depth -= 1;
            if depth == 0 && c == b']' {
                return Some(i + 1);
            }
        }
        i += 1;
    }
    None
}

/// splits the text of a generated module into its definitions: (header attribute content, item
/// text without the header attribute), in order.  An item starts at a top-level line `#[asn(`
/// and ends before the first following top-level `impl`.
fn items_of(code: &str) -> Vec<(String, String)> {
    let mut out = Vec::new();
    let lines: Vec<&str> = code.lines().collect();
    let mut i = 0;
    while i < lines.len() {
        if lines[i].starts_with("#[asn(") {
            let header = lines[i].trim();
            let inner = header
                .strip_prefix("#[asn(")
                .and_then(|s| s.strip_suffix(")]"))
                .unwrap_or("")
                .to_string();
            let mut body = String::new();
            i += 1;
            while i < lines.len() && !lines[i].starts_with("impl") && !lines[i].starts_with("#[asn(") {
                body.push_str(lines[i]);
                body.push('\n');
                i += 1;
            }
            out.push((inner, body));
        } else {
            i += 1;
        }
    }
    out
}

/// attribute text of the single field of the struct printed for `definition_of_spec`
fn field_attribute(code: &str) -> Option<String> {
    for l in code.lines() {
        let t = l.trim_start();
        if l.starts_with(' ') && t.starts_with("#[asn(") {
            let e = attr_end(t)?;
            return Some(t["#[asn(".len()..e - 2].to_string());
        }
    }
    None
}

fn reparse_item(header: &str, body: &str) -> Result<Option<Definition<Asn>>, String> {
    let attr = TokenStream::from_str(header).map_err(|_| "lex".to_string())?;
    let item = TokenStream::from_str(body).map_err(|_| "lex".to_string())?;
    match asn1rs::model::proc_macro::parse_asn_definition(attr, item) {
        Ok((d, _)) => Ok(d),
        Err(_) => Err("parse".to_string()),
    }
}

fn nice_lit(t: &mut RustType) {
    match t {
        RustType::Default(inner, lit) => {
            if let LiteralValue::EnumeratedVariant(ty, var) = lit {
                *ty = asn1rs::model::rust::rust_struct_or_enum_name(ty);
                *var = asn1rs::model::rust::rust_variant_name(var);
            }
            nice_lit(inner);
        }
        RustType::Option(inner) => nice_lit(inner),
        RustType::Vec(inner, ..) => nice_lit(inner),
        _ => {}
    }
}

fn nice_enum_defaults(Definition(name, rust): Definition<Rust>) -> Definition<Rust> {
    Definition(
        name,
        match rust {
            Rust::Struct { ordering, fields, tag, extension_after } => Rust::Struct {
                ordering,
                fields: fields
                    .into_iter()
                    .map(|f| {
                        let mut ty = f.r#type().clone();
                        nice_lit(&mut ty);
                        let mut g = Field::from_name_type(f.name(), ty).with_constants(f.constants().to_vec());
                        if let Some(t) = f.tag() {
                            g.set_tag(t);
                        }
                        g
                    })
                    .collect(),
                tag,
                extension_after,
            },
            Rust::TupleStruct { mut r#type, tag, constants } => {
                nice_lit(&mut r#type);
                Rust::TupleStruct { r#type, tag, constants }
            }
            other => other,
        },
    )
}

fn sanitize(s: &str) -> String {
    s.chars()
        .map(|c| if c.is_whitespace() { '_' } else { c })
        .collect::<String>()
}

/// first place where two Debug renderings differ, a window of each
fn first_diff(a: &str, b: &str) -> String {
    let (ab, bb) = (a.as_bytes(), b.as_bytes());
    let mut i = 0;
    while i < ab.len() && i < bb.len() && ab[i] == bb[i] {
        i += 1;
    }
    let start = a[..i].rfind(|c: char| c == ' ' || c == '(' || c == '{').map(|p| p + 1).unwrap_or(0);
    let wa: String = a[start..].chars().take(70).collect();
    let wb: String = b[start.min(b.len())..].chars().take(70).collect();
    sanitize(&format!("{}=>{}", wa, wb))
}

pub fn handle(args: &[&str]) -> Option<String> {
    crate::names::quiet(|| handle_loud(args))
}

fn handle_loud(args: &[&str]) -> Option<String> {
    Some(match args {
        ["print", spec] => {
            let def = definition_of_spec(spec)?;
            let code = generate(&def);
            let attr = match field_attribute(&code) {
                Some(a) => a,
                None => return Some("err extract".to_string()),
            };
            match TokenStream::from_str(&attr) {
                Ok(ts) => {
                    let mut out = Vec::new();
                    canon_tokens(ts, &mut out);
                    format!("ok {}", out.join(" "))
                }
                Err(_) => "err lex".to_string(),
            }
        }
        ["rt", attr_hex, ty_hex] => {
            let attr = String::from_utf8(unhex(attr_hex)?).ok()?;
            let ty = String::from_utf8(unhex(ty_hex)?).ok()?;
            let body = format!("pub struct S {{ #[asn({})] pub f: {}, }}", attr, ty);
            match reparse_item("sequence", &body) {
                Ok(Some(Definition(_, asn))) => match &asn.r#type {
                    Type::Sequence(c) if c.fields.len() == 1 => format!("ok {}", spec_role(&c.fields[0].role)),
                    _ => "err shape".to_string(),
                },
                Ok(None) => "err none".to_string(),
                Err(e) => format!("err {}", e),
            }
        }
        ["prt", spec] => {
            let def = definition_of_spec(spec)?;
            let code = generate(&def);
            let items = items_of(&code);
            let (header, body) = items.first()?;
            match reparse_item(header, body) {
                Ok(Some(Definition(_, asn))) => match &asn.r#type {
                    Type::Sequence(c) if c.fields.len() == 1 => format!("ok {}", spec_role(&c.fields[0].role)),
                    _ => "err shape".to_string(),
                },
                Ok(None) => "err none".to_string(),
                Err(e) => format!("err {}", e),
            }
        }
        ["reparse", module_hex] | ["reparse", module_hex, _] => {
            let text = String::from_utf8(unhex(module_hex)?).ok()?;
            let front = catch_unwind(AssertUnwindSafe(|| {
                let tokens = Tokenizer.parse(&text);
                let model = Model::try_from(tokens).map_err(|_| "err parse")?;
                model.try_resolve().map_err(|_| "err resolve")
            }));
            let model = match front {
                Ok(Ok(m)) => m,
                Ok(Err(e)) => return Some(e.to_string()),
                Err(_) => return Some("panic front".to_string()),
            };
            let gen = catch_unwind(AssertUnwindSafe(|| {
                use asn1rs::model::generate::Generator;
                let rust = model.to_rust();
                let code = RustCodeGenerator::from(rust.clone())
                    .to_string()
                    .unwrap()
                    .into_iter()
                    .map(|(_, c)| c)
                    .collect::<Vec<_>>()
                    .join("\n");
                (rust, code)
            }));
            let (rust, code) = match gen {
                Ok(v) => v,
                Err(_) => return Some("panic gen".to_string()),
            };
            let items = items_of(&code);
            if items.len() != rust.definitions.len() {
                return Some(format!("err items {} {}", items.len(), rust.definitions.len()));
            }
            let mut choice_tags = 0usize;
            for ((header, body), original) in items.iter().zip(rust.definitions.iter()) {
                let re = catch_unwind(AssertUnwindSafe(|| reparse_item(header, body)));
                let re = match re {
                    Ok(Ok(Some(d))) => d,
                    Ok(Ok(None)) => return Some(format!("err reparse-none {}", original.0)),
                    Ok(Err(e)) => return Some(format!("err reparse-{} {}", e, original.0)),
                    Err(_) => return Some(format!("panic reparse {}", original.0)),
                };
                let back = catch_unwind(AssertUnwindSafe(|| {
                    let m = Model {
                        name: rust.name.clone(),
                        oid: None,
                        imports: rust.imports.clone(),
                        definitions: vec![re],
                        value_references: Vec::new(),
                    };
                    m.to_rust_keep_names().definitions
                }));
                let mut back = match back {
                    Ok(b) => b,
                    Err(_) => return Some(format!("panic to-rust {}", original.0)),
                };
                if back.len() != 1 {
                    return Some(format!("ok diff {} definitions:{}", original.0, back.len()));
                }
                let mut back = back.remove(0);
                // a DEFAULT naming an ENUMERATED item keeps the ASN.1 spelling in the generator's
                // model and is printed (and read back) with the mangled names: same default
                let original = &nice_enum_defaults(original.clone());
                if &back != original {
                    // the macro derives the tag of an untagged CHOICE itself
                    if let (Rust::DataEnum(o), Rust::DataEnum(b)) = (&original.1, &mut back.1) {
                        if o.tag().is_none() && b.tag().is_some() {
                            b.reset_tag();
                            if &back == original {
                                choice_tags += 1;
                                continue;
                            }
                        }
                    }
                    return Some(format!(
                        "ok diff {} {}",
                        original.0,
                        first_diff(&format!("{:?}", original), &format!("{:?}", back))
                    ));
                }
            }
            format!("ok same {} choicetag:{}", rust.definitions.len(), choice_tags)
        }
        _ => return None,
    })
}
