//! text helpers of the line protocol (harness side)
use std::fmt::Write;

pub fn hex(bytes: &[u8]) -> String {
    if bytes.is_empty() {
        return "-".to_string();
    }
    let mut s = String::with_capacity(bytes.len() * 2);
    for b in bytes {
        write!(s, "{:02x}", b).unwrap();
    }
    s
}

pub fn unhex(s: &str) -> Option<Vec<u8>> {
    if s == "-" {
        return Some(Vec::new());
    }
    if s.len() % 2 != 0 {
        return None;
    }
    let b = s.as_bytes();
    let mut out = Vec::with_capacity(b.len() / 2);
    for i in (0..b.len()).step_by(2) {
        let h = (b[i] as char).to_digit(16)?;
        let l = (b[i + 1] as char).to_digit(16)?;
        out.push((h * 16 + l) as u8);
    }
    Some(out)
}

pub fn pbool(s: &str) -> Option<bool> {
    match s {
        "1" | "true" => Some(true),
        "0" | "false" => Some(false),
        _ => None,
    }
}

pub fn b01(b: bool) -> &'static str {
    if b {
        "1"
    } else {
        "0"
    }
}

pub fn opt_u64(s: &str) -> Option<Option<u64>> {
    if s == "none" {
        Some(None)
    } else {
        s.parse().ok().map(Some)
    }
}

pub fn opt_i64(s: &str) -> Option<Option<i64>> {
    if s == "none" {
        Some(None)
    } else {
        s.parse().ok().map(Some)
    }
}

/// error class of a PER error (DESIGN.md 2.4); must match `ErrKind.toString` of the Lean side
pub fn per_err(e: &asn1rs::protocol::per::Error) -> &'static str {
    use asn1rs::protocol::per::ErrorKind::*;
    match e.kind() {
        FromUtf8Error(_) => "utf8",
        InvalidString(..) => "invalid-string",
        UnsupportedOperation(_) => "unsupported",
        InsufficientSpaceInDestinationBuffer(_) => "nospace",
        InsufficientDataInSourceBuffer(_) => "eos",
        LengthDeterminantExceedsLimit { .. } => "len-limit",
        InvalidChoiceIndex(..) => "choice-index",
        ExtensionFieldsInconsistent(_) => "ext-inconsistent",
        ValueNotInRange(..) => "value-range",
        ValueExceedsMaxInt => "value-range",
        ValueIsNegativeButExpectedUnsigned(_) => "value-range",
        SizeNotInRange(..) => "size-range",
        BitLenNotInRange(..) => "bitlen-range",
        OptFlagsExhausted => "other",
        EndOfStream => "eos",
    }
}
