//! stream `inttype` (C15): `INTEGER (a..b[, ...])` through the real front end and code generator.
//!
//! request  `inttype <min|none> <max|none> <0|1 extensible>`
//! answer   `ok <variant> <stored min|none> <stored max|none> <ext 0|1> field=<ty>
//!              fn=<ret ty>:<v_min body>:<v_max body> attr=<text inside integer(..)>
//!              const=<T of numbers::Constraint<T>>:<MIN>:<MIN_T>:<MAX>:<MAX_T>:<EXTENSIBLE>`
//!          | `err parse` | `err resolve`
//!
//! Pipeline: text -> Tokenizer -> Model::try_from -> try_resolve -> to_rust (RustType of the field)
//!           -> RustCodeGenerator (struct field, `#[asn(integer(..))]`, `v_min`/`v_max`)
//!           -> AsnDefWriter::stringify (constants of the `numbers::Constraint` impl).
//! Everything after `to_rust` is read out of the generated *text* with plain string search.
use asn1rs::model::generate::rust::RustCodeGenerator;
use asn1rs::model::generate::walker::AsnDefWriter;
use asn1rs::model::generate::Generator;
use asn1rs::model::parse::Tokenizer;
use asn1rs::model::rust::{Rust, RustType};
use asn1rs::model::Model;
use std::fmt::Display;

fn bound(s: &str, none: &'static str) -> Option<String> {
    if s == "none" {
        return Some(none.to_string());
    }
    // one token, an optionally signed decimal number of any size
    let digits = s.strip_prefix('-').unwrap_or(s);
    if digits.is_empty() || !digits.bytes().all(|b| b.is_ascii_digit()) {
        return None;
    }
    Some(s.to_string())
}

fn opt<T: Display>(v: &Option<T>) -> String {
    match v {
        Some(v) => v.to_string(),
        None => "none".to_string(),
    }
}

/// text between the first occurrence of `start` and the next occurrence of `end` after it
fn between<'a>(text: &'a str, start: &str, end: &str) -> Option<&'a str> {
    let i = text.find(start)? + start.len();
    let j = text[i..].find(end)? + i;
    Some(&text[i..j])
}

/// `const NAME: Option<ty> = Some(value);` -> `value`, absent -> `none`
fn constant(text: &str, name: &str) -> String {
    let key = format!("const {}: Option<", name);
    match text.find(&key) {
        None => "none".to_string(),
        Some(i) => {
            let rest = &text[i..];
            match between(rest, "= Some(", ");") {
                Some(v) => v.trim().to_string(),
                None => "?".to_string(),
            }
        }
    }
}

/// body of `fn <name>() -> T { body }`: Rust integer literal, `_` separators carry no meaning
fn fn_body(text: &str, name: &str) -> Option<(String, String)> {
    let key = format!("fn {}() -> ", name);
    let i = text.find(&key)? + key.len();
    let rest = &text[i..];
    let open = rest.find('{')?;
    let close = rest.find('}')?;
    let ret = rest[..open].trim().to_string();
    let body: String = rest[open + 1..close]
        .chars()
        .filter(|c| !c.is_whitespace() && *c != '_')
        .collect();
    Some((ret, body))
}

pub fn handle(args: &[&str]) -> Option<String> {
    let (min, max, ext) = match args {
        [min, max, ext] => (bound(min, "MIN")?, bound(max, "MAX")?, crate::util::pbool(ext)?),
        _ => return None,
    };
    // the same constraint also governs a value assignment (`k INTEGER (a..b) ::= <a bound>`): the
    // constant generated for it has to have the type of the component
    let lit = if min != "MIN" { min.clone() } else if max != "MAX" { max.clone() } else { "0".to_string() };
    let in_i64 = |s: &String| s == "MIN" || s == "MAX" || s.parse::<i64>().is_ok();
    let assignment = if in_i64(&min) && in_i64(&max) {
        format!("k INTEGER ({}..{}{}) ::= {}", min, max, if ext { ", ..." } else { "" }, lit)
    } else {
        String::new() // a bound outside i64 is read as a reference: the module is refused as it is
    };
    // … and the same constraint in three other places of the same module, where the field type, the
    // attribute and the constants have to be those of `T.v`: with named numbers that lie outside of the
    // range (X.680 19.5: named numbers do not constrain the type), and as the element of a SEQUENCE OF /
    // SET OF that is a component of a SEQUENCE and an alternative of a CHOICE
    let range = format!("({}..{}{})", min, max, if ext { ", ..." } else { "" });
    let text = format!(
        "M DEFINITIONS AUTOMATIC TAGS ::= BEGIN T ::= SEQUENCE {{ v INTEGER {r} }} {a} \
         N ::= SEQUENCE {{ v INTEGER {{ far-down(-9223372036854775808), far-up(9223372036854775807), nil(0) }} {r} }} \
         L ::= SEQUENCE {{ v SEQUENCE OF INTEGER {r}, w SET OF INTEGER {r} }} END",
        r = range,
        a = assignment
    );
    let tokens = Tokenizer::default().parse(&text);
    let model = match Model::try_from(tokens) {
        Ok(m) => m,
        Err(_) => return Some("err parse".to_string()),
    };
    let model = match model.try_resolve() {
        Ok(m) => m,
        Err(_) => return Some("err resolve".to_string()),
    };
    let rust = model.to_rust();
    let ty = match rust.definitions.first().map(|d| &d.1) {
        Some(Rust::Struct { fields, .. }) if fields.len() == 1 => fields[0].r#type().clone(),
        _ => return Some("err shape".to_string()),
    };
    let stored = match &ty {
        RustType::I8(r) => format!("i8 {} {} {}", r.0, r.1, r.2 as u8),
        RustType::U8(r) => format!("u8 {} {} {}", r.0, r.1, r.2 as u8),
        RustType::I16(r) => format!("i16 {} {} {}", r.0, r.1, r.2 as u8),
        RustType::U16(r) => format!("u16 {} {} {}", r.0, r.1, r.2 as u8),
        RustType::I32(r) => format!("i32 {} {} {}", r.0, r.1, r.2 as u8),
        RustType::U32(r) => format!("u32 {} {} {}", r.0, r.1, r.2 as u8),
        RustType::I64(r) => format!("i64 {} {} {}", r.0, r.1, r.2 as u8),
        RustType::U64(r) => format!("u64 {} {} {}", opt(&r.0), opt(&r.1), r.2 as u8),
        other => format!("other:{}", other.to_string()),
    };
    let consts = AsnDefWriter::stringify(&rust);
    let mut generator = RustCodeGenerator::default();
    generator.add_model(rust);
    let files = generator.to_string().ok()?;
    let code = &files.first()?.1;

    let field = between(code, "pub v: ", ",").unwrap_or("?").trim().to_string();
    let attr = between(code, "#[asn(integer(", "))]").unwrap_or("?").replace(' ', "");
    let (ret_min, body_min) = fn_body(code, "v_min").unwrap_or(("?".into(), "?".into()));
    let (ret_max, body_max) = fn_body(code, "v_max").unwrap_or(("?".into(), "?".into()));
    let ret = if ret_min == ret_max { ret_min } else { format!("{}/{}", ret_min, ret_max) };
    if let Some(kty) = between(code, "pub const K: ", " =") {
        if kty.trim() != field {
            return Some(format!("vconst-differs field={} const={}", field, kty.trim()));
        }
    }
    // the other places (see above)
    {
        let after = |text: &'static str| code.find(text).map(|i| &code[i..]);
        let n = after("pub struct N").unwrap_or("");
        let n_field = between(n, "pub v: ", ",").unwrap_or("?").trim().to_string();
        let n_attr = between(n, "#[asn(integer(", ")").unwrap_or("?").replace(' ', "");
        if n_field != field || n_attr != attr {
            return Some(format!(
                "named-differs field={} attr={} with named numbers outside of the range, field={} attr={} without",
                n_field, n_attr, field, attr
            ));
        }
        let l = after("pub struct L").unwrap_or("");
        for (what, name, kind) in [("SEQUENCE OF", "v", "sequence_of"), ("SET OF", "w", "set_of")] {
            let l_field = between(l, &format!("pub {}: ", name), ",\n").unwrap_or("?").trim().to_string();
            let l_attr = between(l, &format!("#[asn({}(integer(", kind), ")").unwrap_or("?").replace(' ', "");
            if l_field != format!("Vec<{}>", field) || l_attr != attr {
                return Some(format!(
                    "nested-differs field={} attr={} as element of a {} component, field={} attr={} as component",
                    l_field, l_attr, what, field, attr
                ));
            }
        }
        // (a module of its own: `AsnDefWriter::stringify` below takes CHOICE tags from the attribute re-parse only)
        let code2 = {
            let text = format!(
                "M DEFINITIONS AUTOMATIC TAGS ::= BEGIN C ::= CHOICE {{ v SEQUENCE OF INTEGER {}, z NULL }} END",
                range
            );
            let model = Model::try_from(Tokenizer::default().parse(&text)).ok()?.try_resolve().ok()?;
            let scope = [&model];
            let mut generator = RustCodeGenerator::default();
            generator.add_model(model.to_rust_with_scope(&scope[..]));
            generator.to_string().ok()?.first()?.1.clone()
        };
        let c = code2.find("pub enum C").map(|i| &code2[i..]).unwrap_or("");
        let c_field = between(c, "V(", ")").unwrap_or("?").trim().to_string();
        let c_attr = between(c, "#[asn(sequence_of(integer(", ")").unwrap_or("?").replace(' ', "");
        if c_field != format!("Vec<{}>", field) || c_attr != attr {
            return Some(format!(
                "nested-differs field={} attr={} as element of a SEQUENCE OF alternative, field={} attr={} as component",
                c_field, c_attr, field, attr
            ));
        }
    }
    let cty = between(&consts, "numbers::Constraint<", ">").unwrap_or("?").to_string();
    let cext = match between(&consts, "const EXTENSIBLE: bool = ", ";") {
        Some("true") => "1",
        Some("false") => "0",
        _ => "?",
    };
    Some(format!(
        "ok {} field={} fn={}:{}:{} attr={} const={}:{}:{}:{}:{}:{}",
        stored,
        field,
        ret,
        body_min,
        body_max,
        attr,
        cty,
        constant(&consts, "MIN"),
        constant(&consts, "MIN_T"),
        constant(&consts, "MAX"),
        constant(&consts, "MAX_T"),
        cext
    ))
}
