//! stream `tok` (front end, C13/C14): the real `Tokenizer::parse`
//!
//! `tok lex <hex of UTF-8 text>`            -> `ok <n> <tok>;<tok>;…` (`-` for no token) | `panic`
//! `tok layout <hex of UTF-8 text> <…>`     -> the same; the further arguments (expected items and
//!                                             locations) are only read by the oracle
//! token: `T:<line>:<column>:<hex of text>` | `S:<line>:<column>:<hex of char>`
//! Input that is not valid UTF-8 is not a request (`bad-op`); a panic is caught by the caller.
use crate::util::*;
use asn1rs::model::parse::{Token, Tokenizer};

fn render(tokens: &[Token]) -> String {
    let mut out = format!("ok {} ", tokens.len());
    if tokens.is_empty() {
        out.push('-');
    }
    for (i, t) in tokens.iter().enumerate() {
        if i > 0 {
            out.push(';');
        }
        let l = t.location();
        match t {
            Token::Text(_, s) => {
                out.push_str(&format!("T:{}:{}:{}", l.line(), l.column(), hex(s.as_bytes())))
            }
            Token::Separator(_, c) => {
                let mut b = [0u8; 4];
                out.push_str(&format!(
                    "S:{}:{}:{}",
                    l.line(),
                    l.column(),
                    hex(c.encode_utf8(&mut b).as_bytes())
                ))
            }
        }
    }
    out
}

pub fn handle(args: &[&str]) -> Option<String> {
    match args {
        ["lex", h] | ["layout", h, _, _] => {
            let text = String::from_utf8(unhex(h)?).ok()?;
            Some(render(&Tokenizer::default().parse(&text)))
        }
        _ => None,
    }
}
