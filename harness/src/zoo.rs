//! the compiled schema zoo and generic access to its types
use asn1rs::descriptor::{Readable, Writable};

pub trait Visitor {
    type Out;
    fn visit<T: Readable + Writable + std::fmt::Debug + PartialEq + Clone>(self) -> Self::Out;
}

include!(concat!(env!("OUT_DIR"), "/zoo_registry.rs"));
