//! Correspondence harness: answers line-protocol requests by running the real crate (built from
//! /repo's working tree) in-process, every request under `catch_unwind`.
mod attr;
mod bits;
mod der;
mod dynval;
mod front;
mod inttype;
mod names;
mod parse;
mod per;
mod proto;
mod resolve;
mod tags;
mod tok;
mod uper;
mod util;
mod zoo;

use std::io::{BufRead, Write};

fn answer(line: &str) -> String {
    let toks: Vec<&str> = line.split_ascii_whitespace().collect();
    let r = std::panic::catch_unwind(|| match toks.split_first() {
        Some((&"bits", args)) => bits::handle(args),
        Some((&"per", args)) => per::handle(args),
        Some((&"der", args)) => der::handle(args),
        Some((&"inttype", args)) => inttype::handle(args),
        Some((&"tok", args)) => tok::handle(args),
        Some((&"tags", args)) => tags::handle(args),
        Some((&"names", args)) => names::handle(args),
        Some((&"attr", args)) => attr::handle(args),
        Some((&"parse", args)) => parse::handle(args),
        Some((&"resolve", args)) => resolve::handle(args),
        Some((&"proto", args)) => proto::handle(args),
        Some((&"uper", args)) => uper::handle(args),
        Some((&"front", args)) => front::handle(args),
        _ => None,
    });
    match r {
        Ok(Some(s)) => s,
        Ok(None) => "bad-op".to_string(),
        Err(_) => "panic".to_string(),
    }
}

fn main() {
    if std::env::var_os("H_PANIC").is_none() {
        std::panic::set_hook(Box::new(|_| {}));
    }
    let stdin = std::io::stdin();
    let stdout = std::io::stdout();
    let mut out = std::io::BufWriter::new(stdout.lock());
    for line in stdin.lock().lines() {
        let line = line.expect("stdin");
        writeln!(out, "{}", answer(&line)).unwrap();
        // flushed per line so that an abort of the process is attributed to the right request
        out.flush().unwrap();
    }
}
