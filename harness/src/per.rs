//! stream `per` — not implemented yet
pub fn handle(_args: &[&str]) -> Option<String> {
    None
}
