//! stream `per` (L1): `PackedRead`/`PackedWrite` of per/unaligned/mod.rs on `BitBuffer` / `Bits`
use crate::util::*;
use asn1rs::protocol::per::unaligned::buffer::{BitBuffer, Bits};
use asn1rs::protocol::per::unaligned::ScopedBitRead;
use asn1rs::protocol::per::{Error, PackedRead, PackedWrite};

pub fn bits_to_string(bytes: &[u8], bit_len: usize) -> String {
    if bit_len == 0 {
        return "-".to_string();
    }
    let mut s = String::with_capacity(bit_len);
    for i in 0..bit_len {
        s.push(if bytes[i / 8] & (0x80 >> (i % 8)) != 0 { '1' } else { '0' });
    }
    s
}

pub fn string_to_bits(s: &str) -> Option<(Vec<u8>, usize)> {
    if s == "-" {
        return Some((Vec::new(), 0));
    }
    let mut bytes = vec![0u8; (s.len() + 7) / 8];
    for (i, c) in s.bytes().enumerate() {
        match c {
            b'1' => bytes[i / 8] |= 0x80 >> (i % 8),
            b'0' => {}
            _ => return None,
        }
    }
    Some((bytes, s.len()))
}

/// FNV-1a (64 bit) over the bits, one octet (0/1) per bit, then the bit length
pub fn fnv_bits(bytes: &[u8], bit_len: usize) -> u64 {
    let mut h: u64 = 0xcbf29ce484222325;
    for i in 0..bit_len {
        let b = (bytes[i / 8] >> (7 - i % 8)) & 1;
        h ^= b as u64;
        h = h.wrapping_mul(0x100000001b3);
    }
    h
}

pub fn gen_bytes(n: usize, seed: u64) -> Vec<u8> {
    (0..n as u64)
        .map(|i| (i.wrapping_mul(37).wrapping_add(seed.wrapping_mul(101)).wrapping_add(i >> 8) & 0xff) as u8)
        .collect()
}

fn w<T, F: FnOnce(&mut BitBuffer) -> Result<T, Error>, G: FnOnce(T) -> String>(f: F, g: G) -> String {
    let mut b = BitBuffer::default();
    match f(&mut b) {
        Ok(t) => {
            let extra = g(t);
            let bits = bits_to_string(b.content(), b.bit_len());
            if extra.is_empty() {
                format!("ok {}", bits)
            } else {
                format!("ok {} {}", bits, extra)
            }
        }
        Err(e) => format!("err {}", per_err(&e)),
    }
}

/// `w2!(|b| <write through b>, <extra>)`: `w`, and the same write through the SLICE writer
/// `(&mut [u8], &mut usize)` into a destination that is all one-bits, starting at bit 3: the bits written
/// must be the same and nothing else may change (a writer re-used for a second message)
macro_rules! w2 {
    (|$b:ident| $body:expr, $g:expr) => {{
        let first = w(|$b| $body, $g);
        match first.strip_prefix("ok ") {
            None => first,
            Some(rest) => {
                let bits = rest.split(' ').next().unwrap_or("-");
                let n = if bits == "-" { 0 } else { bits.len() };
                let mut buf = vec![0xFFu8; (n + 3 + 7) / 8 + 2];
                let mut pos = 3usize;
                let res = {
                    let mut sw = (&mut buf[..], &mut pos);
                    let $b = &mut sw;
                    $body.map(|_| ())
                };
                let mut want = vec![0xFFu8; buf.len()];
                for (i, c) in bits.chars().enumerate().filter(|_| n > 0) {
                    if c == '0' {
                        want[(3 + i) / 8] &= !(0x80u8 >> ((3 + i) % 8));
                    }
                }
                if res.is_ok() && pos == 3 + n && buf == want {
                    first.clone()
                } else {
                    format!("slice-differs [{}] pos={} ok={}", bits, pos, res.is_ok())
                }
            }
        }
    }};
}

fn r<T, F: FnOnce(&mut Bits<'_>) -> Result<T, Error>, G: FnOnce(T) -> String>(bits: &str, f: F, g: G) -> Option<String> {
    let (bytes, len) = string_to_bits(bits)?;
    let mut rd = Bits::from((&bytes[..], len));
    Some(match f(&mut rd) {
        Ok(t) => format!("ok {} {}", g(t), rd.pos()),
        Err(e) => format!("err {}", per_err(&e)),
    })
}

pub fn handle(args: &[&str]) -> Option<String> {
    Some(match args {
        ["w-nnbi", lb, ub, v] => {
            let (lb, ub, v) = (opt_u64(lb)?, opt_u64(ub)?, v.parse().ok()?);
            w2!(|b| b.write_non_negative_binary_integer(lb, ub, v), |_| String::new())
        }
        ["w-len", lb, ub, v] => {
            let (lb, ub, v) = (opt_u64(lb)?, opt_u64(ub)?, v.parse().ok()?);
            w2!(|b| b.write_length_determinant(lb, ub, v), |f| match f {
                None => "none".to_string(),
                Some(x) => x.to_string(),
            })
        }
        ["w-2s", bl, v] => {
            let (bl, v) = (bl.parse().ok()?, v.parse().ok()?);
            w2!(|b| b.write_2s_compliment_binary_integer(bl, v), |_| String::new())
        }
        ["w-con", lb, ub, v] => {
            let (lb, ub, v) = (lb.parse().ok()?, ub.parse().ok()?, v.parse().ok()?);
            w2!(|b| b.write_constrained_whole_number(lb, ub, v), |_| String::new())
        }
        ["w-small", v] => {
            let v = v.parse().ok()?;
            w2!(|b| b.write_normally_small_non_negative_whole_number(v), |_| String::new())
        }
        ["w-semi", lb, v] => {
            let (lb, v) = (lb.parse().ok()?, v.parse().ok()?);
            w2!(|b| b.write_semi_constrained_whole_number(lb, v), |_| String::new())
        }
        ["w-unc", v] => {
            let v = v.parse().ok()?;
            w2!(|b| b.write_unconstrained_whole_number(v), |_| String::new())
        }
        ["w-idx", std, ext, i] => {
            let (std, ext, i) = (std.parse().ok()?, pbool(ext)?, i.parse().ok()?);
            w2!(|b| b.write_enumeration_index(std, ext, i), |_| String::new())
        }
        ["w-oct", lb, ub, ext, h] => {
            let (lb, ub, ext, data) = (opt_u64(lb)?, opt_u64(ub)?, pbool(ext)?, unhex(h)?);
            w2!(|b| b.write_octetstring(lb, ub, ext, &data), |_| String::new())
        }
        ["w-bits", lb, ub, ext, bits] => {
            let (lb, ub, ext) = (opt_u64(lb)?, opt_u64(ub)?, pbool(ext)?);
            let (bytes, len) = string_to_bits(bits)?;
            // written from bit offset 3 of a shifted copy, so that the offset parameter is exercised
            let mut shifted = BitBuffer::default();
            use asn1rs::protocol::per::unaligned::BitWrite;
            shifted.write_bits_with_len(&[0xA0], 3).ok()?;
            shifted.write_bits_with_len(&bytes, len).ok()?;
            w2!(|b| b.write_bitstring(lb, ub, ext, shifted.content(), 3, len as u64), |_| String::new())
        }
        // long values: generated on both sides, answered as length + hash, written and read back
        ["rt-octn", lb, ub, ext, n, seed] => {
            let (lb, ub, ext) = (opt_u64(lb)?, opt_u64(ub)?, pbool(ext)?);
            let data = gen_bytes(n.parse().ok()?, seed.parse().ok()?);
            let mut b = BitBuffer::default();
            match b.write_octetstring(lb, ub, ext, &data) {
                Err(e) => format!("err {}", per_err(&e)),
                Ok(()) => {
                    let mut rd = Bits::from((b.content(), b.bit_len()));
                    let back = rd.read_octetstring(lb, ub, ext);
                    let rt = match back {
                        Ok(v) => format!("{} {}", b01(v == data), rd.remaining()),
                        Err(e) => format!("readerr:{}", per_err(&e)),
                    };
                    format!("ok {} {:016x} {}", b.bit_len(), fnv_bits(b.content(), b.bit_len()), rt)
                }
            }
        }
        ["rt-bitsn", lb, ub, ext, n, seed] => {
            let (lb, ub, ext) = (opt_u64(lb)?, opt_u64(ub)?, pbool(ext)?);
            let n: usize = n.parse().ok()?;
            let seed: u64 = seed.parse().ok()?;
            let data = gen_bytes((n + 7) / 8, seed);
            // written from a bit offset 1..7 of a shifted copy: the offset parameter matters for every
            // fragment of a long value, not only the first
            let off = 1 + (seed % 7) as usize;
            let mut shifted = BitBuffer::default();
            {
                use asn1rs::protocol::per::unaligned::BitWrite;
                shifted.write_bits_with_len(&[0xAA], off).ok()?;
                shifted.write_bits_with_len(&data, n).ok()?;
            }
            let mut b = BitBuffer::default();
            match b.write_bitstring(lb, ub, ext, shifted.content(), off as u64, n as u64) {
                Err(e) => format!("err {}", per_err(&e)),
                Ok(()) => {
                    let mut rd = Bits::from((b.content(), b.bit_len()));
                    let back = rd.read_bitstring(lb, ub, ext);
                    let rt = match back {
                        Ok((v, l)) => {
                            let same = l as usize == n
                                && v.len() == (n + 7) / 8
                                && bits_to_string(&v, n) == bits_to_string(&data, n);
                            format!("{} {}", b01(same), rd.remaining())
                        }
                        Err(e) => format!("readerr:{}", per_err(&e)),
                    };
                    format!("ok {} {:016x} {}", b.bit_len(), fnv_bits(b.content(), b.bit_len()), rt)
                }
            }
        }
        ["r-nnbi", lb, ub, bits] => {
            let (lb, ub) = (opt_u64(lb)?, opt_u64(ub)?);
            r(bits, |b| b.read_non_negative_binary_integer(lb, ub), |v| v.to_string())?
        }
        ["r-len", lb, ub, bits] => {
            let (lb, ub) = (opt_u64(lb)?, opt_u64(ub)?);
            r(bits, |b| b.read_length_determinant(lb, ub), |v| v.to_string())?
        }
        ["r-2s", bl, bits] => {
            let bl = bl.parse().ok()?;
            r(bits, |b| b.read_2s_compliment_binary_integer(bl), |v| v.to_string())?
        }
        ["r-con", lb, ub, bits] => {
            let (lb, ub) = (lb.parse().ok()?, ub.parse().ok()?);
            r(bits, |b| b.read_constrained_whole_number(lb, ub), |v| v.to_string())?
        }
        ["r-small", bits] => r(bits, |b| b.read_normally_small_non_negative_whole_number(), |v| v.to_string())?,
        ["r-semi", lb, bits] => {
            let lb = lb.parse().ok()?;
            r(bits, |b| b.read_semi_constrained_whole_number(lb), |v| v.to_string())?
        }
        ["r-unc", bits] => r(bits, |b| b.read_unconstrained_whole_number(), |v| v.to_string())?,
        ["r-idx", std, ext, bits] => {
            let (std, ext) = (std.parse().ok()?, pbool(ext)?);
            r(bits, |b| b.read_enumeration_index(std, ext), |v| v.to_string())?
        }
        ["r-oct", lb, ub, ext, bits] => {
            let (lb, ub, ext) = (opt_u64(lb)?, opt_u64(ub)?, pbool(ext)?);
            r(bits, |b| b.read_octetstring(lb, ub, ext), |v| hex(&v))?
        }
        ["r-bits", lb, ub, ext, bits] => {
            let (lb, ub, ext) = (opt_u64(lb)?, opt_u64(ub)?, pbool(ext)?);
            r(bits, |b| b.read_bitstring(lb, ub, ext), |(v, l)| bits_to_string(&v, l as usize))?
        }
        _ => return None,
    })
}
