//! stream `der` (C20): the DER primitives of the real crate — `BasicRead`/`BasicWrite` (blanket impls
//! over `std::io::{Read, Write}`) on `Vec<u8>` / `&[u8]`, and `BasicWriter`/`BasicReader` through the
//! public descriptor types `Integer`, `Boolean`, `Enumerated`.
//!
//! Round-trip operations answer `ok <written hex> <value read back> <bytes consumed>` or
//! `ok <written hex> err:<class>`; the reader is given the written bytes followed by `<post>`.
//! Hostile-read operations (`r…`) answer `ok <value> <bytes consumed>` | `err <class>`.
use crate::util::*;
use asn1rs::descriptor::numbers::Number;
use asn1rs::descriptor::{boolean, common, enumerated, numbers};
use asn1rs::descriptor::{Boolean, Enumerated, Integer, ReadableType, WritableType};
use asn1rs::model::asn::Tag;
use asn1rs::prelude::*;
use asn1rs::protocol::basic::{BasicRead, BasicWrite, Error};
use asn1rs::rw::{BasicReader, BasicWriter};
use std::fmt::Display;

asn_to_rust!(
    r"DerZoo DEFINITIONS AUTOMATIC TAGS ::=
    BEGIN

    Small ::= ENUMERATED { abc, def, ghi }

    Tagged ::= [APPLICATION 5] ENUMERATED { one, two, ..., three, four, five }

    Big ::= ENUMERATED {
        v0,
        v1,
        v2,
        v3,
        v4,
        v5,
        v6,
        v7,
        v8,
        v9,
        v10,
        v11,
        v12,
        v13,
        v14,
        v15,
        v16,
        v17,
        v18,
        v19,
        v20,
        v21,
        v22,
        v23,
        v24,
        v25,
        v26,
        v27,
        v28,
        v29,
        v30,
        v31,
        v32,
        v33,
        v34,
        v35,
        v36,
        v37,
        v38,
        v39,
        v40,
        v41,
        v42,
        v43,
        v44,
        v45,
        v46,
        v47,
        v48,
        v49,
        v50,
        v51,
        v52,
        v53,
        v54,
        v55,
        v56,
        v57,
        v58,
        v59,
        v60,
        v61,
        v62,
        v63,
        v64,
        v65,
        v66,
        v67,
        v68,
        v69,
        v70,
        v71,
        v72,
        v73,
        v74,
        v75,
        v76,
        v77,
        v78,
        v79,
        v80,
        v81,
        v82,
        v83,
        v84,
        v85,
        v86,
        v87,
        v88,
        v89,
        v90,
        v91,
        v92,
        v93,
        v94,
        v95,
        v96,
        v97,
        v98,
        v99,
        v100,
        v101,
        v102,
        v103,
        v104,
        v105,
        v106,
        v107,
        v108,
        v109,
        v110,
        v111,
        v112,
        v113,
        v114,
        v115,
        v116,
        v117,
        v118,
        v119,
        v120,
        v121,
        v122,
        v123,
        v124,
        v125,
        v126,
        v127,
        v128,
        v129,
        v130,
        v131,
        v132,
        v133,
        v134,
        v135,
        v136,
        v137,
        v138,
        v139,
        v140,
        v141,
        v142,
        v143,
        v144,
        v145,
        v146,
        v147,
        v148,
        v149,
        v150,
        v151,
        v152,
        v153,
        v154,
        v155,
        v156,
        v157,
        v158,
        v159,
        v160,
        v161,
        v162,
        v163,
        v164,
        v165,
        v166,
        v167,
        v168,
        v169,
        v170,
        v171,
        v172,
        v173,
        v174,
        v175,
        v176,
        v177,
        v178,
        v179,
        v180,
        v181,
        v182,
        v183,
        v184,
        v185,
        v186,
        v187,
        v188,
        v189,
        v190,
        v191,
        v192,
        v193,
        v194,
        v195,
        v196,
        v197,
        v198,
        v199,
        v200,
        v201,
        v202,
        v203,
        v204,
        v205,
        v206,
        v207,
        v208,
        v209,
        v210,
        v211,
        v212,
        v213,
        v214,
        v215,
        v216,
        v217,
        v218,
        v219,
        v220,
        v221,
        v222,
        v223,
        v224,
        v225,
        v226,
        v227,
        v228,
        v229,
        v230,
        v231,
        v232,
        v233,
        v234,
        v235,
        v236,
        v237,
        v238,
        v239,
        v240,
        v241,
        v242,
        v243,
        v244,
        v245,
        v246,
        v247,
        v248,
        v249,
        v250,
        v251,
        v252,
        v253,
        v254,
        v255,
        v256,
        v257,
        v258,
        v259
    }

    END"
);

/// error class; must match `ErrKind.toString` of the Lean side.  `ErrorKind` lives in a private
/// module of the crate and cannot be named here, so its derived `Debug` text is classified.
fn der_err(e: &Error) -> &'static str {
    let d = format!("{:?}", e.kind());
    if d.starts_with("UnsupportedByteLen") {
        "len-limit"
    } else if d.starts_with("UnexpectedChoiceIndex") {
        "choice-index"
    } else if d.starts_with("UnexpectedTypeTag") || d.starts_with("UnexpectedTypeLength") {
        "other"
    } else if d.starts_with("IoError") && d.contains("UnexpectedEof") {
        "eos"
    } else {
        "other"
    }
}

fn class_str(t: Tag) -> String {
    match t {
        Tag::Universal(n) => format!("u:{}", n),
        Tag::Application(n) => format!("a:{}", n),
        Tag::ContextSpecific(n) => format!("c:{}", n),
        Tag::Private(n) => format!("p:{}", n),
    }
}

fn parse_tag(k: &str, n: &str) -> Option<Tag> {
    let n: usize = n.parse().ok()?;
    Some(match k {
        "u" => Tag::Universal(n),
        "a" => Tag::Application(n),
        "c" => Tag::ContextSpecific(n),
        "p" => Tag::Private(n),
        _ => return None,
    })
}

/// `written ++ post`, handed to the reader
fn with_post(written: &[u8], post: &[u8]) -> Vec<u8> {
    let mut v = written.to_vec();
    v.extend_from_slice(post);
    v
}

/// a `Read` source that hands out one octet per call (a socket, `chain`, a chunked reader): every
/// read below is done on the contiguous slice AND on this source; the answers must be the same
struct Drip<'a> {
    data: &'a [u8],
    pos: usize,
}

impl<'a> std::io::Read for Drip<'a> {
    fn read(&mut self, buf: &mut [u8]) -> std::io::Result<usize> {
        if buf.is_empty() || self.pos >= self.data.len() {
            return Ok(0);
        }
        buf[0] = self.data[self.pos];
        self.pos += 1;
        Ok(1)
    }
}

/// like `Drip`, and every other call reports `ErrorKind::Interrupted` (a signal during a blocking read:
/// not an error, the call has to be repeated — `read_exact` does)
struct Intr<'a> {
    data: &'a [u8],
    pos: usize,
    armed: bool,
}

impl<'a> std::io::Read for Intr<'a> {
    fn read(&mut self, buf: &mut [u8]) -> std::io::Result<usize> {
        if buf.is_empty() || self.pos >= self.data.len() {
            return Ok(0);
        }
        self.armed = !self.armed;
        if self.armed {
            return Err(std::io::Error::from(std::io::ErrorKind::Interrupted));
        }
        buf[0] = self.data[self.pos];
        self.pos += 1;
        Ok(1)
    }
}

/// a `Write` sink that takes one octet per call (a socket, a pipe): `write_all` copes, `write` does not
#[derive(Default)]
struct DripSink {
    data: Vec<u8>,
}

impl std::io::Write for DripSink {
    fn write(&mut self, buf: &[u8]) -> std::io::Result<usize> {
        if buf.is_empty() {
            return Ok(0);
        }
        self.data.push(buf[0]);
        Ok(1)
    }
    fn flush(&mut self) -> std::io::Result<()> {
        Ok(())
    }
}

/// `on_both!(bytes, |src| <read from src>, |result, consumed| <answer>)`
macro_rules! on_both {
    ($bytes:expr, |$src:ident| $body:expr, $fmt:expr) => {{
        let bytes: &[u8] = $bytes;
        let a = {
            let mut s: &[u8] = bytes;
            let r = {
                let $src = &mut s;
                $body
            };
            ($fmt)(r, bytes.len() - s.len())
        };
        let b = {
            let mut d = Drip { data: bytes, pos: 0 };
            let r = {
                let $src = &mut d;
                $body
            };
            ($fmt)(r, d.pos)
        };
        let c = {
            let mut d = Intr { data: bytes, pos: 0, armed: false };
            let r = {
                let $src = &mut d;
                $body
            };
            ($fmt)(r, d.pos)
        };
        if a == b && a == c {
            a
        } else {
            format!("chunked-differs [{}] [{}] [{}]", a, b, c)
        }
    }};
}

/// `written_both!(|w| <write to w>)`: the octets written to a `Vec` — `Err` text when a sink that takes
/// one octet per call receives something else
macro_rules! written_both {
    (|$w:ident| $body:expr) => {{
        let mut v: Vec<u8> = Vec::new();
        {
            let $w = &mut v;
            $body.expect("write to Vec");
        }
        let mut d = DripSink::default();
        let r = {
            let $w = &mut d;
            $body
        };
        if r.is_ok() && d.data == v {
            Ok(v)
        } else {
            Err(format!("chunked-differs written [{}] [{}]", hex(&v), hex(&d.data)))
        }
    }};
}

fn rt_answer<V: Display>(written: &[u8], r: Result<V, Error>, consumed: usize) -> String {
    match r {
        Ok(v) => format!("ok {} {} {}", hex(written), v, consumed),
        Err(e) => format!("ok {} err:{}", hex(written), der_err(&e)),
    }
}

fn rd_answer<V: Display>(r: Result<V, Error>, consumed: usize) -> String {
    match r {
        Ok(v) => format!("ok {} {}", v, consumed),
        Err(e) => format!("err {}", der_err(&e)),
    }
}

// ------------------------------------------------------------------ type-level tags and enumerations

const fn mk_tag(k: u8, n: usize) -> Tag {
    match k {
        0 => Tag::Universal(n),
        1 => Tag::Application(n),
        2 => Tag::ContextSpecific(n),
        _ => Tag::Private(n),
    }
}

/// a constraint type whose `TAG` is class `K`, number `N`; `B` selects PER-visible INTEGER bounds
/// (0: none, 1: -1000..1000, 2: i64::MIN..i64::MAX extensible, 3: 0..255) — BER/DER contents do not
/// depend on them, so every INTEGER request is run under all four and the answers must be the same
struct TC<const K: u8, const N: usize, const B: u8 = 0>;
impl<const K: u8, const N: usize, const B: u8> common::Constraint for TC<K, N, B> {
    const TAG: Tag = mk_tag(K, N);
}
impl<T: Number, const K: u8, const N: usize, const B: u8> numbers::Constraint<T> for TC<K, N, B> {
    const MIN: Option<i64> = match B {
        1 => Some(-1000),
        2 => Some(i64::MIN),
        3 => Some(0),
        _ => None,
    };
    const MAX: Option<i64> = match B {
        1 => Some(1000),
        2 => Some(i64::MAX),
        3 => Some(255),
        _ => None,
    };
    const EXTENSIBLE: bool = B == 2;
}
impl<const K: u8, const N: usize> boolean::Constraint for TC<K, N> {}

/// the same tag under the other PER-visible bounds
trait Variants<T: Number> {
    type Neg: numbers::Constraint<T>;
    type Full: numbers::Constraint<T>;
    type Pos: numbers::Constraint<T>;
}
impl<T: Number, const K: u8, const N: usize> Variants<T> for TC<K, N, 0> {
    type Neg = TC<K, N, 1>;
    type Full = TC<K, N, 2>;
    type Pos = TC<K, N, 3>;
}

/// an enumeration with `COUNT` variants, shaped like the generated code
/// (`from_choice_index(i)` is `Some` exactly for `i < VARIANT_COUNT`)
struct En<const COUNT: u64, const K: u8, const N: usize>(u64);
impl<const COUNT: u64, const K: u8, const N: usize> common::Constraint for En<COUNT, K, N> {
    const TAG: Tag = mk_tag(K, N);
}
impl<const COUNT: u64, const K: u8, const N: usize> enumerated::Constraint for En<COUNT, K, N> {
    const NAME: &'static str = "En";
    const VARIANT_COUNT: u64 = COUNT;
    const STD_VARIANT_COUNT: u64 = COUNT;

    fn to_choice_index(&self) -> u64 {
        self.0
    }

    fn from_choice_index(index: u64) -> Option<Self> {
        if index < COUNT {
            Some(En(index))
        } else {
            None
        }
    }
}

/// `match (class, number)` over the tags available at type level; `$C` is bound to the constraint
macro_rules! with_tag {
    ($k:expr, $n:expr, $C:ident => $body:expr) => {
        with_tag!(@classes $k, $n, $C => $body; [0 1 2 10 30 31 63 64 300])
    };
    (@classes $k:expr, $n:expr, $C:ident => $body:expr; [$($num:literal)*]) => {
        match ($k, $n) {
            $( ("u", $num) => { type $C = TC<0, $num>; Some($body) } )*
            $( ("a", $num) => { type $C = TC<1, $num>; Some($body) } )*
            $( ("c", $num) => { type $C = TC<2, $num>; Some($body) } )*
            $( ("p", $num) => { type $C = TC<3, $num>; Some($body) } )*
            _ => None,
        }
    };
}

macro_rules! with_num {
    ($ty:expr, $T:ident => $body:expr) => {
        match $ty {
            "u8" => { type $T = u8; $body }
            "u16" => { type $T = u16; $body }
            "u32" => { type $T = u32; $body }
            "u64" => { type $T = u64; $body }
            "i8" => { type $T = i8; $body }
            "i16" => { type $T = i16; $body }
            "i32" => { type $T = i32; $body }
            "i64" => { type $T = i64; $body }
            _ => None,
        }
    };
}

/// enumerations available at type level: `<count>` with the tags `u:10 a:31 c:0 p:63 u:64`
macro_rules! with_enum {
    ($count:expr, $k:expr, $n:expr, $E:ident => $body:expr) => {
        with_enum!(@go $count, $k, $n, $E => $body;
            [1 2 3 127 128 129 255 256 257 65536 4294967297 9223372036854775809 18446744073709551615])
    };
    (@go $count:expr, $k:expr, $n:expr, $E:ident => $body:expr; [$($c:literal)*]) => {
        match ($count, $k, $n) {
            $( ($c, "u", 10) => { type $E = En<$c, 0, 10>; $body } )*
            $( ($c, "a", 31) => { type $E = En<$c, 1, 31>; $body } )*
            $( ($c, "c", 0) => { type $E = En<$c, 2, 0>; $body } )*
            $( ($c, "p", 63) => { type $E = En<$c, 3, 63>; $body } )*
            $( ($c, "u", 64) => { type $E = En<$c, 0, 64>; $body } )*
            _ => None,
        }
    };
}

// ------------------------------------------------------------------------------- generic operations

fn rt_number<T: Number + Display, C: numbers::Constraint<T> + Variants<T>>(v: T, post: &[u8]) -> String {
    let a = rt_number_one::<T, C>(v, post);
    for (what, b) in [
        ("-1000..1000", rt_number_one::<T, C::Neg>(v, post)),
        ("MIN..MAX,...", rt_number_one::<T, C::Full>(v, post)),
        ("0..255", rt_number_one::<T, C::Pos>(v, post)),
    ] {
        if a != b {
            return format!("bounds-differs [{}] under the PER-visible constraint ({}) instead of [{}]", b, what, a);
        }
    }
    a
}

fn rt_number_one<T: Number + Display, C: numbers::Constraint<T>>(v: T, post: &[u8]) -> String {
    let mut w = BasicWriter::from(Vec::new());
    Integer::<T, C>::write_value(&mut w, &v).expect("write to Vec");
    let written = w.into_inner();
    let mut wd = BasicWriter::from(DripSink::default());
    if Integer::<T, C>::write_value(&mut wd, &v).is_err() || wd.into_inner().data != written {
        return format!("chunked-differs written [{}]", hex(&written));
    }
    let all = with_post(&written, post);
    on_both!(
        &all[..],
        |src| {
            let mut rd = BasicReader::from(src);
            Integer::<T, C>::read_value(&mut rd)
        },
        |r, n| rt_answer(&written, r, n)
    )
}

fn rd_number<T: Number + Display, C: numbers::Constraint<T> + Variants<T>>(bytes: &[u8]) -> String {
    let a = rd_number_one::<T, C>(bytes);
    for (what, b) in [
        ("-1000..1000", rd_number_one::<T, C::Neg>(bytes)),
        ("MIN..MAX,...", rd_number_one::<T, C::Full>(bytes)),
        ("0..255", rd_number_one::<T, C::Pos>(bytes)),
    ] {
        if a != b {
            return format!("bounds-differs [{}] under the PER-visible constraint ({}) instead of [{}]", b, what, a);
        }
    }
    a
}

fn rd_number_one<T: Number + Display, C: numbers::Constraint<T>>(bytes: &[u8]) -> String {
    on_both!(
        bytes,
        |src| {
            let mut rd = BasicReader::from(src);
            Integer::<T, C>::read_value(&mut rd)
        },
        |r, n| rd_answer(r, n)
    )
}

fn rt_boolean<C: boolean::Constraint>(v: bool, post: &[u8]) -> String {
    let mut w = BasicWriter::from(Vec::new());
    Boolean::<C>::write_value(&mut w, &v).expect("write to Vec");
    let written = w.into_inner();
    let mut wd = BasicWriter::from(DripSink::default());
    if Boolean::<C>::write_value(&mut wd, &v).is_err() || wd.into_inner().data != written {
        return format!("chunked-differs written [{}]", hex(&written));
    }
    let all = with_post(&written, post);
    on_both!(
        &all[..],
        |src| {
            let mut rd = BasicReader::from(src);
            Boolean::<C>::read_value(&mut rd)
        },
        |r: Result<bool, Error>, n| rt_answer(&written, r.map(b01), n)
    )
}

fn rd_boolean<C: boolean::Constraint>(bytes: &[u8]) -> String {
    on_both!(
        bytes,
        |src| {
            let mut rd = BasicReader::from(src);
            Boolean::<C>::read_value(&mut rd)
        },
        |r: Result<bool, Error>, n| rd_answer(r.map(b01), n)
    )
}

fn rt_enum<E: enumerated::Constraint>(index: u64, post: &[u8]) -> Option<String> {
    let value = E::from_choice_index(index)?;
    let mut w = BasicWriter::from(Vec::new());
    Enumerated::<E>::write_value(&mut w, &value).expect("write to Vec");
    let written = w.into_inner();
    let mut wd = BasicWriter::from(DripSink::default());
    if Enumerated::<E>::write_value(&mut wd, &value).is_err() || wd.into_inner().data != written {
        return Some(format!("chunked-differs written [{}]", hex(&written)));
    }
    let all = with_post(&written, post);
    Some(on_both!(
        &all[..],
        |src| {
            let mut rd = BasicReader::from(src);
            Enumerated::<E>::read_value(&mut rd)
        },
        |r: Result<E, Error>, n| rt_answer(&written, r.map(|e| e.to_choice_index()), n)
    ))
}

fn rd_enum<E: enumerated::Constraint>(bytes: &[u8]) -> Option<String> {
    Some(on_both!(
        bytes,
        |src| {
            let mut rd = BasicReader::from(src);
            Enumerated::<E>::read_value(&mut rd)
        },
        |r: Result<E, Error>, n| rd_answer(r.map(|e| e.to_choice_index()), n)
    ))
}

pub fn handle(args: &[&str]) -> Option<String> {
    match args {
        // ---- BasicWrite / BasicRead: length
        ["len", n, post] => {
            let n: u64 = n.parse().ok()?;
            let post = unhex(post)?;
            let written = match written_both!(|w| w.write_length(n)) {
                Ok(v) => v,
                Err(e) => return Some(e),
            };
            let all = with_post(&written, &post);
            Some(on_both!(&all[..], |src| src.read_length(), |r, n| rt_answer(&written, r, n)))
        }
        ["rlen", h] => {
            let bytes = unhex(h)?;
            Some(on_both!(&bytes[..], |src| src.read_length(), |r, n| rd_answer(r, n)))
        }
        // ---- identifier
        ["id", k, n, post] => {
            let tag = parse_tag(k, n)?;
            let post = unhex(post)?;
            let written = match written_both!(|w| w.write_identifier(tag)) {
                Ok(v) => v,
                Err(e) => return Some(e),
            };
            let all = with_post(&written, &post);
            Some(on_both!(&all[..], |src| src.read_identifier(), |r: Result<Tag, Error>, n| rt_answer(&written, r.map(class_str), n)))
        }
        ["rid", h] => {
            let bytes = unhex(h)?;
            Some(on_both!(&bytes[..], |src| src.read_identifier(), |r: Result<Tag, Error>, n| rd_answer(r.map(class_str), n)))
        }
        // ---- primitive boolean octet
        ["bool", v, post] => {
            let v = pbool(v)?;
            let post = unhex(post)?;
            let written = match written_both!(|w| BasicWrite::write_boolean(w, v)) {
                Ok(v) => v,
                Err(e) => return Some(e),
            };
            let all = with_post(&written, &post);
            Some(on_both!(&all[..], |src| BasicRead::read_boolean(src), |r: Result<bool, Error>, n| rt_answer(&written, r.map(b01), n)))
        }
        ["rbool", h] => {
            let bytes = unhex(h)?;
            Some(on_both!(&bytes[..], |src| BasicRead::read_boolean(src), |r: Result<bool, Error>, n| rd_answer(r.map(b01), n)))
        }
        // ---- integer content octets; read back with the number of bytes the writer emitted
        ["i64", v, post] => {
            let v: i64 = v.parse().ok()?;
            let post = unhex(post)?;
            let written = match written_both!(|w| w.write_integer_i64(v)) {
                Ok(v) => v,
                Err(e) => return Some(e),
            };
            let all = with_post(&written, &post);
            Some(on_both!(&all[..], |src| src.read_integer_i64(written.len() as u32), |r, n| rt_answer(&written, r, n)))
        }
        ["u64", v, post] => {
            let v: u64 = v.parse().ok()?;
            let post = unhex(post)?;
            let written = match written_both!(|w| w.write_integer_u64(v)) {
                Ok(v) => v,
                Err(e) => return Some(e),
            };
            let all = with_post(&written, &post);
            Some(on_both!(&all[..], |src| src.read_integer_u64(written.len() as u32), |r, n| rt_answer(&written, r, n)))
        }
        ["ri64", byte_len, h] => {
            let byte_len: u32 = byte_len.parse().ok()?;
            let bytes = unhex(h)?;
            Some(on_both!(&bytes[..], |src| src.read_integer_i64(byte_len), |r, n| rd_answer(r, n)))
        }
        ["ru64", byte_len, h] => {
            let byte_len: u32 = byte_len.parse().ok()?;
            let bytes = unhex(h)?;
            Some(on_both!(&bytes[..], |src| src.read_integer_u64(byte_len), |r, n| rd_answer(r, n)))
        }
        // ---- BasicWriter / BasicReader: INTEGER of any of the eight Rust types under a tag
        ["number", ty, k, n, v, post] => {
            let n: usize = n.parse().ok()?;
            let post = unhex(post)?;
            with_num!(*ty, T => {
                let v: T = v.parse().ok()?;
                with_tag!(*k, n, C => rt_number::<T, C>(v, &post))
            })
        }
        ["rnumber", ty, k, n, h] => {
            let n: usize = n.parse().ok()?;
            let bytes = unhex(h)?;
            with_num!(*ty, T => with_tag!(*k, n, C => rd_number::<T, C>(&bytes)))
        }
        // ---- BOOLEAN
        ["boolean", k, n, v, post] => {
            let n: usize = n.parse().ok()?;
            let v = pbool(v)?;
            let post = unhex(post)?;
            with_tag!(*k, n, C => rt_boolean::<C>(v, &post))
        }
        ["rboolean", k, n, h] => {
            let n: usize = n.parse().ok()?;
            let bytes = unhex(h)?;
            with_tag!(*k, n, C => rd_boolean::<C>(&bytes))
        }
        // ---- ENUMERATED: hand-made enumerations of any size
        ["enum", count, k, n, index, post] => {
            let count: u64 = count.parse().ok()?;
            let n: usize = n.parse().ok()?;
            let index: u64 = index.parse().ok()?;
            let post = unhex(post)?;
            with_enum!(count, *k, n, E => rt_enum::<E>(index, &post))
        }
        ["renum", count, k, n, h] => {
            let count: u64 = count.parse().ok()?;
            let n: usize = n.parse().ok()?;
            let bytes = unhex(h)?;
            with_enum!(count, *k, n, E => rd_enum::<E>(&bytes))
        }
        // ---- ENUMERATED: enumerations generated by the crate's own `asn_to_rust!`
        ["genum", which, index, post] => {
            let index: u64 = index.parse().ok()?;
            let post = unhex(post)?;
            match *which {
                "small" => rt_enum::<Small>(index, &post),
                "tagged" => rt_enum::<Tagged>(index, &post),
                "big" => rt_enum::<Big>(index, &post),
                _ => None,
            }
        }
        ["rgenum", which, h] => {
            let bytes = unhex(h)?;
            match *which {
                "small" => rd_enum::<Small>(&bytes),
                "tagged" => rd_enum::<Tagged>(&bytes),
                "big" => rd_enum::<Big>(&bytes),
                _ => None,
            }
        }
        // the constants the generated enumerations were compiled with (checked against the driver's table)
        ["ginfo", which] => {
            fn info<E: enumerated::Constraint>() -> String {
                format!("ok {} {}", class_str(E::TAG), E::VARIANT_COUNT)
            }
            Some(match *which {
                "small" => info::<Small>(),
                "tagged" => info::<Tagged>(),
                "big" => info::<Big>(),
                _ => return None,
            })
        }
        _ => None,
    }
}
