//! stream `tags` (C16): SET/SEQUENCE component order and tag assignment, decided by the real
//! generator pipeline.
//!
//! request  `tags <set|seq|set!|seq!> <components> [<definitions>]`
//!   components  `,`-separated (or `-`): `...` (extension marker) or `name:tag:type[?|!]`
//!               (`?` = OPTIONAL, `!` = DEFAULT, only `bool!`/`int!`)
//!               names: one lower-case letter, then digits
//!   tag         `-` | `U<n>` | `A<n>` | `C<n>` | `P<n>` (at most 18 digits)
//!   type        `bool int bits octs null enum utf8 num print vis ia5 seq seqof set setof`
//!               (`seq`, `set`, `enum`: inline `SEQUENCE { s0 BOOLEAN }`, …) | `@Name` (type
//!               reference) | `ch[v|v|...|v]` (inline CHOICE, `v` = `tag~type`, `...` = marker)
//!   definitions `;`-separated `Name=tag:type` (or `-`); names: upper-case letter, then letters
//!               and digits, not starting with `Tst`
//! The module is `TagsMod DEFINITIONS AUTOMATIC TAGS ::= BEGIN Tst ::= SET|SEQUENCE { .. } <definitions> END`
//! (the crate ignores the tagging mode of the header).  `TAGS_DUMP=1` prints all stages to stderr.
//! answer   `ok <names in emitted order> <TAG constant per emitted component> <EXTENDED_AFTER_FIELD> <TAG of the type>`
//!          | `err other` (stage 2 rejects the stage-1 source) | `panic` | `abort` (only `set!`/`seq!`:
//!          the request runs in a child process; since the repair of `TagResolver` — a stack of the
//!          names being resolved — no request is known to abort, the reference cycles that did are
//!          kept as regression corpus and must answer like any other request)
//!
//! Pipeline (exactly what a user of the crate gets):
//!   stage 1 (converter / `asn_to_rust!`): module text -> `Tokenizer` -> `Model::try_from` ->
//!     `try_resolve` -> `to_rust_with_scope` -> `RustCodeGenerator` -> Rust source with `#[asn(..)]`
//!     attributes;
//!   stage 2 (the `#[asn(..)]` attribute macro): `asn1rs_model::proc_macro::parse(attr, item)` ->
//!     `AsnDefWriter::stringify` -> descriptor code.  The order of the `read_value` calls in
//!     `read_seq` / `write_value` calls in `write_seq` is the wire (and presence-bit) order; the
//!     `TAG` constants are the tags assigned to the components.
use asn1rs::model::generate::Generator;
use asn1rs::model::generate::RustCodeGenerator;
use asn1rs::model::parse::Tokenizer;
use asn1rs::model::Model;

/// splits at `sep` outside of `[..]`
fn split_top(s: &str, sep: char) -> Vec<&str> {
    let mut out = Vec::new();
    let mut depth = 0usize;
    let mut start = 0usize;
    for (i, c) in s.char_indices() {
        match c {
            '[' => depth += 1,
            ']' => depth = depth.saturating_sub(1),
            c if c == sep && depth == 0 => {
                out.push(&s[start..i]);
                start = i + c.len_utf8();
            }
            _ => {}
        }
    }
    out.push(&s[start..]);
    out
}

/// type names: an upper-case letter, then letters and digits; `Tst…` is reserved for the type
/// under test and the inline types the converter extracts from it
fn is_type_name(s: &str) -> bool {
    matches!(s.chars().next(), Some(f) if f.is_ascii_uppercase())
        && s.chars().all(|c| c.is_ascii_alphanumeric())
        && !s.starts_with("Tst")
}

/// component names: one lower-case letter and digits (never a Rust keyword, never re-cased)
fn is_field_name(s: &str) -> bool {
    let mut c = s.chars();
    matches!(c.next(), Some(f) if f.is_ascii_lowercase()) && c.all(|d| d.is_ascii_digit())
}

fn tag_text(t: &str) -> Option<String> {
    if t == "-" {
        return Some(String::new());
    }
    let mut cs = t.chars();
    let cl = cs.next()?;
    let num = cs.as_str();
    if num.is_empty() || num.len() > 18 || !num.chars().all(|c| c.is_ascii_digit()) {
        return None;
    }
    Some(match cl {
        'U' => format!("[UNIVERSAL {}] ", num),
        'A' => format!("[APPLICATION {}] ", num),
        'C' => format!("[{}] ", num),
        'P' => format!("[PRIVATE {}] ", num),
        _ => return None,
    })
}

fn type_text(t: &str) -> Option<String> {
    Some(match t {
        "bool" => "BOOLEAN".to_string(),
        "int" => "INTEGER".to_string(),
        "bits" => "BIT STRING".to_string(),
        "octs" => "OCTET STRING".to_string(),
        "null" => "NULL".to_string(),
        "enum" => "ENUMERATED { e0, e1 }".to_string(),
        "utf8" => "UTF8String".to_string(),
        "num" => "NumericString".to_string(),
        "print" => "PrintableString".to_string(),
        "vis" => "VisibleString".to_string(),
        "ia5" => "IA5String".to_string(),
        "seq" => "SEQUENCE { s0 BOOLEAN }".to_string(),
        "seqof" => "SEQUENCE OF BOOLEAN".to_string(),
        "set" => "SET { s0 BOOLEAN }".to_string(),
        "setof" => "SET OF BOOLEAN".to_string(),
        _ => {
            if let Some(name) = t.strip_prefix('@') {
                if !is_type_name(name) {
                    return None;
                }
                name.to_string()
            } else if let Some(body) = t.strip_prefix("ch[").and_then(|r| r.strip_suffix(']')) {
                let mut parts = Vec::new();
                let mut n = 0usize;
                let mut marker = false;
                for v in split_top(body, '|') {
                    if v == "..." {
                        // the real CHOICE parser rejects these two; not a well-formed request
                        if n == 0 || marker {
                            return None;
                        }
                        marker = true;
                        parts.push("...".to_string());
                    } else {
                        let (tag, ty) = v.split_once('~')?;
                        parts.push(format!("v{} {}{}", n, tag_text(tag)?, type_text(ty)?));
                        n += 1;
                    }
                }
                format!("CHOICE {{ {} }}", parts.join(", "))
            } else {
                return None;
            }
        }
    })
}

/// the ASN.1 module text of a request and the textual component names
fn module_text(kind: &str, comps: &str, defs: &str) -> Option<(String, Vec<String>)> {
    let kw = match kind {
        "set" => "SET",
        "seq" => "SEQUENCE",
        _ => return None,
    };
    let mut names = Vec::new();
    let mut items = Vec::new();
    if comps != "-" {
        for c in split_top(comps, ',') {
            if c == "..." {
                items.push("...".to_string());
                continue;
            }
            let mut p = c.splitn(3, ':');
            let (name, tag, ty) = (p.next()?, p.next()?, p.next()?);
            if !is_field_name(name) {
                return None;
            }
            let (ty, opt) = if let Some(t) = ty.strip_suffix('?') {
                (t, " OPTIONAL")
            } else if let Some(t) = ty.strip_suffix('!') {
                // DEFAULT needs a literal of the type: only for BOOLEAN and INTEGER components
                match t {
                    "bool" => (t, " DEFAULT TRUE"),
                    "int" => (t, " DEFAULT 5"),
                    _ => return None,
                }
            } else {
                (ty, "")
            };
            items.push(format!("{} {}{}{}", name, tag_text(tag)?, type_text(ty)?, opt));
            names.push(name.to_string());
        }
    }
    let mut text = String::from("TagsMod DEFINITIONS AUTOMATIC TAGS ::= BEGIN\n");
    text.push_str(&format!("Tst ::= {} {{ {} }}\n", kw, items.join(", ")));
    for (name, def) in definitions(defs)? {
        text.push_str(&format!("{} ::= {}\n", name, def));
    }
    text.push_str("END\n");
    Some((text, names))
}

/// `(name, tagged type text)` of the definitions of a request
fn definitions(defs: &str) -> Option<Vec<(String, String)>> {
    let mut out = Vec::new();
    if defs != "-" {
        for d in split_top(defs, ';') {
            let (name, rest) = d.split_once('=')?;
            if !is_type_name(name) {
                return None;
            }
            let (tag, ty) = rest.split_once(':')?;
            out.push((name.to_string(), format!("{}{}", tag_text(tag)?, type_text(ty)?)));
        }
    }
    Some(out)
}

/// The same type with its definitions moved into a sibling module `TagsLib` and imported from there,
/// while a third loaded module (`TagsDecoy`, not imported by anybody) defines types of the same names
/// with other tags.  X.680 gives an imported reference the tag of the type it names in the module
/// after FROM, so the answer has to be the one of the single module.  `order`: load order of
/// (decoy, lib, main).
fn stage1_imported(text: &str, defs: &str, order: [usize; 3]) -> Result<String, &'static str> {
    use asn1rs::model::asn::MultiModuleResolver;
    let defs = definitions(defs).ok_or("request")?;
    let mut seen = Vec::new();
    for (n, _) in &defs {
        if !seen.contains(n) {
            seen.push(n.clone());
        }
    }
    let first_line_end = text.find('\n').ok_or("request")? + 1;
    let tst_end = text[first_line_end..].find('\n').ok_or("request")? + first_line_end + 1;
    let main = format!(
        "{}IMPORTS {} FROM TagsLib;\n{}END\n",
        &text[..first_line_end],
        seen.join(", "),
        &text[first_line_end..tst_end]
    );
    let mut lib = String::from("TagsLib DEFINITIONS AUTOMATIC TAGS ::= BEGIN\n");
    for (n, d) in &defs {
        lib.push_str(&format!("{} ::= {}\n", n, d));
    }
    lib.push_str("END\n");
    let mut decoy = String::from("TagsDecoy DEFINITIONS AUTOMATIC TAGS ::= BEGIN\n");
    for (i, n) in seen.iter().enumerate() {
        decoy.push_str(&format!("{} ::= [PRIVATE {}] NULL\n", n, 987650 + i));
    }
    decoy.push_str("END\n");
    let texts = [decoy, lib, main];
    let mut resolver = MultiModuleResolver::default();
    for i in order {
        let model = Model::try_from(Tokenizer.parse(&texts[i])).map_err(|_| "parse")?;
        resolver.push(model);
    }
    let models = resolver.try_resolve_all().map_err(|_| "resolve")?;
    let scope = models.iter().collect::<Vec<_>>();
    let mut generator = RustCodeGenerator::default();
    for model in &models {
        generator.add_model(model.to_rust_with_scope(&scope[..]));
    }
    let files = generator.to_string().map_err(|_| "generate")?;
    Ok(files
        .into_iter()
        .map(|(_file, content)| content)
        .collect::<Vec<_>>()
        .join("\n"))
}

/// stage 1: the Rust source the converter writes for the module
fn stage1(text: &str) -> Result<String, &'static str> {
    let tokens = Tokenizer.parse(text);
    let model = Model::try_from(tokens).map_err(|_| "parse")?;
    let model = model.try_resolve().map_err(|_| "resolve")?;
    let scope = [&model];
    let mut generator = RustCodeGenerator::default();
    generator.add_model(model.to_rust_with_scope(&scope[..]));
    let files = generator.to_string().map_err(|_| "generate")?;
    Ok(files
        .into_iter()
        .map(|(_file, content)| content)
        .collect::<Vec<_>>()
        .join("\n"))
}

/// the `#[asn(..)]`-annotated item `struct <name>` of the stage-1 source: (attribute args, item)
fn find_item(src: &str, name: &str) -> Option<(String, String)> {
    let lines: Vec<&str> = src.lines().collect();
    let head = format!("pub struct {}", name);
    let at = lines.iter().position(|l| {
        l.strip_prefix(&head)
            .map(|r| r.starts_with(' ') || r.starts_with(';') || r.starts_with('('))
            .unwrap_or(false)
    })?;
    // the attribute lines directly above (`#[asn(..)]`, `#[derive(..)]`)
    let mut first = at;
    while first > 0 && (lines[first - 1].starts_with("#[") || lines[first - 1].trim().is_empty()) {
        first -= 1;
    }
    let mut attr = None;
    let mut item = String::new();
    for l in &lines[first..at] {
        if let Some(a) = l.strip_prefix("#[asn(").and_then(|r| r.strip_suffix(")]")) {
            attr = Some(a.to_string());
        } else {
            item.push_str(l);
            item.push('\n');
        }
    }
    for l in &lines[at..] {
        item.push_str(l);
        item.push('\n');
        if *l == "}" || (l.starts_with("pub struct") && l.ends_with(';')) || l.ends_with("{}") {
            break;
        }
    }
    Some((attr?, item))
}

/// The attribute macro reports its errors with `println!`.  Inside this process that would end up
/// between the answers of the line protocol, so file descriptor 1 points to /dev/null while the
/// macro code runs (restored on drop, also when unwinding).
struct SilencedStdout {
    saved: i32,
}

extern "C" {
    fn dup(fd: i32) -> i32;
    fn dup2(from: i32, to: i32) -> i32;
    fn close(fd: i32) -> i32;
}

impl SilencedStdout {
    fn new() -> Option<Self> {
        use std::io::Write;
        use std::os::fd::AsRawFd;
        // whatever std still holds of earlier answers belongs to the real stdout
        std::io::stdout().flush().ok()?;
        let null = std::fs::OpenOptions::new().write(true).open("/dev/null").ok()?;
        // SAFETY: plain POSIX calls on descriptors this process owns
        unsafe {
            let saved = dup(1);
            if saved < 0 || dup2(null.as_raw_fd(), 1) < 0 {
                return None;
            }
            Some(SilencedStdout { saved })
        }
    }
}

impl Drop for SilencedStdout {
    fn drop(&mut self) {
        use std::io::Write;
        let _ = std::io::stdout().flush();
        // SAFETY: see above
        unsafe {
            dup2(self.saved, 1);
            close(self.saved);
        }
    }
}

/// stage 2: what the attribute macro expands the item to (descriptor code only)
fn stage2(attr: &str, item: &str) -> Option<String> {
    let attr = attr.parse().ok()?;
    let item = item.parse().ok()?;
    let _quiet = SilencedStdout::new()?;
    let out = asn1rs::model::proc_macro::parse(attr, item);
    Some(out.to_string())
}

fn squeeze(s: &str) -> String {
    s.chars().filter(|c| !c.is_whitespace()).collect()
}

/// `Universal(1)` -> `U1`
fn short_tag(t: &str) -> Option<String> {
    let (cl, rest) = t.split_once('(')?;
    let num = rest.strip_suffix(')')?;
    let c = match cl {
        "Universal" => "U",
        "Application" => "A",
        "ContextSpecific" => "C",
        "Private" => "P",
        _ => return None,
    };
    Some(format!("{}{}", c, num))
}

fn camel(field: &str) -> String {
    asn1rs::model::generate::RustCodeGenerator::rust_variant_name(field)
}

/// `set!` / `seq!`: the same request answered by a child process, so that a stack overflow of the
/// real front end (it aborts the process, it does not unwind) becomes the answer `abort`
fn isolated(kind: &str, rest: &[&str]) -> Option<String> {
    use std::io::Write;
    use std::process::{Command, Stdio};
    let exe = std::env::current_exe().ok()?;
    let mut child = Command::new(exe)
        .stdin(Stdio::piped())
        .stdout(Stdio::piped())
        .stderr(Stdio::null())
        .spawn()
        .ok()?;
    let line = format!("tags {} {}\n", kind, rest.join(" "));
    child.stdin.take()?.write_all(line.as_bytes()).ok()?;
    let out = child.wait_with_output().ok()?;
    let text = String::from_utf8_lossy(&out.stdout);
    match text.lines().next() {
        Some(l) if out.status.success() => Some(l.to_string()),
        _ => Some("abort".to_string()),
    }
}

pub fn handle(args: &[&str]) -> Option<String> {
    let (kind, comps, defs) = match args {
        [k, c] => (*k, *c, "-"),
        [k, c, d] => (*k, *c, *d),
        _ => return None,
    };
    if let Some(k) = kind.strip_suffix('!') {
        if k != "set" && k != "seq" {
            return None;
        }
        return match isolated(k, &args[1..])?.as_str() {
            "bad-op" => None,
            a => Some(a.to_string()),
        };
    }
    let (text, names) = module_text(kind, comps, defs)?;
    let dump = std::env::var_os("TAGS_DUMP").is_some();
    if dump {
        eprintln!("---- module\n{}", text);
    }
    let src = match stage1(&text) {
        Ok(s) => s,
        Err(e) => return Some(format!("err {}", e)),
    };
    if dump {
        eprintln!("---- stage 1\n{}", src);
    }
    let single = analyse(&src, &names, dump)?;
    if defs != "-" && single.starts_with("ok ") {
        for order in [[0, 1, 2], [2, 1, 0], [1, 0, 2]] {
            let other = match stage1_imported(&text, defs, order) {
                Ok(src) => std::panic::catch_unwind(|| analyse(&src, &names, false))
                    .unwrap_or_else(|_| Some("panic".to_string()))
                    .unwrap_or_else(|| "unreadable".to_string()),
                Err(e) => format!("err {}", e),
            };
            if other != single {
                return Some(format!(
                    "imported-differs [{}] with the definitions imported from a sibling module (load order {:?} of decoy, lib, main) instead of [{}]",
                    other, order, single
                ));
            }
        }
    }
    Some(single)
}

/// order of the components and TAG constants of `Tst` in the stage-1 source
fn analyse(src: &str, names: &[String], dump: bool) -> Option<String> {
    let (attr, item) = find_item(src, "Tst")?;
    let out = stage2(&attr, &item)?;
    if dump {
        eprintln!("---- stage 2\n{}", out);
    }
    let flat = squeeze(&out);
    if flat.contains("compile_error!") {
        // the attribute macro rejects the stage-1 source: the user gets a compile error
        return Some("err other".to_string());
    }
    // order of the reads in read_seq and of the writes in write_seq
    let rs = flat.find("fnread_seq<")?;
    let ws = flat.find("fnwrite_seq<")?;
    let (read_part, write_part) = if rs < ws {
        (&flat[rs..ws], &flat[ws..])
    } else {
        (&flat[rs..], &flat[ws..rs])
    };
    let mut read_order: Vec<(usize, &String)> = Vec::new();
    let mut write_order: Vec<(usize, &String)> = Vec::new();
    for n in names {
        let r = format!("{}:AsnDefTstField{}::read_value(reader)?", n, camel(n));
        let w = format!("AsnDefTstField{}::write_value(writer,&self.{})?", camel(n), n);
        read_order.push((read_part.find(&r)?, n));
        write_order.push((write_part.find(&w)?, n));
    }
    read_order.sort();
    write_order.sort();
    let ro: Vec<&str> = read_order.iter().map(|(_, n)| n.as_str()).collect();
    let wo: Vec<&str> = write_order.iter().map(|(_, n)| n.as_str()).collect();
    if ro != wo {
        // never observed: reader and writer are generated from the same list
        return Some(format!("ok-but-read-write-differ {} {}", ro.join(","), wo.join(",")));
    }
    // TAG constant of every component, and of the type itself
    let tag_of = |constraint: &str| -> Option<String> {
        let key = format!(
            "impl::asn1rs::descriptor::common::Constraintfor{}{{constTAG:::asn1rs::model::asn::Tag=::asn1rs::model::asn::Tag::",
            constraint
        );
        let at = flat.find(&key)? + key.len();
        let end = flat[at..].find(';')? + at;
        short_tag(&flat[at..end])
    };
    let mut tags = Vec::new();
    for n in &ro {
        tags.push(tag_of(&format!("___asn1rs_TstField{}Constraint", camel(n)))?);
    }
    let own = tag_of("Tst")?;
    let key = "constEXTENDED_AFTER_FIELD:Option<u64>=";
    let at = flat.find(key)? + key.len();
    let end = flat[at..].find(';')? + at;
    let ext = match &flat[at..end] {
        "None" => "none".to_string(),
        s => s.strip_prefix("Some(")?.strip_suffix(')')?.to_string(),
    };
    let list = |v: &[&str]| if v.is_empty() { "-".to_string() } else { v.join(",") };
    let tl: Vec<&str> = tags.iter().map(|s| s.as_str()).collect();
    Some(format!("ok {} {} {} {}", list(&ro), list(&tl), ext, own))
}
