//! stream `uper` (L2): the real `UperWriter`/`UperReader` on the compiled zoo types
use crate::dynval::*;
use crate::per::{bits_to_string, string_to_bits};
use crate::util::per_err;
use crate::zoo::{with_type, Visitor, ZOO_TYPES};
use asn1rs::descriptor::{Readable, Writable};
use asn1rs::prelude::*;

/// the rest of a request line after the type name: a sequence of atoms / S-expressions
fn parse_args(rest: &[&str]) -> Option<Vec<Sx>> {
    parse_sx_all(&rest.join(" "))
}

fn atom(sx: &Sx) -> Option<&str> {
    match sx {
        Sx::Atom(a) => Some(a.as_str()),
        _ => None,
    }
}

fn encode<T: Writable>(v: &T) -> Result<(Vec<u8>, usize), String> {
    let mut w = UperWriter::default();
    match w.write(v) {
        Ok(()) => Ok((w.byte_content().to_vec(), w.bit_len())),
        Err(e) => Err(per_err(&e).to_string()),
    }
}

/// decodes one value; returns the value dump, the number of bits consumed and the remaining count
fn decode<T: Readable + Writable>(bytes: &[u8], bit_len: usize) -> Result<(String, usize, usize), String> {
    let mut r = UperReader::from((bytes, bit_len));
    match r.read::<T>() {
        Ok(v) => {
            let rem = r.bits_remaining();
            // the real cursor (the remaining-bit count saturates and would hide an over-read)
            let pos = r.into_bits().pos();
            let dump = to_val(&v).map(|x| x.to_sexpr()).unwrap_or_else(|e| format!("(dump-error {e})"));
            Ok((dump, pos, rem))
        }
        Err(e) => {
            // the accessor must stay callable after a failed read (C04)
            let _ = r.bits_remaining();
            Err(per_err(&e).to_string())
        }
    }
}

struct Op<'a> {
    op: &'a str,
    args: Vec<Sx>,
}

impl<'a> Visitor for Op<'a> {
    type Out = Option<String>;
    fn visit<T: Readable + Writable + std::fmt::Debug + PartialEq + Clone>(self) -> Option<String> {
        let a = &self.args;
        Some(match self.op {
            // descriptor as the codec sees it
            "desc" => match gen::<T>(1, GenMode::Valid, 3) {
                Ok((_, ty, _)) => format!("ok {ty}"),
                Err(e) => format!("err desc:{}", e.replace(' ', "_")),
            },
            // `desccheck <name> <Ty>`: the descriptor recomputed from the compiled type (the generated
            // constants) — the driver answers the same text only if the constants agree with the
            // component list
            "desccheck" => match gen::<T>(1, GenMode::Valid, 3) {
                Ok((_, ty, _)) => format!("ok {ty}"),
                Err(e) => format!("err desc:{}", e.replace(' ', "_")),
            },
            // random typed value: `gen <name> <seed> <valid|violate> <maxlist>`
            "gen" => {
                let seed: u64 = atom(a.first()?)?.parse().ok()?;
                let mode = match atom(a.get(1)?)? {
                    "valid" => GenMode::Valid,
                    "violate" => GenMode::Violate,
                    _ => return None,
                };
                let max_list: u64 = atom(a.get(2)?)?.parse().ok()?;
                match gen::<T>(seed, mode, max_list) {
                    Ok((v, ty, violated)) => match to_val(&v) {
                        Ok(val) => format!("ok {} {} {}", violated.unwrap_or_else(|| "-".into()), ty, val.to_sexpr()),
                        Err(e) => format!("err dump:{}", e.replace(' ', "_")),
                    },
                    Err(e) => format!("err gen:{}", e.replace(' ', "_")),
                }
            }
            // `enc <name> <Ty> <Val>` -> bits (`conf`: the same, the driver adds the X.691 bits)
            "enc" | "conf" => {
                let v: T = match from_val(val_of_sx(a.get(1)?)?) {
                    Ok(v) => v,
                    Err(_) => return None,
                };
                match encode(&v) {
                    Ok((bytes, n)) => format!("ok {}", bits_to_string(&bytes, n)),
                    Err(k) => format!("err {k}"),
                }
            }
            // `dec <name> <Ty> <bits>` -> value, consumed
            "dec" => {
                let (bytes, n) = string_to_bits(atom(a.get(1)?)?)?;
                let plain = match decode::<T>(&bytes, n) {
                    Ok((dump, consumed, _)) => format!("ok {dump} {consumed}"),
                    Err(k) => format!("err {k}"),
                };
                // the same declared bits inside a longer slice: one-bits behind the declared length
                // (rest of the last octet and two more octets).  The answer must not depend on them.
                let mut longer = bytes.clone();
                if n % 8 != 0 {
                    if let Some(last) = longer.last_mut() {
                        *last |= 0xFFu8 >> (n % 8);
                    }
                }
                longer.extend_from_slice(&[0xFF, 0xFF]);
                let padded = match decode::<T>(&longer, n) {
                    Ok((dump, consumed, _)) => format!("ok {dump} {consumed}"),
                    Err(k) => format!("err {k}"),
                };
                if plain == padded {
                    plain
                } else {
                    format!("beyond-differs [{plain}] [{padded}]")
                }
            }
            // `xdec <name> <Ty> <Val> <bits>`: decode the X.691 encoding of <Val> -> value, consumed
            "xdec" => {
                let (bytes, n) = string_to_bits(atom(a.get(2)?)?)?;
                match decode::<T>(&bytes, n) {
                    Ok((dump, consumed, _)) => format!("ok {dump} {consumed}"),
                    Err(k) => format!("err {k}"),
                }
            }
            // `rt <name> <Ty> <Val>` -> bits, decoded value, remaining bits
            "rt" => {
                let v: T = match from_val(val_of_sx(a.get(1)?)?) {
                    Ok(v) => v,
                    Err(_) => return None,
                };
                match encode(&v) {
                    Ok((bytes, n)) => match decode::<T>(&bytes, n) {
                        Ok((dump, _, rem)) => format!("ok {} {} {}", bits_to_string(&bytes, n), dump, rem),
                        Err(k) => format!("ok {} readerr:{k} -", bits_to_string(&bytes, n)),
                    },
                    Err(k) => format!("err {k}"),
                }
            }
            // long lists: `rtn <name> <Ty> <n> <seed>`: a value whose first list/string has n items
            _ => return None,
        })
    }
}

/// `many <name1> <Val1> <name2> <Val2> …` : several values back-to-back in one writer, read back
/// in the same order from one reader
struct ManyW<'a> {
    w: &'a mut UperWriter,
    val: Val,
}
impl<'a> Visitor for ManyW<'a> {
    type Out = Result<(), String>;
    fn visit<T: Readable + Writable + std::fmt::Debug + PartialEq + Clone>(self) -> Self::Out {
        let v: T = from_val(self.val).map_err(|_| "bad-op".to_string())?;
        self.w.write(&v).map_err(|e| per_err(&e).to_string())
    }
}
struct ManyR<'a, 'b> {
    r: &'a mut UperReader<Bits<'b>>,
}
impl<'a, 'b> Visitor for ManyR<'a, 'b> {
    type Out = Result<String, String>;
    fn visit<T: Readable + Writable + std::fmt::Debug + PartialEq + Clone>(self) -> Self::Out {
        match self.r.read::<T>() {
            Ok(v) => Ok(to_val(&v).map(|x| x.to_sexpr()).unwrap_or_else(|e| format!("(dump-error {e})"))),
            Err(e) => Err(per_err(&e).to_string()),
        }
    }
}

/// `cross <nameW> <TyW> <Val> <nameR> <TyR> <sentinel bits>`: encode under W, append the sentinel,
/// decode under R; answer: bits, value as R sees it, bits consumed by R
struct CrossR<'a> {
    bytes: &'a [u8],
    n: usize,
}
impl<'a> Visitor for CrossR<'a> {
    type Out = String;
    fn visit<T: Readable + Writable + std::fmt::Debug + PartialEq + Clone>(self) -> String {
        match decode::<T>(self.bytes, self.n) {
            Ok((dump, consumed, _)) => format!("{dump} {consumed}"),
            Err(k) => format!("readerr:{k} -"),
        }
    }
}
struct CrossW {
    val: Val,
}
impl Visitor for CrossW {
    type Out = Option<Result<(Vec<u8>, usize), String>>;
    fn visit<T: Readable + Writable + std::fmt::Debug + PartialEq + Clone>(self) -> Self::Out {
        let v: T = from_val(self.val).ok()?;
        Some(encode(&v))
    }
}

pub fn handle(args: &[&str]) -> Option<String> {
    match args {
        ["list"] => Some(format!("ok {}", ZOO_TYPES.join(","))),
        // `variants <name> <expected>`: the variant identifiers of a generated enum in the order of the generated text
        ["variants", name, _expected] => Some(
            match crate::zoo::ZOO_ENUM_VARIANTS.iter().find(|(n, _)| n == name) {
                Some((_, v)) => format!("ok {}", v),
                None => "err no-enum".to_string(),
            },
        ),
        // `charset <utf8|ia5|num|print|vis> <lo> <hi>`: validity of every code point lo..hi (exclusive)
        // according to `Charset::is_valid`, as a 0/1 string (surrogates count as invalid scalar values: `x`)
        ["charset", cs, lo, hi] => {
            use asn1rs::model::asn::Charset;
            let cs = match *cs {
                "utf8" => Charset::Utf8,
                "ia5" => Charset::Ia5,
                "num" => Charset::Numeric,
                "print" => Charset::Printable,
                "vis" => Charset::Visible,
                _ => return None,
            };
            let (lo, hi): (u32, u32) = (lo.parse().ok()?, hi.parse().ok()?);
            let mut s = String::with_capacity((hi - lo) as usize);
            for cp in lo..hi {
                s.push(match char::from_u32(cp) {
                    None => 'x',
                    Some(c) => {
                        if cs.is_valid(c) {
                            '1'
                        } else {
                            '0'
                        }
                    }
                });
            }
            Some(format!("ok {s}"))
        }
        ["many", rest @ ..] => {
            let sx = parse_args(rest)?;
            if sx.len() % 3 != 0 || sx.is_empty() {
                return None;
            }
            let mut w = UperWriter::default();
            let mut names = Vec::new();
            for ch in sx.chunks(3) {
                let name = atom(&ch[0])?.to_string();
                let val = val_of_sx(&ch[2])?;
                match with_type(&name, ManyW { w: &mut w, val })? {
                    Ok(()) => {}
                    Err(k) if k == "bad-op" => return None,
                    Err(k) => return Some(format!("err {k}")),
                }
                names.push(name);
            }
            let bytes = w.byte_content().to_vec();
            let n = w.bit_len();
            let mut r = UperReader::from((&bytes[..], n));
            let mut out = vec![format!("ok {}", bits_to_string(&bytes, n))];
            for name in &names {
                match with_type(name, ManyR { r: &mut r })? {
                    Ok(d) => out.push(d),
                    Err(k) => {
                        out.push(format!("readerr:{k}"));
                        break;
                    }
                }
            }
            out.push(r.bits_remaining().to_string());
            Some(out.join(" "))
        }
        ["cross", rest @ ..] => {
            let sx = parse_args(rest)?;
            if sx.len() != 6 {
                return None;
            }
            let name_w = atom(&sx[0])?;
            let val = val_of_sx(&sx[2])?;
            let name_r = atom(&sx[3])?;
            let (sb, sn) = string_to_bits(atom(&sx[5])?)?;
            match with_type(name_w, CrossW { val })?? {
                Err(k) => Some(format!("err {k}")),
                Ok((bytes, n)) => {
                    // append the sentinel bits
                    let mut all = bits_to_string(&bytes, n);
                    if all == "-" {
                        all.clear();
                    }
                    let s = bits_to_string(&sb, sn);
                    if s != "-" {
                        all.push_str(&s);
                    }
                    let (ab, an) = string_to_bits(if all.is_empty() { "-" } else { &all })?;
                    let r = with_type(name_r, CrossR { bytes: &ab, n: an })?;
                    Some(format!("ok {} {}", bits_to_string(&bytes, n), r))
                }
            }
        }
        [op, name, rest @ ..] => {
            let sx = parse_args(rest)?;
            with_type(name, Op { op, args: sx })?
        }
        _ => None,
    }
}
