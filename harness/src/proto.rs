//! stream `proto` (C17, C18, protobuf part of C04): the real `ProtobufWriter` / `ProtobufReader` on the
//! compiled zoo types, both writer back ends (growable `Vec`, fixed `&mut [u8]`), and the generated
//! `.proto` files.
//!
//!   proto enc <name> <Ty> <Val>   -> ok <hex> slice:<hex|err:class> short:<err:class|ok:hex|->
//!   proto rt  <name> <Ty> <Val>   -> ok <hex> <Val'|readerr:class|readpanic> peq:<0|1|->
//!   proto dec <name> <Ty> <hex>   -> ok <Val> | err <class> | panic      (hostile input)
//!   proto schema <name>           -> ok <package> <message> <hex of the definition text> | err no-schema
//!   proto wire <name> [<Ty>]      -> ok msg 1:uint32,2:rep.msg,… | ok oneof 1:… | ok enum <n>   (numbers and
//!                                    declared types read off the generated definition)
//!   proto files                   -> ok <path>,<path>,…                  (generated .proto files)
//!   proto sets                    -> ok <module>::<Type>,…               (generated types carrying `#[asn(set…)]`)
//!   proto peq x <Ty> <Val> <Val>  -> ok <0|1> | err unsupported          (the crate's `ProtobufEq` impls)
//!   proto package <hex raw module name> <oid|->
//!                                 -> ok <hex package> <hex file name>    (the pipeline of `Converter::to_protobuf`:
//!                                    `make_names_nice`, `to_rust()`, `to_protobuf()`, `generate_file`; the package is
//!                                    `model_to_package(&model.name, model.oid.as_ref())` and must be the one of the
//!                                    header line of the generated file)
//!   proto package-fn <hex path> <oid|->
//!                                 -> ok <hex package> <hex file name>    (`model_to_package(path, oid)` and
//!                                    `model_file_name(path)` on the argument as it is)
//!   proto istoken <hex text>      -> ok <0|1>      (does `Tokenizer::parse` deliver exactly one `Token::Text` with this text?)
//!                                    oid: `empty` | components joined by `,`: `n:<hex name>` NameForm,
//!                                    `nn:<hex name>:<u64>` NameAndNumberForm, `u:<u64>` NumberForm
//!
//! A reader that never returns (SEQUENCE OF directly inside SEQUENCE OF, see the findings) is cut
//! off by an address-space limit set on the first `proto` request: the process dies with an
//! allocation failure and the runner records `abort` for that request.
use crate::dynval::*;
use crate::util::{hex, unhex};
use crate::zoo::{with_type, Visitor, ZOO_PROTO_FILES};
use asn1rs::descriptor::{Readable, Writable};
use asn1rs::prelude::*;
use asn1rs::protocol::protobuf::Error as PErr;
use std::panic::{catch_unwind, AssertUnwindSafe};
use std::sync::Once;

/// error class of a protobuf error; must match `ErrKind.toString` on the Lean side
pub fn proto_err(e: &PErr) -> &'static str {
    match e {
        PErr::Io(_, ioe) => match ioe.kind() {
            std::io::ErrorKind::UnexpectedEof => "eos",
            std::io::ErrorKind::WriteZero => "nospace",
            _ => "other",
        },
        PErr::InvalidUtf8Received => "utf8",
        PErr::MissingRequiredField(_) => "other",
        PErr::InvalidTagReceived(..) => "other",
        PErr::InvalidFormat(..) => "unsupported",
        PErr::InvalidVariant(..) => "choice-index",
        PErr::UnexpectedFormat(..) => "other",
        PErr::UnexpectedTag(..) => "choice-index",
    }
}

#[repr(C)]
struct RLimit {
    cur: u64,
    max: u64,
}
extern "C" {
    fn setrlimit(resource: i32, rlim: *const RLimit) -> i32;
}
static LIMIT: Once = Once::new();

/// RLIMIT_AS (Linux: 9): a diverging reader dies by allocation failure within a second or two
fn limit_memory() {
    LIMIT.call_once(|| {
        let mib: u64 = std::env::var("VERIF_PROTO_AS_MIB").ok().and_then(|s| s.parse().ok()).unwrap_or(160);
        let l = RLimit { cur: mib << 20, max: mib << 20 };
        unsafe {
            setrlimit(9, &l);
        }
    });
}

/// `Val` text; a BIT STRING whose bit length exceeds its octets (the protobuf reader does not
/// check) is rendered as `(seq (oct <octets>) (int <bit length>))`
fn render(v: &Val) -> String {
    match v {
        Val::Bits(b, n) if *n > (b.len() as u64) * 8 => format!("(seq (oct {}) (int {}))", hex(b), n),
        Val::List(vs) => format!("(list{})", vs.iter().map(|x| format!(" {}", render(x))).collect::<String>()),
        Val::Seq(vs) => format!("(seq{})", vs.iter().map(|x| format!(" {}", render(x))).collect::<String>()),
        Val::Choice(i, x) => format!("(choice {} {})", i, render(x)),
        Val::Some(x) => format!("(some {})", render(x)),
        other => other.to_sexpr(),
    }
}

fn dump<T: Writable>(v: &T) -> String {
    to_val(v).map(|x| render(&x)).unwrap_or_else(|e| format!("(dump-error {})", e.replace(' ', "_")))
}

fn enc_vec<T: Writable>(v: &T) -> Result<Vec<u8>, &'static str> {
    let mut w = ProtobufWriter::default();
    match w.write(v) {
        Ok(()) => Ok(w.into_bytes_vec()),
        Err(e) => Err(proto_err(&e)),
    }
}

/// the same value written twice with ONE writer: what the second write appends
fn enc_reused<T: Writable>(v: &T) -> Result<Vec<u8>, &'static str> {
    let mut w = ProtobufWriter::default();
    w.write(v).map_err(|e| proto_err(&e))?;
    let first = w.len_written();
    w.write(v).map_err(|e| proto_err(&e))?;
    Ok(w.as_bytes()[first..].to_vec())
}

fn enc_slice<T: Writable>(v: &T, cap: usize) -> Result<Vec<u8>, &'static str> {
    // canary bytes behind the slice handed to the writer
    let mut buf = vec![0xA5u8; cap + 4];
    let res = {
        let mut w = ProtobufWriter::from(&mut buf[..cap]);
        match w.write(v) {
            Ok(()) => {
                let n = w.len_written();
                let a = w.as_bytes().to_vec();
                let b = w.into_bytes_vec();
                if a != b || n != a.len() {
                    return Err("accessors-disagree");
                }
                Ok(a)
            }
            Err(e) => Err(proto_err(&e)),
        }
    };
    if buf[cap..] != [0xA5u8; 4] {
        return Err("wrote-behind-slice");
    }
    res
}

fn dec<T: Readable + Writable>(bytes: &[u8]) -> Result<String, &'static str> {
    let mut r = ProtobufReader::from(bytes);
    match r.read::<T>() {
        Ok(v) => Ok(dump(&v)),
        Err(e) => Err(proto_err(&e)),
    }
}

struct Op<'a> {
    op: &'a str,
    args: Vec<Sx>,
}

fn atom(sx: &Sx) -> Option<&str> {
    match sx {
        Sx::Atom(a) => Some(a.as_str()),
        _ => None,
    }
}

impl<'a> Visitor for Op<'a> {
    type Out = Option<String>;
    fn visit<T: Readable + Writable + std::fmt::Debug + PartialEq + Clone>(self) -> Option<String> {
        let a = &self.args;
        Some(match self.op {
            "enc" => {
                let v: T = from_val(val_of_sx(a.get(1)?)?).ok()?;
                match enc_vec(&v) {
                    Err(k) => format!("err {k}"),
                    Ok(bytes) => {
                        let exact = match enc_slice(&v, bytes.len()) {
                            Ok(b) => hex(&b),
                            Err(k) => format!("err:{k}"),
                        };
                        let short = if bytes.is_empty() {
                            "-".to_string()
                        } else {
                            match enc_slice(&v, bytes.len() - 1) {
                                Ok(b) => format!("ok:{}", hex(&b)),
                                Err(k) => format!("err:{k}"),
                            }
                        };
                        // a writer that has already written a value appends the same octets for the next
                        let reuse = match enc_reused(&v) {
                            Ok(second) if second == bytes => 1,
                            _ => 0,
                        };
                        format!("ok {} slice:{} short:{} reuse:{}", hex(&bytes), exact, short, reuse)
                    }
                }
            }
            "rt" => {
                let v: T = from_val(val_of_sx(a.get(1)?)?).ok()?;
                match enc_vec(&v) {
                    Err(k) => format!("err {k}"),
                    Ok(bytes) => {
                        let back = catch_unwind(AssertUnwindSafe(|| {
                            let mut r = ProtobufReader::from(&bytes[..]);
                            r.read::<T>().map_err(|e| proto_err(&e))
                        }));
                        match back {
                            Err(_) => format!("ok {} readpanic", hex(&bytes)),
                            Ok(Err(k)) => format!("ok {} readerr:{k}", hex(&bytes)),
                            // equality of the VALUES (their dumps): the derived `PartialEq` of `BitVec` also
                            // compares octets of the buffer behind the bit length, which are no part of the value
                            Ok(Ok(v2)) => format!("ok {} {} eq:{}", hex(&bytes), dump(&v2), if dump(&v2) == dump(&v) { 1 } else { 0 }),
                        }
                    }
                }
            }
            "dec" => {
                let bytes = unhex(atom(a.get(1)?)?)?;
                match dec::<T>(&bytes) {
                    Ok(d) => format!("ok {d}"),
                    Err(k) => format!("err {k}"),
                }
            }
            _ => return None,
        })
    }
}

/// the text of `message <Name> { … }` / `enum <Name> { … }` in the generated files
fn schema_of(name: &str) -> Option<(String, String, String)> {
    let (module, ty) = name.split_once("::")?;
    let want_file = format!("{module}.proto");
    let path = ZOO_PROTO_FILES.iter().find(|p| p.ends_with(&format!("/{want_file}")))?;
    let text = std::fs::read_to_string(path).ok()?;
    let package = text.lines().find_map(|l| l.strip_prefix("package ").map(|r| r.trim_end_matches(';').trim().to_string()))?;
    // the generator names the definition with `rust_struct_or_enum_name`, which is what the Rust type is called
    let mut out = String::new();
    let mut inside = false;
    for line in text.lines() {
        if !inside && (line == format!("message {ty} {{") || line == format!("enum {ty} {{")) {
            inside = true;
        }
        if inside {
            out.push_str(line);
            out.push('\n');
            if line == "}" {
                return Some((package, ty.to_string(), out));
            }
        }
    }
    None
}

// ------------------------------------------------------------------------------------ ProtobufEq
// The generated types do not implement `ProtobufEq` (the generator does not emit the derive, and
// `Null` has no implementation).  `crate_peq` evaluates the relation on a `Val` pair with the
// crate's own implementations wherever one exists — the leaf types, `Vec<T>` and, above all,
// `Option<T>` (absent vs. `T::default()`) — and follows `#[derive(ProtobufEq)]`
// (asn1rs-macros/src/derive_protobuf_eq.rs: conjunction over the fields, same variant for enums)
// for SEQUENCE / CHOICE / ENUMERATED.  `None` = a shape without a crate implementation to call
// (an OPTIONAL SEQUENCE / CHOICE / ENUMERATED / NULL).

fn field_parts(f: &Sx) -> Option<(&str, &Sx)> {
    match f {
        Sx::List(l) => match (l.first()?, l.last()?) {
            (Sx::Atom(k), t) => Some((k.as_str(), t)),
            _ => None,
        },
        _ => None,
    }
}

fn head(ty: &Sx) -> Option<(&str, &[Sx])> {
    match ty {
        Sx::List(l) => match l.first()? {
            Sx::Atom(a) => Some((a.as_str(), &l[1..])),
            _ => None,
        },
        _ => None,
    }
}

fn bitvec_of(b: &[u8], n: u64) -> BitVec {
    BitVec::from_bytes(b.to_vec(), n)
}

/// `Option<T>` for the Rust types a leaf / list-of-leaf component has
/// a hand-written copy of what the generator emits for
/// `SEQUENCE { n INTEGER (..) OPTIONAL, l SEQUENCE OF INTEGER (..) OPTIONAL }`, with the derive the crate offers:
/// `Option<PeqInner>` is the one place where `protobuf_eq` of two PRESENT values differs from `==`
#[derive(ProtobufEq, PartialEq, Default, Debug, Clone)]
struct PeqInner {
    n: Option<u64>,
    l: Option<Vec<u64>>,
}

fn peq_inner_of(ty: &Sx, v: &Val) -> Option<PeqInner> {
    let (h, args) = head(ty)?;
    let fields = args.get(3..)?;
    if h != "seq" || fields.len() != 2 {
        return None;
    }
    let (k0, t0) = field_parts(&fields[0])?;
    let (k1, t1) = field_parts(&fields[1])?;
    let elem_int = match head(t1)? {
        ("seqof", a) => head(a.get(3)?)?.0 == "int",
        _ => false,
    };
    if k0 != "o" || k1 != "o" || head(t0)?.0 != "int" || !elem_int {
        return None;
    }
    let xs = match v {
        Val::Seq(xs) if xs.len() == 2 => xs,
        _ => return None,
    };
    let n = match &xs[0] {
        Val::None => None,
        Val::Some(b) => match &**b {
            Val::Int(i) if *i >= 0 => Some(*i as u64),
            _ => return None,
        },
        _ => return None,
    };
    let l = match &xs[1] {
        Val::None => None,
        Val::Some(b) => match &**b {
            Val::List(items) => Some(
                items
                    .iter()
                    .map(|x| if let Val::Int(i) = x { if *i >= 0 { Some(*i as u64) } else { None } } else { None })
                    .collect::<Option<Vec<u64>>>()?,
            ),
            _ => return None,
        },
        _ => return None,
    };
    Some(PeqInner { n, l })
}

fn opt_peq(ty: &Sx, a: Option<&Val>, b: Option<&Val>) -> Option<bool> {
    let (h, args) = head(ty)?;
    if h == "seq" {
        let x = match a { Some(v) => Some(peq_inner_of(ty, v)?), None => None };
        let y = match b { Some(v) => Some(peq_inner_of(ty, v)?), None => None };
        return Some(ProtobufEq::protobuf_eq(&x, &y));
    }
    macro_rules! go {
        ($conv:expr) => {{
            let x = match a { Some(v) => Some($conv(v)?), None => None };
            let y = match b { Some(v) => Some($conv(v)?), None => None };
            Some(ProtobufEq::protobuf_eq(&x, &y))
        }};
    }
    match h {
        "bool" => go!(|v: &Val| if let Val::Bool(x) = v { Some(*x) } else { None }),
        "int" => go!(|v: &Val| if let Val::Int(x) = v { Some(*x) } else { None }),
        "str" => go!(|v: &Val| if let Val::Str(x) = v { Some(x.clone()) } else { None }),
        "oct" => go!(|v: &Val| if let Val::Oct(x) = v { Some(x.clone()) } else { None }),
        "bits" => go!(|v: &Val| if let Val::Bits(x, n) = v { Some(bitvec_of(x, *n)) } else { None }),
        "seqof" => {
            let (eh, _) = head(args.get(3)?)?;
            macro_rules! lst {
                ($conv:expr) => {
                    go!(|v: &Val| if let Val::List(xs) = v { xs.iter().map($conv).collect::<Option<Vec<_>>>() } else { None })
                };
            }
            match eh {
                "bool" => lst!(|v: &Val| if let Val::Bool(x) = v { Some(*x) } else { None }),
                "int" => lst!(|v: &Val| if let Val::Int(x) = v { Some(*x) } else { None }),
                "str" => lst!(|v: &Val| if let Val::Str(x) = v { Some(x.clone()) } else { None }),
                "oct" => lst!(|v: &Val| if let Val::Oct(x) = v { Some(x.clone()) } else { None }),
                _ => None,
            }
        }
        _ => None,
    }
}

fn crate_peq(ty: &Sx, a: &Val, b: &Val) -> Option<bool> {
    let (h, args) = head(ty)?;
    match (h, a, b) {
        ("bool", Val::Bool(x), Val::Bool(y)) => Some(x.protobuf_eq(y)),
        ("int", Val::Int(x), Val::Int(y)) => Some(x.protobuf_eq(y)),
        ("str", Val::Str(x), Val::Str(y)) => Some(x.protobuf_eq(y)),
        ("oct", Val::Oct(x), Val::Oct(y)) => Some(x.protobuf_eq(y)),
        ("bits", Val::Bits(x, n), Val::Bits(y, m)) => Some(bitvec_of(x, *n).protobuf_eq(&bitvec_of(y, *m))),
        // derive on a plain enum: `matches!(other, Self::X)`
        ("enum", Val::Enum(x), Val::Enum(y)) => Some(x == y),
        ("null", Val::Null, Val::Null) => Some(true),
        ("seqof", Val::List(xs), Val::List(ys)) => {
            // `impl ProtobufEq for Vec<T>`: equal length, element-wise
            if xs.len() != ys.len() {
                return Some(false);
            }
            let elem = args.get(3)?;
            let mut all = true;
            for (x, y) in xs.iter().zip(ys) {
                all &= crate_peq(elem, x, y)?;
            }
            Some(all)
        }
        ("seq", Val::Seq(xs), Val::Seq(ys)) => {
            let fields = &args[3..];
            if fields.len() != xs.len() || fields.len() != ys.len() {
                return None;
            }
            let mut all = true;
            for ((f, x), y) in fields.iter().zip(xs).zip(ys) {
                let (k, t) = field_parts(f)?;
                all &= if k == "o" {
                    let ox = match x { Val::None => None, Val::Some(v) => Some(&**v), _ => return None };
                    let oy = match y { Val::None => None, Val::Some(v) => Some(&**v), _ => return None };
                    opt_peq(t, ox, oy)?
                } else {
                    crate_peq(t, x, y)?
                };
            }
            Some(all)
        }
        ("choice", Val::Choice(i, x), Val::Choice(j, y)) => {
            if i != j {
                return Some(false);
            }
            crate_peq(args.get(3 + *i as usize)?, x, y)
        }
        _ => None,
    }
}

/// is `name` (possibly package-qualified) defined as a message or as an enum in the generated files
fn kind_of(name: &str) -> Option<&'static str> {
    let base = name.rsplit('.').next()?;
    for p in ZOO_PROTO_FILES {
        let text = std::fs::read_to_string(p).ok()?;
        for line in text.lines() {
            if line == format!("message {base} {{") {
                return Some("msg");
            }
            if line == format!("enum {base} {{") {
                return Some("enum");
            }
        }
    }
    None
}

/// `wire <name>`: numbers and declared types read off the generated definition text
///   message: `msg 1:uint32,2:rep.msg,…`   CHOICE: `oneof 1:…`   enum: `enum <count>`
fn wire_of(name: &str) -> Option<String> {
    let (_, _, text) = schema_of(name)?;
    let mut lines = text.lines();
    let head = lines.next()?;
    if head.starts_with("enum ") {
        let mut n = 0usize;
        for l in lines {
            let l = l.trim();
            if l == "}" {
                break;
            }
            let (_, num) = l.trim_end_matches(';').split_once('=')?;
            if num.trim().parse::<usize>().ok()? != n {
                return Some("enum-misnumbered".into());
            }
            n += 1;
        }
        return Some(format!("enum {n}"));
    }
    let mut rows = Vec::new();
    let mut oneof = false;
    for l in lines {
        let l = l.trim();
        if l.starts_with("oneof ") {
            oneof = true;
            continue;
        }
        if l == "}" || l == "};" {
            continue;
        }
        let (decl, num) = l.trim_end_matches(';').split_once('=')?;
        let mut toks: Vec<&str> = decl.split_whitespace().collect();
        toks.pop()?; // field name
        let ty = toks.pop()?;
        let base = match ty {
            "bool" | "uint32" | "uint64" | "sint32" | "sint64" | "string" | "bytes" | "sfixed32" | "sfixed64" => ty.to_string(),
            other => kind_of(other).unwrap_or("undefined").to_string(),
        };
        let reps = toks.iter().filter(|t| **t == "repeated").count();
        rows.push(format!("{}:{}{}", num.trim(), "rep.".repeat(reps), base));
    }
    let body = if rows.is_empty() { "-".to_string() } else { rows.join(",") };
    Some(format!("{} {}", if oneof { "oneof" } else { "msg" }, body))
}

/// generated structs that are SETs: `#[asn(set` in front of `pub struct Name` in the generated Rust
fn set_types() -> Vec<String> {
    let mut out = Vec::new();
    for p in ZOO_PROTO_FILES {
        let rs = p.trim_end_matches(".proto").to_string() + ".rs";
        let module = rs.rsplit('/').next().unwrap_or("").trim_end_matches(".rs").to_string();
        let Ok(text) = std::fs::read_to_string(&rs) else { continue };
        let mut pending = false;
        for line in text.lines() {
            let l = line.trim_start();
            if l.starts_with("#[asn(set") && !l.starts_with("#[asn(set_of") {
                pending = true;
            } else if let Some(rest) = l.strip_prefix("pub struct ") {
                if pending {
                    let name: String = rest.chars().take_while(|c| c.is_alphanumeric() || *c == '_').collect();
                    out.push(format!("{module}::{name}"));
                }
                pending = false;
            } else if l.starts_with("pub enum ") {
                pending = false;
            }
        }
    }
    out
}

fn gen_files(texts: &str) -> Option<String> {
    use asn1rs_model::asn::MultiModuleResolver;
    use asn1rs_model::generate::protobuf::ProtobufDefGenerator;
    use asn1rs_model::protobuf::ToProtobufModel;
    let mut resolver = MultiModuleResolver::default();
    for (i, h) in texts.split(',').enumerate() {
        let text = crate::parse::text_of(h)?;
        match crate::parse::parse_text(&text) {
            Ok(m) => resolver.push(m),
            Err(e) => return Some(format!("err parse:{}:{}", i, crate::parse::parse_err_class(&e))),
        }
    }
    let models = match resolver.try_resolve_all() {
        Ok(m) => m,
        Err(e) => return Some(format!("err resolve:{}", crate::parse::resolve_err_class(&e))),
    };
    let scope = models.iter().collect::<Vec<_>>();
    let mut out = String::from("ok");
    for model in &models {
        let pm = match catch_unwind(AssertUnwindSafe(|| model.to_rust_with_scope(&scope[..]).to_protobuf())) {
            Ok(pm) => pm,
            Err(_) => return Some("err convert-panic".to_string()),
        };
        match ProtobufDefGenerator::generate_file(&pm) {
            Ok((file, content)) => {
                out.push(' ');
                out.push_str(&hex(file.as_bytes()));
                out.push(':');
                out.push_str(&hex(content.as_bytes()));
            }
            Err(_) => return Some("err generate".to_string()),
        }
    }
    Some(out)
}

/// `-` = no object identifier, `empty` = `{ }`, else `n:<hex>` / `nn:<hex>:<u64>` / `u:<u64>` joined by `,`
fn oid_of_token(token: &str) -> Option<Option<asn1rs_model::asn::ObjectIdentifier>> {
    use asn1rs_model::asn::{ObjectIdentifier, ObjectIdentifierComponent as C};
    if token == "-" {
        return Some(None);
    }
    if token == "empty" {
        return Some(Some(ObjectIdentifier(Vec::new())));
    }
    let mut v = Vec::new();
    for part in token.split(',') {
        let f = part.split(':').collect::<Vec<_>>();
        v.push(match f[..] {
            ["n", h] => C::NameForm(String::from_utf8(unhex(h)?).ok()?),
            ["nn", h, k] => C::NameAndNumberForm(String::from_utf8(unhex(h)?).ok()?, k.parse().ok()?),
            ["u", k] => C::NumberForm(k.parse().ok()?),
            _ => return None,
        });
    }
    Some(Some(ObjectIdentifier(v)))
}

fn package_answer(package: &str, file: &str) -> String {
    format!("ok {} {}", hex(package.as_bytes()), hex(file.as_bytes()))
}

/// the functions themselves
fn package_fn(path: &str, oid: &str) -> Option<String> {
    use asn1rs_model::generate::protobuf::ProtobufDefGenerator as G;
    let path = String::from_utf8(unhex(path)?).ok()?;
    let oid = oid_of_token(oid)?;
    Some(package_answer(&G::model_to_package(&path, oid.as_ref()), &G::model_file_name(&path)))
}

/// what `Converter::to_protobuf` does with a module of that name (no definitions)
fn package_pipeline(raw: &str, oid: &str) -> Option<String> {
    use asn1rs_model::asn::Asn;
    use asn1rs_model::generate::protobuf::ProtobufDefGenerator as G;
    use asn1rs_model::protobuf::ToProtobufModel;
    use asn1rs_model::resolve::Resolved;
    use asn1rs_model::Model;
    let mut model = Model::<Asn<Resolved>>::default();
    model.name = String::from_utf8(unhex(raw)?).ok()?;
    model.oid = oid_of_token(oid)?;
    model.make_names_nice();
    let pm = model.to_rust().to_protobuf();
    let package = G::model_to_package(&pm.name, pm.oid.as_ref());
    let (file, content) = match G::generate_file(&pm) {
        Ok(fc) => fc,
        Err(_) => return Some("err generate".to_string()),
    };
    if content.lines().nth(1) != Some(&format!("package {};", package)[..]) {
        return Some("err header-mismatch".to_string());
    }
    Some(package_answer(&package, &file))
}

/// is the text one `Token::Text` for the real tokenizer?  (an unclosed `/*` makes it panic: not a token)
fn is_token(text: &str) -> Option<String> {
    use asn1rs_model::parse::{Token, Tokenizer};
    let text = String::from_utf8(unhex(text)?).ok()?;
    let tokens = match catch_unwind(AssertUnwindSafe(|| Tokenizer::default().parse(&text))) {
        Ok(t) => t,
        Err(_) => return Some("ok 0".to_string()),
    };
    let one = matches!(&tokens[..], [Token::Text(_, t)] if *t == text);
    Some(format!("ok {}", if one { 1 } else { 0 }))
}

pub fn handle(args: &[&str]) -> Option<String> {
    limit_memory();
    match args {
        ["istoken", text] => is_token(text),
        ["package", raw, oid] => package_pipeline(raw, oid),
        ["package-fn", path, oid] => package_fn(path, oid),
        ["sets"] => Some(format!("ok {}", set_types().join(","))),
        ["peq", _, rest @ ..] => {
            let sx = parse_sx_all(&rest.join(" "))?;
            if sx.len() != 3 {
                return None;
            }
            let (a, b) = (val_of_sx(&sx[1])?, val_of_sx(&sx[2])?);
            Some(match crate_peq(&sx[0], &a, &b) {
                Some(r) => format!("ok {}", if r { 1 } else { 0 }),
                None => "err unsupported".to_string(),
            })
        }
        ["wire", name, ..] => Some(match wire_of(name) {
            Some(t) => format!("ok {t}"),
            None => "err no-schema".to_string(),
        }),
        ["files"] => Some(format!("ok {}", ZOO_PROTO_FILES.join(","))),
        // `gen <hex text>[,<hex text>..]`: the .proto files the real generator writes for these modules
        // (parse, resolve all, to_rust_with_scope, to_protobuf, ProtobufDefGenerator::generate_file)
        ["gen", texts] => Some(gen_files(texts)?),
        ["schema", name] => Some(match schema_of(name) {
            Some((p, m, t)) => format!("ok {} {} {}", p, m, hex(t.as_bytes())),
            None => "err no-schema".to_string(),
        }),
        [op, name, rest @ ..] => {
            let sx = parse_sx_all(&rest.join(" "))?;
            with_type(name, Op { op, args: sx })?
        }
        _ => None,
    }
}
