//! stream `bits` (L0): slice.rs / buffer.rs through their public traits
use crate::util::*;
use asn1rs::protocol::per::unaligned::buffer::{BitBuffer, Bits};
use asn1rs::protocol::per::unaligned::{BitRead, BitWrite, ScopedBitRead};
use asn1rs::protocol::per::Error;

fn res_pair(r: Result<(), Error>, bytes: &[u8], pos: usize) -> String {
    match r {
        Ok(()) => format!("ok {} {}", hex(bytes), pos),
        Err(e) => format!("err {}", per_err(&e)),
    }
}

fn buf_op(b: &mut BitBuffer, tok: &str) -> Option<Result<String, Error>> {
    let p: Vec<&str> = tok.split(':').collect();
    Some(match p.as_slice() {
        ["wb", x] => b.write_bit(pbool(x)?).map(|_| "ok".to_string()),
        ["w", h, off, len] => b
            .write_bits_with_offset_len(&unhex(h)?, off.parse().ok()?, len.parse().ok()?)
            .map(|_| "ok".to_string()),
        ["wo", h, off] => b
            .write_bits_with_offset(&unhex(h)?, off.parse().ok()?)
            .map(|_| "ok".to_string()),
        ["wl", h, len] => b
            .write_bits_with_len(&unhex(h)?, len.parse().ok()?)
            .map(|_| "ok".to_string()),
        ["ww", h] => b.write_bits(&unhex(h)?).map(|_| "ok".to_string()),
        ["patch", pos, x] => {
            let x = pbool(x)?;
            b.with_write_position_at(pos.parse().ok()?, |b| b.write_bit(x))
                .map(|_| "ok".to_string())
        }
        // the buffer is replaced by one over the given octets (which may be more than the bits need)
        ["init", h, len] => {
            let bytes = unhex(h)?;
            let len: usize = len.parse().ok()?;
            if len > bytes.len() * 8 {
                return None;
            }
            *b = BitBuffer::from_bits(bytes, len);
            Ok("ok".to_string())
        }
        // any write placed at a position: `at:<pos>:<write op>`
        ["at", pos, rest @ ..] if matches!(rest.first(), Some(&"wb" | &"w" | &"wo" | &"wl" | &"ww")) => {
            let pos: usize = pos.parse().ok()?;
            let inner = rest.join(":");
            // parse once outside of the closure (`Fn`): an unparsable operation is no request at all
            buf_op(&mut BitBuffer::default(), &inner)?.ok();
            b.with_write_position_at(pos, |b| buf_op(b, &inner).expect("parsed before"))
        }
        ["rb"] => b.read_bit().map(|x| b01(x).to_string()),
        ["r", n, off, len] => {
            let mut d = vec![0u8; n.parse().ok()?];
            b.read_bits_with_offset_len(&mut d, off.parse().ok()?, len.parse().ok()?)
                .map(|_| hex(&d))
        }
        ["ro", n, off] => {
            let mut d = vec![0u8; n.parse().ok()?];
            b.read_bits_with_offset(&mut d, off.parse().ok()?)
                .map(|_| hex(&d))
        }
        ["rl", n, len] => {
            let mut d = vec![0u8; n.parse().ok()?];
            b.read_bits_with_len(&mut d, len.parse().ok()?)
                .map(|_| hex(&d))
        }
        ["rr", n] => {
            let mut d = vec![0u8; n.parse().ok()?];
            b.read_bits(&mut d).map(|_| hex(&d))
        }
        _ => return None,
    })
}

fn view_op(b: &mut Bits<'_>, tok: &str) -> Option<Result<String, Error>> {
    let p: Vec<&str> = tok.split(':').collect();
    Some(match p.as_slice() {
        ["rb"] => b.read_bit().map(|x| b01(x).to_string()),
        ["r", n, off, len] => {
            let mut d = vec![0u8; n.parse().ok()?];
            b.read_bits_with_offset_len(&mut d, off.parse().ok()?, len.parse().ok()?)
                .map(|_| hex(&d))
        }
        ["ro", n, off] => {
            let mut d = vec![0u8; n.parse().ok()?];
            b.read_bits_with_offset(&mut d, off.parse().ok()?)
                .map(|_| hex(&d))
        }
        ["rl", n, len] => {
            let mut d = vec![0u8; n.parse().ok()?];
            b.read_bits_with_len(&mut d, len.parse().ok()?)
                .map(|_| hex(&d))
        }
        ["rr", n] => {
            let mut d = vec![0u8; n.parse().ok()?];
            b.read_bits(&mut d).map(|_| hex(&d))
        }
        ["pos", p] => Ok(b.set_pos(p.parse().ok()?).to_string()),
        ["len", l] => Ok(b.set_len(l.parse().ok()?).to_string()),
        ["rem"] => Ok(b.remaining().to_string()),
        _ => return None,
    })
}

/// answers one request; panics propagate to the caller's `catch_unwind`, except inside operation
/// sequences where the prefix of results is part of the answer
pub fn handle(args: &[&str]) -> Option<String> {
    Some(match args {
        ["sw", dst, pos, src, off, len] => {
            let mut dst = unhex(dst)?;
            let mut pos: usize = pos.parse().ok()?;
            let src = unhex(src)?;
            let r = (&mut dst[..], &mut pos).write_bits_with_offset_len(
                &src,
                off.parse().ok()?,
                len.parse().ok()?,
            );
            res_pair(r, &dst, pos)
        }
        ["sr", src, pos, dst, off, len] => {
            let src = unhex(src)?;
            let mut pos: usize = pos.parse().ok()?;
            let mut dst = unhex(dst)?;
            let r = (&src[..], &mut pos).read_bits_with_offset_len(
                &mut dst,
                off.parse().ok()?,
                len.parse().ok()?,
            );
            res_pair(r, &dst, pos)
        }
        ["swo", dst, pos, src, off] => {
            let mut dst = unhex(dst)?;
            let mut pos: usize = pos.parse().ok()?;
            let src = unhex(src)?;
            let r = (&mut dst[..], &mut pos).write_bits_with_offset(&src, off.parse().ok()?);
            res_pair(r, &dst, pos)
        }
        ["sro", src, pos, dst, off] => {
            let src = unhex(src)?;
            let mut pos: usize = pos.parse().ok()?;
            let mut dst = unhex(dst)?;
            let r = (&src[..], &mut pos).read_bits_with_offset(&mut dst, off.parse().ok()?);
            res_pair(r, &dst, pos)
        }
        ["swb", dst, pos, x] => {
            let mut dst = unhex(dst)?;
            let mut pos: usize = pos.parse().ok()?;
            let r = (&mut dst[..], &mut pos).write_bit(pbool(x)?);
            res_pair(r, &dst, pos)
        }
        ["srb", src, pos] => {
            let src = unhex(src)?;
            let mut pos: usize = pos.parse().ok()?;
            match (&src[..], &mut pos).read_bit() {
                Ok(b) => format!("ok {} {}", b01(b), pos),
                Err(e) => format!("err {}", per_err(&e)),
            }
        }
        ["buf", ops @ ..] => {
            let mut b = BitBuffer::default();
            let mut out: Vec<String> = Vec::new();
            for op in ops {
                let r = std::panic::catch_unwind(std::panic::AssertUnwindSafe(|| buf_op(&mut b, op)));
                match r {
                    Ok(Some(Ok(s))) => out.push(s),
                    Ok(Some(Err(e))) => out.push(format!("err:{}", per_err(&e))),
                    Ok(None) => return None,
                    Err(_) => {
                        out.push("panic".to_string());
                        return Some(out.join(" "));
                    }
                }
            }
            let rp = {
                // read position is not public: recover it by counting the bits still readable
                let mut probe = BitBuffer::from_bits_with_position(b.content().to_vec(), b.bit_len(), 0);
                let _ = &mut probe;
                read_position_of(&mut b)
            };
            out.push("|".to_string());
            out.push(hex(b.content()));
            out.push(b.bit_len().to_string());
            out.push(rp.to_string());
            // the conversions into a read view: all written bits and no others, from the start
            {
                let v = Bits::from(&b);
                let w = Bits::from((b.content(), b.bit_len()));
                let o = Bits::from(b.content());
                if (v.pos(), v.len()) != (0, b.bit_len())
                    || (w.pos(), w.len()) != (0, b.bit_len())
                    || (o.pos(), o.len()) != (0, b.content().len() * 8)
                {
                    out.push(format!(
                        "view-differs from(&buffer)={}..{} from((content,len))={}..{} from(content)={}..{}",
                        v.pos(), v.len(), w.pos(), w.len(), o.pos(), o.len()
                    ));
                }
            }
            out.join(" ")
        }
        ["view", h, len, ops @ ..] => {
            let bytes = unhex(h)?;
            let len: usize = len.parse().ok()?;
            let mut v = Bits::from((&bytes[..], len));
            let mut out: Vec<String> = Vec::new();
            for op in ops {
                let r = std::panic::catch_unwind(std::panic::AssertUnwindSafe(|| view_op(&mut v, op)));
                match r {
                    Ok(Some(Ok(s))) => out.push(s),
                    Ok(Some(Err(e))) => out.push(format!("err:{}", per_err(&e))),
                    Ok(None) => return None,
                    Err(_) => {
                        out.push("panic".to_string());
                        return Some(out.join(" "));
                    }
                }
            }
            out.push("|".to_string());
            out.push(v.pos().to_string());
            out.push(v.len().to_string());
            out.join(" ")
        }
        _ => return None,
    })
}

/// The read position of a `BitBuffer` is not exposed; it equals `bit_len - (number of single bits
/// that can still be read)`. Reading moves the cursor, which does not matter at the end of a
/// sequence.
fn read_position_of(b: &mut BitBuffer) -> usize {
    let mut n = 0usize;
    while b.read_bit().is_ok() {
        n += 1;
    }
    b.bit_len() - n
}
