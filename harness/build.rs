//! Compiles the schema zoo (harness/zoo/*.asn1) with the REAL converter of /repo's working tree
//! and emits a registry of every generated top-level type.
use std::fmt::Write as _;
use std::path::PathBuf;

fn main() {
    let out = PathBuf::from(std::env::var("OUT_DIR").unwrap());
    let zoo = PathBuf::from(std::env::var("CARGO_MANIFEST_DIR").unwrap()).join("zoo");
    println!("cargo:rerun-if-changed={}", zoo.display());
    let mut files: Vec<PathBuf> = std::fs::read_dir(&zoo)
        .unwrap()
        .map(|e| e.unwrap().path())
        .filter(|p| p.extension().map(|e| e == "asn1").unwrap_or(false))
        .collect();
    files.sort();
    let mut conv = asn1rs::converter::Converter::default();
    for f in &files {
        println!("cargo:rerun-if-changed={}", f.display());
        conv.load_file(f).unwrap_or_else(|e| panic!("zoo module {:?} rejected: {:?}", f, e));
    }
    let generated = conv.to_rust(&out, |_| {}).expect("to_rust failed");
    #[cfg(any())]
    let _ = ();
    // .proto files for C18
    let protos = conv.to_protobuf(&out).expect("to_protobuf failed");
    let mut reg = String::new();
    let mut names: Vec<(String, String)> = Vec::new(); // (module, type)
    let mut mods: Vec<String> = generated.values().flatten().cloned().collect();
    mods.sort();
    for file in &mods {
        let m = file.trim_end_matches(".rs").to_string();
        writeln!(reg, "#[allow(unused, clippy::all)] pub mod {m} {{ include!(concat!(env!(\"OUT_DIR\"), \"/{file}\")); }}").unwrap();
        let src = std::fs::read_to_string(out.join(file)).unwrap();
        for line in src.lines() {
            let l = line.trim_start();
            for kw in ["pub struct ", "pub enum "] {
                if let Some(rest) = l.strip_prefix(kw) {
                    let name: String = rest.chars().take_while(|c| c.is_alphanumeric() || *c == '_').collect();
                    if !name.is_empty() {
                        names.push((m.clone(), name));
                    }
                }
            }
        }
    }
    // the variant identifiers of every generated `pub enum` (ENUMERATED and CHOICE), in the order of the text
    let mut variants: Vec<(String, String)> = Vec::new();
    for file in &mods {
        let m = file.trim_end_matches(".rs").to_string();
        let src = std::fs::read_to_string(out.join(file)).unwrap();
        let mut current: Option<(String, Vec<String>)> = None;
        for line in src.lines() {
            let l = line.trim_start();
            if let Some((name, list)) = &mut current {
                if line.starts_with('}') {
                    variants.push((format!("{m}::{name}"), list.join(",")));
                    current = None;
                } else if !l.starts_with("//") {
                    // `#[asn(..)] Name(Type),` / `#[default] Name,`: the identifier behind the attributes
                    let mut l = l;
                    while l.starts_with("#[") {
                        let mut depth = 0usize;
                        let mut end = l.len();
                        for (i, c) in l.char_indices() {
                            match c {
                                '[' => depth += 1,
                                ']' => {
                                    depth -= 1;
                                    if depth == 0 {
                                        end = i + 1;
                                        break;
                                    }
                                }
                                _ => {}
                            }
                        }
                        l = l[end..].trim_start();
                    }
                    let id: String = l.chars().take_while(|c| c.is_alphanumeric() || *c == '_').collect();
                    if !id.is_empty() {
                        list.push(id);
                    }
                }
            } else if let Some(rest) = line.strip_prefix("pub enum ") {
                let name: String = rest.chars().take_while(|c| c.is_alphanumeric() || *c == '_').collect();
                current = Some((name, Vec::new()));
            }
        }
    }
    writeln!(reg, "pub const ZOO_ENUM_VARIANTS: &[(&str, &str)] = &[").unwrap();
    for (n, v) in &variants {
        writeln!(reg, "    (\"{n}\", \"{v}\"),").unwrap();
    }
    writeln!(reg, "];").unwrap();
    names.sort();
    names.dedup();
    writeln!(reg, "pub const ZOO_TYPES: &[&str] = &[").unwrap();
    for (m, n) in &names {
        writeln!(reg, "    \"{m}::{n}\",").unwrap();
    }
    writeln!(reg, "];").unwrap();
    writeln!(reg, "pub fn with_type<V: crate::zoo::Visitor>(name: &str, v: V) -> Option<V::Out> {{\n    Some(match name {{").unwrap();
    for (m, n) in &names {
        writeln!(reg, "        \"{m}::{n}\" => v.visit::<{m}::{n}>(),").unwrap();
    }
    writeln!(reg, "        _ => return None,\n    }})\n}}").unwrap();
    let mut plist: Vec<String> = protos.values().flatten().cloned().collect();
    plist.sort();
    writeln!(reg, "pub const ZOO_PROTO_FILES: &[&str] = &[").unwrap();
    for p in &plist {
        writeln!(reg, "    concat!(env!(\"OUT_DIR\"), \"/{p}\"),").unwrap();
    }
    writeln!(reg, "];").unwrap();
    std::fs::write(out.join("zoo_registry.rs"), reg).unwrap();
}
