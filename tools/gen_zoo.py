#!/usr/bin/env python3
"""Generates the schema zoo /verif/harness/zoo/*.asn1 (deterministic; output is committed).

The zoo is compiled into the harness by build.rs through the real `asn1rs::converter::Converter`,
so every type below exists as generated Rust code with the real descriptor constants.
Only constructs that compile today are used (no imported value references, no OCTET STRING
defaults, no colliding/keyword identifiers: those are C09/C08 findings with their own streams).
"""
import itertools
import os

OUT = os.path.normpath(os.path.join(os.path.dirname(os.path.abspath(__file__)), "..", "harness", "zoo"))


def module(name, body, imports=""):
    return f"{name} DEFINITIONS AUTOMATIC TAGS ::= BEGIN\n{imports}\n{body}\nEND\n"


ROOT_KINDS = ["BOOLEAN", "INTEGER (0..7)", "INTEGER", "ENUMERATED { ea, eb }", "NULL", "BIT STRING (SIZE(0..9))", "OCTET STRING",
              "UTF8String", "IA5String (SIZE(0..4))", "NumericString", "PrintableString", "VisibleString",
              "SEQUENCE OF BOOLEAN", "SET OF INTEGER (0..3)", "CHOICE { ca BOOLEAN, cb NULL }", "SEQUENCE { z BOOLEAN }",
              "INTEGER (0..7,...)", "NumericString (SIZE(0..3,...))"]


def leaf():
    d = []
    ints = [
        ("IntU8", "(0..255)"), ("IntI8", "(-128..127)"), ("IntOne", "(5..5)"), ("IntU16", "(0..65535)"),
        ("IntTri", "(-1..1)"), ("IntNib", "(1..16)"), ("IntBig", "(0..4294967295)"),
        ("IntNeg", "(-1000..-1)"), ("IntSemi", "(5..MAX)"), ("IntUnc", ""), ("IntI64", "(-9223372036854775808..9223372036854775807)"),
        ("IntHalf", "(0..9223372036854775807)"), ("IntExt", "(0..255,...)"), ("IntExtNeg", "(-100..100,...)"),
        ("IntExtOne", "(7..7,...)"), ("IntOdd", "(3..300)"), ("IntNegSemi", "(-5..MAX)"),
        # the boundaries of the 32/64-bit cascades (Rust type, protobuf scalar type)
        ("IntI32", "(-2147483648..2147483647)"), ("IntI32Hi", "(-1..2147483647)"), ("IntI32HiP", "(-1..2147483648)"),
        ("IntI32Lo", "(-2147483648..0)"), ("IntI32LoM", "(-2147483649..0)"), ("IntU32P", "(0..4294967296)"),
        ("IntU31", "(0..2147483647)"), ("IntI16Hi", "(-1..32767)"), ("IntI16HiP", "(-1..32768)"),
        # extensible with an open end (the attribute is printed with the `max` / `min` keyword)
        ("IntSemiExt", "(5..MAX,...)"), ("IntNegSemiExt", "(-5..MAX,...)"),
        # extensible without a finite root (no MIN / MAX constant at all)
        ("IntZeroMaxExt", "(0..MAX,...)"), ("IntMinMaxExt", "(MIN..MAX,...)"),
        # extensible roots at the 32-bit boundaries: the Rust type (u64 / i64) and the protobuf scalar type
        # (uint64 / sint64) do not depend on the root; IntExtI32 has root values with |v| >= 2^30
        ("IntExtU32", "(0..4294967295,...)"), ("IntExtU32P", "(0..4294967296,...)"),
        ("IntExtI32", "(-2147483648..2147483647,...)"), ("IntExtI32LoM", "(-2147483649..0,...)"),
        ("IntExtNegOnly", "(-1000..-1,...)"),
    ]
    for n, c in ints:
        d.append(f"{n} ::= INTEGER {c}")
    d.append("Flag ::= BOOLEAN")
    d.append("Nothing ::= NULL")
    sizes = [("", ""), ("Fix3", "(SIZE(3))"), ("R0to5", "(SIZE(0..5))"), ("R2to4", "(SIZE(2..4))"),
             ("Ext", "(SIZE(1..3,...))"), ("FixExt", "(SIZE(2,...))"), ("Zero", "(SIZE(0))"),
             ("Big", "(SIZE(0..70000))"), ("Mid", "(SIZE(0..60000))"), ("Lb", "(SIZE(1..MAX))"),
             # upper bound >= 64K with a lower bound > 0: ub and ub - lb need a different number of bits
             ("LbBig", "(SIZE(1..65536))"), ("LbBig2", "(SIZE(3..131074))")]
    for cs in ["UTF8String", "IA5String", "NumericString", "PrintableString", "VisibleString"]:
        for sn, sc in sizes:
            d.append(f"{cs[:-6]}{sn or 'Any'} ::= {cs} {sc}")
    for sn, sc in sizes:
        d.append(f"Oct{sn or 'Any'} ::= OCTET STRING {sc}")
        d.append(f"Bits{sn or 'Any'} ::= BIT STRING {sc}")
    d.append("Color ::= ENUMERATED { red, green, blue }")
    d.append("ColorX ::= ENUMERATED { red, green, ..., blue, yellow }")
    d.append("Single ::= ENUMERATED { only }")
    d.append("Many ::= ENUMERATED { " + ", ".join(f"v{i}" for i in range(70)) + " }")
    d.append("ManyX ::= ENUMERATED { a, ..., " + ", ".join(f"x{i}" for i in range(66)) + " }")
    for sn, sc in sizes:
        if sn in ("Big", "Mid", "Lb"):
            d.append(f"ListBool{sn} ::= SEQUENCE {sc} OF BOOLEAN")
            continue
        d.append(f"ListInt{sn or 'Any'} ::= SEQUENCE {sc} OF INTEGER (0..7)")
    d.append("ListList ::= SEQUENCE OF SEQUENCE (SIZE(0..3)) OF INTEGER (0..3)")
    d.append("ListStr ::= SEQUENCE (SIZE(0..4)) OF IA5String (SIZE(0..3))")
    d.append("SetOfInt ::= SET (SIZE(0..5)) OF INTEGER (-8..7)")
    d.append("ListColor ::= SEQUENCE OF ColorX")
    # elements that occupy no bits at all: the element count is not bounded by the bits that follow
    d.append("ListNull ::= SEQUENCE OF NULL")
    d.append("ListOneR ::= SEQUENCE (SIZE(0..200)) OF INTEGER (5..5)")
    d.append("SetOfNull ::= SET (SIZE(0..40)) OF NULL")
    d.append("HoldNulls ::= SEQUENCE { marks SEQUENCE (SIZE(0..31)) OF NULL, flag BOOLEAN }")
    # a fixed size of 64K and more has no length determinant at all (X.691 11.9.4.2): the size check is the
    # only thing between a shorter value and the wire (elements without bits keep the values cheap)
    d.append("ListNullFix64K ::= SEQUENCE (SIZE(65536)) OF NULL")
    # X.691 14.1 / 23.4: indices follow the numeric values / the canonical tag order, not the text
    d.append("EnumOrd ::= ENUMERATED { hi(5), lo(2), mid(3) }")
    d.append("ChoiceOrd ::= CHOICE { z [5] BOOLEAN, a [2] INTEGER (0..7), m [3] NULL }")
    return module("ZooLeaf", "\n".join(d))


KINDS = ["m", "o", "d"]
FIELD_TYPES = ["INTEGER (0..7)", "BOOLEAN", "INTEGER (0..255)"]
DEFAULTS = {"INTEGER (0..7)": "3", "BOOLEAN": "TRUE", "INTEGER (0..255)": "200"}


def shapes():
    """every SEQUENCE shape with <= 3 components x kinds x marker position (none / after i)"""
    d = []
    idx = 0
    for n in range(0, 4):
        for kinds in itertools.product(KINDS, repeat=n):
            for marker in [None] + list(range(0, n + 1)):
                # marker = number of root components before `...`; additions are the rest
                if n == 0 and marker == 0:
                    continue
                if marker is not None and marker == n:
                    # marker at the very end, no additions
                    pass
                comps = []
                for i, k in enumerate(kinds):
                    ty = FIELD_TYPES[i % len(FIELD_TYPES)]
                    line = f"f{i} {ty}"
                    if k == "o":
                        line += " OPTIONAL"
                    elif k == "d":
                        line += f" DEFAULT {DEFAULTS[ty]}"
                    comps.append(line)
                if marker is not None:
                    comps.insert(marker, "...")
                if marker == 0:
                    continue   # leading marker: parser quirk (extension_after = Some(0)), separate finding
                name = f"S{idx}"
                idx += 1
                d.append(f"{name} ::= SEQUENCE {{ " + ", ".join(comps) + " }")
    return module("ZooShape", "\n".join(d))


def nested():
    d = []
    d.append("Inner ::= SEQUENCE { a INTEGER (0..15), b BOOLEAN OPTIONAL }")
    d.append("InnerX ::= SEQUENCE { a INTEGER (0..15), ..., b BOOLEAN OPTIONAL, c IA5String (SIZE(0..4)) OPTIONAL }")
    d.append("Pick ::= CHOICE { num INTEGER (0..100), flag BOOLEAN, txt IA5String (SIZE(0..5)) }")
    d.append("PickX ::= CHOICE { num INTEGER (0..100), flag BOOLEAN, ..., txt IA5String (SIZE(0..5)), inner Inner }")
    d.append("PickOne ::= CHOICE { only NULL }")
    d.append("PickDeep ::= CHOICE { p Pick, q PickX, l SEQUENCE OF Pick }")
    d.append("Outer ::= SEQUENCE { i Inner, x InnerX OPTIONAL, p Pick, l SEQUENCE (SIZE(0..3)) OF Inner, e ColorN DEFAULT green }")
    d.append("ColorN ::= ENUMERATED { red, green, blue }")
    d.append("OuterX ::= SEQUENCE { i Inner, ..., x InnerX OPTIONAL, p PickX OPTIONAL, l SEQUENCE (SIZE(0..3)) OF Inner OPTIONAL, n NULL OPTIONAL, s OCTET STRING (SIZE(0..300)) OPTIONAL }")
    d.append("WithNull ::= SEQUENCE { a NULL, b BOOLEAN OPTIONAL, c NULL OPTIONAL }")
    d.append("WithNullX ::= SEQUENCE { a NULL, b BOOLEAN, ..., c BOOLEAN OPTIONAL, d INTEGER (0..3) OPTIONAL }")
    d.append("Strs ::= SEQUENCE { u UTF8String, i IA5String (SIZE(1..4)) OPTIONAL, n NumericString (SIZE(0..6)) DEFAULT \"42\", p PrintableString (SIZE(2)) OPTIONAL, v VisibleString (SIZE(0..3,...)) }")
    d.append("Blobs ::= SEQUENCE { o OCTET STRING (SIZE(0..4)), b BIT STRING (SIZE(0..12)), ox OCTET STRING (SIZE(2,...)) OPTIONAL, bx BIT STRING OPTIONAL }")
    d.append("Nums ::= SEQUENCE { a INTEGER (-5..5), b INTEGER OPTIONAL, c INTEGER (0..255,...) DEFAULT 7, d INTEGER (5..MAX), e INTEGER (0..65535) }")
    d.append("DefX ::= SEQUENCE { a BOOLEAN, ..., b INTEGER (0..7) DEFAULT 3, c BOOLEAN DEFAULT TRUE, d IA5String (SIZE(0..3)) DEFAULT \"ab\" }")
    # a mandatory root component of every kind in front of the extension marker (each read_*/write_* counts
    # itself as a component of the enclosing extensible SEQUENCE / SET)
    root_kinds = ROOT_KINDS
    for i, k in enumerate(root_kinds):
        d.append(f"RootK{i} ::= SEQUENCE {{ x {k}, ..., y INTEGER (0..255) OPTIONAL, w BOOLEAN OPTIONAL }}")
        d.append(f"RootS{i} ::= SET {{ x {k}, ..., y INTEGER (0..255) OPTIONAL }}")
    # an ENUMERATED DEFAULT whose item is renamed twice differently (a-b -> AB -> Ab) next to an item that has that
    # second name: the DEFAULT constant names the declared item
    d.append("ModeAb ::= ENUMERATED { ab, a-b, other, x-y-z, xyz }")
    d.append("CfgAb ::= SEQUENCE { mode ModeAb DEFAULT a-b, deep ModeAb DEFAULT x-y-z, last BOOLEAN, ..., later ModeAb DEFAULT a-b }")
    # string DEFAULTs whose words are more than one blank apart (the parser rebuilds the literal from token columns)
    d.append("DefSp ::= SEQUENCE { a BOOLEAN, t UTF8String DEFAULT \"ID:  none\", ..., u IA5String (SIZE(0..8)) DEFAULT \"km   h\", p PrintableString DEFAULT \"a  b c\" }")
    # an OPTIONAL SEQUENCE whose own components are OPTIONAL (ProtobufEq of two present values is not `==`)
    d.append("Inner2 ::= SEQUENCE { n INTEGER (0..255) OPTIONAL, l SEQUENCE OF INTEGER (0..255) OPTIONAL }")
    d.append("Outer2 ::= SEQUENCE { inner Inner2 OPTIONAL, tail INTEGER (0..255) }")
    d.append("ManyOpt ::= SEQUENCE { " + ", ".join(f"o{i} BOOLEAN OPTIONAL" for i in range(10)) + " }")
    d.append("ManyAdd ::= SEQUENCE { r BOOLEAN, ..., " + ", ".join(f"a{i} INTEGER (0..3) OPTIONAL" for i in range(9)) + " }")
    # 64 / 65 / 66 extension additions: the count leaves the 6-bit form, the bitmap is longer than a machine word
    for k in (64, 65, 66):
        d.append(f"Add{k} ::= SEQUENCE {{ r BOOLEAN, ..., " + ", ".join(f"e{i:02d} INTEGER (0..3) OPTIONAL" for i in range(k)) + " }")
    # the marker position is found by NAME when the generated attribute is read back: names that differ only
    # in case, a name that is a prefix of an earlier one
    d.append("EnumCase ::= ENUMERATED { hz, mhz, mHz, ..., ghz }")
    d.append("ChoiceCase ::= CHOICE { fooBar INTEGER (0..7), foobar BOOLEAN, ..., other NULL }")
    d.append("SeqPrefix ::= SEQUENCE { speed-limit INTEGER (0..255) OPTIONAL, speed INTEGER (0..255) OPTIONAL, ..., note BOOLEAN OPTIONAL }")
    d.append("SetPrefix ::= SET { ab-c BOOLEAN OPTIONAL, ab BOOLEAN OPTIONAL, ..., abc BOOLEAN OPTIONAL }")
    d.append("Deep ::= SEQUENCE { l1 SEQUENCE { l2 SEQUENCE { l3 SEQUENCE { v INTEGER (0..3) OPTIONAL, ..., w BOOLEAN OPTIONAL } OPTIONAL } }, t BOOLEAN }")
    d.append("ListOfX ::= SEQUENCE OF InnerX")
    d.append("ChoiceOfSeqX ::= CHOICE { a InnerX, ..., b OuterX }")
    return module("ZooNested", "\n".join(d))


def sets():
    d = []
    d.append("SetA ::= SET { c [2] INTEGER (0..7), a [0] BOOLEAN, b [1] INTEGER (0..3) OPTIONAL }")
    d.append("SetB ::= SET { p [PRIVATE 1] BOOLEAN, u [UNIVERSAL 30] BOOLEAN, c [5] BOOLEAN, a [APPLICATION 3] BOOLEAN }")
    d.append("SetC ::= SET { x INTEGER (0..7), y BOOLEAN OPTIONAL, z IA5String (SIZE(0..2)) DEFAULT \"q\" }")
    d.append("SetX ::= SET { b [1] BOOLEAN, a [0] INTEGER (0..3), ..., d [3] BOOLEAN OPTIONAL, c [2] INTEGER (0..3) OPTIONAL }")
    d.append("SetU ::= SET { s IA5String (SIZE(0..2)), i INTEGER (0..3), b BOOLEAN }")
    d.append("SeqT ::= SEQUENCE { c [2] INTEGER (0..7), a [0] BOOLEAN, b [1] INTEGER (0..3) OPTIONAL }")
    # more than 20 components, most of them additions (all additions compare equal in the sort: it has to be stable)
    roots = [7, 2, 5, 0, 6, 1, 4, 3]
    d.append("SetBig ::= SET { " + ", ".join(f"r{t} [{t}] BOOLEAN" for t in roots) + ", ..., "
             + ", ".join(f"e{i:02d} [{10 + i}] INTEGER (0..255) OPTIONAL" for i in range(14)) + " }")
    d.append("SetBig2 ::= SET { " + ", ".join(f"r{t} [{t}] BOOLEAN" for t in roots[:4]) + ", ..., "
             + ", ".join(f"e{i:02d} [{40 - i}] INTEGER (0..255) OPTIONAL" for i in range(18)) + " }")
    # 16 root components with explicit tags out of order and 17 additions (33 components: beyond the length up
    # to which a general-purpose sort falls back to insertion sort): the additions stay in textual order
    order = [7, 2, 15, 0, 9, 4, 12, 1, 14, 6, 3, 11, 8, 13, 5, 10]
    roots = ", ".join(f"r{t:02d} [{t}] BOOLEAN" for t in order)
    # (every addition has its own range: the descriptor shows a permutation)
    adds = ", ".join(f"e{i:02d} [{100 + i}] INTEGER (0..{i + 1}) OPTIONAL" for i in range(17))
    d.append(f"SetHuge ::= SET {{ {roots}, ..., {adds} }}")
    adds = ", ".join(f"e{i:02d} [{140 - i}] INTEGER (0..{i + 1}) OPTIONAL" for i in range(24))
    d.append(f"SetHuge2 ::= SET {{ {roots}, ..., {adds} }}")
    return module("ZooSet", "\n".join(d))


def versions():
    """V1/V2/V3 chains: V(n+1) = V(n) + extension additions / alternatives / values"""
    d = []
    d.append("MsgV1 ::= SEQUENCE { id INTEGER (0..255), name IA5String (SIZE(0..8)) OPTIONAL, ... }")
    d.append("MsgV2 ::= SEQUENCE { id INTEGER (0..255), name IA5String (SIZE(0..8)) OPTIONAL, ..., extra INTEGER (0..65535) OPTIONAL }")
    d.append("MsgV3 ::= SEQUENCE { id INTEGER (0..255), name IA5String (SIZE(0..8)) OPTIONAL, ..., extra INTEGER (0..65535) OPTIONAL, blob OCTET STRING (SIZE(0..300)) OPTIONAL, flag BOOLEAN DEFAULT FALSE }")
    adds = ["a1 BOOLEAN OPTIONAL", "a2 INTEGER (0..7) OPTIONAL", "a3 OCTET STRING (SIZE(0..300)) OPTIONAL", "a4 IA5String (SIZE(0..40)) OPTIONAL",
            "a5 INTEGER OPTIONAL", "a6 BOOLEAN DEFAULT TRUE", "a7 SEQUENCE OF INTEGER (0..255) OPTIONAL", "a8 NULL OPTIONAL"]
    for k in range(0, 9):
        body = "r1 INTEGER (0..15), r2 BOOLEAN OPTIONAL, ..." + "".join(", " + a for a in adds[:k])
        d.append(f"Chain{k} ::= SEQUENCE {{ {body} }}")
    d.append("ChoV1 ::= CHOICE { a INTEGER (0..7), b BOOLEAN, ... }")
    d.append("ChoV2 ::= CHOICE { a INTEGER (0..7), b BOOLEAN, ..., c IA5String (SIZE(0..5)) }")
    d.append("ChoV3 ::= CHOICE { a INTEGER (0..7), b BOOLEAN, ..., c IA5String (SIZE(0..5)), d OCTET STRING (SIZE(0..300)) }")
    d.append("EnuV1 ::= ENUMERATED { x, y, ... }")
    d.append("EnuV2 ::= ENUMERATED { x, y, ..., z }")
    d.append("EnuV3 ::= ENUMERATED { x, y, ..., z, w }")
    # SET versions: a later addition with a LOWER tag than an earlier one (the generator sorts additions by tag)
    d.append("SetV1 ::= SET { a [0] INTEGER (0..7), ..., b [5] BOOLEAN OPTIONAL }")
    d.append("SetV2 ::= SET { a [0] INTEGER (0..7), ..., b [5] BOOLEAN OPTIONAL, c [2] INTEGER (0..255) OPTIONAL }")
    # the FIRST addition is the long one: its open type length determinant (>= 64, >= 128 octets) follows
    # the presence bitmap directly
    badds = ["b1 OCTET STRING (SIZE(0..300)) OPTIONAL", "b2 INTEGER (0..255) OPTIONAL", "b3 SEQUENCE OF INTEGER (0..255) OPTIONAL",
             "b4 BOOLEAN OPTIONAL", "b5 UTF8String OPTIONAL"]
    for k in range(0, 6):
        body = "r1 INTEGER (0..15), ..." + "".join(", " + a for a in badds[:k])
        d.append(f"Big{k} ::= SEQUENCE {{ {body} }}")
    # an addition that is itself an extensible SEQUENCE with versions
    d.append("InnerV1 ::= SEQUENCE { x INTEGER (0..3), ... }")
    d.append("InnerV2 ::= SEQUENCE { x INTEGER (0..3), ..., y BOOLEAN OPTIONAL }")
    d.append("InnerV3 ::= SEQUENCE { x INTEGER (0..3), ..., y BOOLEAN OPTIONAL, w OCTET STRING (SIZE(0..200)) OPTIONAL }")
    d.append("DeepV1 ::= SEQUENCE { a BOOLEAN, ..., i InnerV1 OPTIONAL }")
    d.append("DeepV2 ::= SEQUENCE { a BOOLEAN, ..., i InnerV2 OPTIONAL, z INTEGER (0..255) OPTIONAL }")
    d.append("DeepV3 ::= SEQUENCE { a BOOLEAN, ..., i InnerV3 OPTIONAL, z INTEGER (0..255) OPTIONAL, l SEQUENCE OF InnerV3 OPTIONAL }")
    # an untagged extensible CHOICE inside a SET with explicit tags: the position of the CHOICE among the
    # SET's components is decided by its ROOT alternatives only (an added alternative with a smaller tag
    # must not move it)
    # V2 appends an item whose name differs from the last ROOT item only in case
    d.append("EnuCaseV1 ::= ENUMERATED { idle, readOnly, ... }")
    d.append("EnuCaseV2 ::= ENUMERATED { idle, readOnly, ..., readonly }")
    d.append("ChoCaseV1 ::= CHOICE { idle NULL, readOnly INTEGER (0..255), ... }")
    d.append("ChoCaseV2 ::= CHOICE { idle NULL, readOnly INTEGER (0..255), ..., readonly BOOLEAN }")
    # more than 64 additions on the sender's side
    d.append("WideV1 ::= SEQUENCE { r BOOLEAN, ..., " + ", ".join(f"e{i:02d} INTEGER (0..3) OPTIONAL" for i in range(64)) + " }")
    d.append("WideV2 ::= SEQUENCE { r BOOLEAN, ..., " + ", ".join(f"e{i:02d} INTEGER (0..3) OPTIONAL" for i in range(66)) + " }")
    # additions that are not marked OPTIONAL / DEFAULT (the generator makes them optional), a NULL among them
    d.append("NulV1 ::= SEQUENCE { r INTEGER (0..15), ..., b INTEGER (0..255) OPTIONAL }")
    d.append("NulV2 ::= SEQUENCE { r INTEGER (0..15), ..., b INTEGER (0..255) OPTIONAL, n NULL }")
    d.append("NulV3 ::= SEQUENCE { r INTEGER (0..15), ..., b INTEGER (0..255) OPTIONAL, n NULL, m BOOLEAN, s IA5String (SIZE(0..3)) }")
    d.append("NulWrapV1 ::= SEQUENCE { m NulV1, tail INTEGER (0..255) }")
    d.append("NulWrapV2 ::= SEQUENCE { m NulV2, tail INTEGER (0..255) }")
    d.append("NulWrapV3 ::= SEQUENCE { m NulV3, tail INTEGER (0..255) }")
    # every item numbered; the added value's number lies between those of two root items
    d.append("EnuNumV1 ::= ENUMERATED { low(10), high(20), top(30), ... }")
    d.append("EnuNumV2 ::= ENUMERATED { low(10), high(20), top(30), ..., mid(15) }")
    d.append("EnuNumV3 ::= ENUMERATED { low(10), high(20), top(30), ..., mid(15), bottom(1) }")
    # V1 ends in the marker, a mandatory root component of every kind in front of it; V2 appends two additions
    for i, k in enumerate(ROOT_KINDS):
        d.append(f"RootV{i}V1 ::= SEQUENCE {{ id INTEGER (0..255), x {k}, ... }}")
        d.append(f"RootV{i}V2 ::= SEQUENCE {{ id INTEGER (0..255), x {k}, ..., note UTF8String OPTIONAL, level INTEGER (0..7) OPTIONAL }}")
    d.append("SelV1 ::= CHOICE { code [5] INTEGER (0..255), ... }")
    d.append("SelV2 ::= CHOICE { code [5] INTEGER (0..255), ..., label [1] UTF8String (SIZE(0..5)) }")
    d.append("HoldV1 ::= SET { selector SelV1, level [3] INTEGER (0..255) }")
    d.append("HoldV2 ::= SET { selector SelV2, level [3] INTEGER (0..255) }")
    d.append("WrapV1 ::= SEQUENCE { m MsgV1, tail INTEGER (0..255) }")
    d.append("WrapV2 ::= SEQUENCE { m MsgV2, tail INTEGER (0..255) }")
    d.append("WrapV3 ::= SEQUENCE { m MsgV3, tail INTEGER (0..255) }")
    return module("ZooVer", "\n".join(d))


def importing():
    """types of another module as plain component, OPTIONAL, list element, CHOICE alternative"""
    d = []
    d.append("Garage ::= SEQUENCE { main Color, spare ColorX OPTIONAL, paints SEQUENCE OF Color, levels SEQUENCE (SIZE(0..3)) OF IntU8, "
             "pick CHOICE { c Color, n IntI8 } }")
    d.append("Fleet ::= SEQUENCE OF Color")
    d.append("Pick ::= CHOICE { colour Color, count IntU16, many SEQUENCE OF IntNib }")
    return module("ZooImp", "\n".join(d), imports="IMPORTS Color, ColorX, IntU8, IntI8, IntU16, IntNib FROM ZooLeaf;")


def importing_choice_only():
    """every imported symbol is used as a CHOICE alternative only (a dispatcher module)"""
    d = ["Dispatch ::= CHOICE { colour Color, level IntU8, wide IntU16 }"]
    return module("ZooImc", "\n".join(d), imports="IMPORTS Color, IntU8, IntU16 FROM ZooLeaf;")


def main():
    os.makedirs(OUT, exist_ok=True)
    files = {"zoo_leaf.asn1": leaf(), "zoo_shape.asn1": shapes(), "zoo_nested.asn1": nested(),
             "zoo_set.asn1": sets(), "zoo_ver.asn1": versions(), "zoo_imp.asn1": importing(),
             "zoo_imc.asn1": importing_choice_only()}
    for n, t in files.items():
        with open(os.path.join(OUT, n), "w") as f:
            f.write(t)
    print("wrote", len(files), "zoo modules to", OUT)


if __name__ == "__main__":
    main()
