#!/bin/sh
# Runs checks against a patched COPY of the repository, without touching /repo (which other
# processes may be building against).  Usage: tools/mutant_run.sh <patch> <scratch-dir> <Cxx> [<Cyy> …]
#   <scratch-dir>/repo   = fresh worktree of /repo HEAD with the patch applied
#   <scratch-dir>/verif  = copy of /verif whose harness and translator point at that worktree
# For the final record the same patches are also run against /repo itself (tools/seeded_run.py).
set -e
PATCH="$1"; SCR="$2"; shift 2
VERIF="$(cd "$(dirname "$0")/.." && pwd)"
mkdir -p "$SCR"
if [ ! -d "$SCR/repo" ]; then git -C /repo worktree add --detach "$SCR/repo" HEAD >/dev/null; fi
git -C "$SCR/repo" checkout -q -- . && git -C "$SCR/repo" apply "$PATCH"
rsync -a --delete --exclude .git --exclude evidence/replay "$VERIF/" "$SCR/verif/" || [ $? -eq 24 ]
sed -i "s#\"/repo\"#\"$SCR/repo\"#; s#\"/repo/asn1rs-model\"#\"$SCR/repo/asn1rs-model\"#" "$SCR/verif/harness/Cargo.toml"
rm -f "$SCR/verif/harness/Cargo.lock"; cp "$SCR/repo/Cargo.lock" "$SCR/verif/harness/Cargo.lock"
cd "$SCR/verif"
rc=0
for c in "$@"; do
  echo "=== $c against $(basename "$PATCH")"
  VERIF_REPO="$SCR/repo" ./check "$c" --tier quick 2>&1 | grep -v "^KNOWN-FINDING" | tail -4 | cut -c1-400 || true
done
git -C "$SCR/repo" checkout -q -- .
