#!/usr/bin/env python3
"""Confirms a seeded change written by an independent sub-agent and stores it under seeded/<id>/.

usage: tools/seed_confirm.py <Cxx> <A|B> "<what it needs to manifest>" [<check> …]
Looks for /tmp/mut_out/<Cxx>_<A|B>.patch and _demo.rs, uses the worktree /tmp/mut_<Cxx>:
  1. clean tree: demo passes;  2. patch applied: builds, demo FAILS, the suite shows exactly the
  baseline failures;  3. runs the given checks against a patched copy (tools/mutant_run.sh).
"""
import json
import os
import re
import shutil
import subprocess
import sys

HERE = os.path.normpath(os.path.join(os.path.dirname(os.path.abspath(__file__)), ".."))
BASE_FAIL = {"generate::walker::tests::test_whatever_struct_type_declaration",
             "generate::walker::tests::test_whatever_struct_constraint_and_read_write_impl",
             "generate::walker::tests::test_potatoe_struct_has_correct_extensible_constraints"}


def sh(cmd, cwd=None, timeout=7200):
    p = subprocess.run(cmd, cwd=cwd, shell=True, capture_output=True, text=True, timeout=timeout)
    return p.returncode, p.stdout + p.stderr


def main():
    prop, which, needs = sys.argv[1], sys.argv[2], sys.argv[3]
    checks = sys.argv[4:] or [prop]
    wt = f"/tmp/mut_{prop}"
    patch = f"/tmp/mut_out/{prop}_{which}.patch"
    demo = f"/tmp/mut_out/{prop}_{which}_demo.rs"
    sid = f"{prop}_{which}"
    ran = []
    sh("git checkout -- src asn1rs-model asn1rs-macros", cwd=wt)
    # demo file placement: find it in the worktree by content equality, else put it under tests/
    demo_name = None
    for root, _, files in os.walk(wt):
        if "/target" in root or "/.git" in root:
            continue
        for f in files:
            if f.endswith(".rs") and open(os.path.join(root, f), errors="ignore").read() == open(demo).read():
                demo_name = os.path.join(root, f)
    if demo_name is None:
        demo_name = os.path.join(wt, "tests", f"demo_{sid.lower()}.rs")
        shutil.copy(demo, demo_name)
    crate_dir = os.path.dirname(os.path.dirname(demo_name))
    test_name = os.path.splitext(os.path.basename(demo_name))[0]
    feat = " --all-features" if crate_dir == wt else ""
    if "SEED_DEMO_FLAGS" in os.environ:
        feat = " " + os.environ["SEED_DEMO_FLAGS"] if os.environ["SEED_DEMO_FLAGS"] else ""
    cmd_demo = f"cargo test --offline{feat} --test {test_name}"
    rc0, out0 = sh(cmd_demo, cwd=crate_dir)
    ran.append(f"[clean] {cmd_demo} -> rc {rc0}")
    rc, out = sh(f"git apply {patch}", cwd=wt)
    if rc != 0:
        print("patch does not apply", out)
        return 1
    rcb, outb = sh("cargo build --offline --workspace --all-features && cargo build --offline", cwd=wt)
    ran.append(f"[patched] cargo build --offline --workspace --all-features && cargo build --offline -> rc {rcb}")
    rc1, out1 = sh(cmd_demo, cwd=crate_dir)
    ran.append(f"[patched] {cmd_demo} -> rc {rc1}")
    # the demonstrations themselves are not part of the suite: park every demo file meanwhile
    parked = []
    for root, _, files in os.walk(wt):
        if "/target" in root or "/.git" in root:
            continue
        for f in files:
            if f.startswith("demo") and f.endswith(".rs"):
                src = os.path.join(root, f)
                dst = src + ".parked"
                os.rename(src, dst)
                parked.append((src, dst))
    rcs, outs = sh("cargo test --workspace --no-fail-fast --offline --all-features 2>&1", cwd=wt)
    for src, dst in parked:
        os.rename(dst, src)
    failed = set(re.findall(r"^test (\S+) \.\.\. FAILED", outs, flags=re.M))
    failed = {f for f in failed if "demo" not in f}
    # failures inside the demo test binaries do not count (they are the demonstration)
    demo_bins = set(re.findall(r"Running tests/(demo\S+)\.rs", outs))
    suite_ok = failed == BASE_FAIL
    ran.append(f"[patched] cargo test --workspace --no-fail-fast --offline --all-features -> failing tests: {sorted(failed)}")
    sh("git checkout -- src asn1rs-model asn1rs-macros", cwd=wt)
    ok = rc0 == 0 and rcb == 0 and rc1 != 0 and suite_ok
    print(f"{sid}: demo clean rc={rc0} (want 0), build rc={rcb}, demo patched rc={rc1} (want !=0), suite failures as baseline: {suite_ok}")
    if not ok:
        print("NOT CONFIRMED")
        if not suite_ok:
            print(" unexpected failures:", sorted(failed - BASE_FAIL), "missing:", sorted(BASE_FAIL - failed))
        return 1
    d = os.path.join(HERE, "seeded", sid)
    os.makedirs(d, exist_ok=True)
    shutil.copy(patch, os.path.join(d, "patch.diff"))
    shutil.copy(demo, os.path.join(d, "demo.rs"))
    # checks against a patched copy
    rc, out = sh(f"{HERE}/tools/mutant_run.sh {patch} /tmp/mt_{sid} " + " ".join(checks), timeout=14400)
    print(out[-3000:])
    caught = {}
    cur = None
    for l in out.splitlines():
        if l.startswith("=== "):
            cur = l.split(" ")[1]
            caught[cur] = []
        elif l.startswith("VIOLATION") and cur:
            caught[cur].append(l.replace(f"/tmp/mt_{sid}/verif", "/verif"))
    ran.append(f"tools/mutant_run.sh patch.diff <scratch> {' '.join(checks)} (checks run against a patched worktree copy)")
    meta = {
        "id": sid, "property": prop, "breaks": prop,
        "needs_to_manifest": needs,
        "written_by": "independent sub-agent given only the property text and a scratch worktree",
        "demo": {"file": "demo.rs", "place_as": os.path.relpath(demo_name, wt), "run": cmd_demo,
                 "passes_without_change": rc0 == 0, "fails_with_change": rc1 != 0},
        "suite_with_change": "only the three baseline failures (asn1rs-model generate::walker::tests::*)",
        "checks": checks,
        "detected_by": {c: v for c, v in caught.items()},
        "what_was_run": ran,
    }
    json.dump(meta, open(os.path.join(d, "meta.json"), "w"), indent=1)
    print("stored", d, "caught by:", [c for c, v in caught.items() if v] or "NOBODY")
    sh(f"git -C /repo worktree remove --force /tmp/mt_{sid}/repo; rm -rf /tmp/mt_{sid}")
    return 0


if __name__ == "__main__":
    sys.exit(main())
