"""C16 — SET components in canonical tag order (X.680 8.6); tags assigned per X.680.

Stream `tags`: the real two-stage generator pipeline (converter -> `#[asn(..)]` source -> attribute
macro -> `AsnDefWriter`) on a module built from the request, against the Lean mirror
`Codegen/Tags.lean`.  Request grammar: see harness/src/tags.rs.

The oracle below knows nothing about the generator.  It computes from the request text alone
  * which components are extension additions (declared after the extension marker),
  * whether automatic tagging applies (no component of the list carries a tag),
  * the tag X.680 gives every component (explicit tag, else the automatic tag, else the tag of
    the type: builtin table, tag of the referenced type, smallest root-alternative tag of an
    untagged CHOICE — whose alternatives are themselves subject to automatic tagging),
  * the order X.691 21.1 prescribes for a SET: the root components in the canonical order of
    X.680 8.6 (class UNIVERSAL < APPLICATION < context-specific < PRIVATE, then number), then the
    extension additions in the order of their definition; SEQUENCE: textual order,
  * the universal tag of the type itself (SEQUENCE 16, SET 17) and of every untagged component
    of a plain type (SET OF 17; a DEFAULT component has the tag of its type),
and compares that with the implementation's answer.
"""
import itertools

import runner
import vlib

CLASS_RANK = {"U": 0, "A": 1, "C": 2, "P": 3}          # X.680 8.6 a)
UNIVERSAL = {                                           # X.680 8.4 table 1
    "bool": 1, "int": 2, "bits": 3, "octs": 4, "null": 5, "enum": 10, "utf8": 12,
    "seq": 16, "seqof": 16, "set": 17, "setof": 17, "num": 18, "print": 19, "ia5": 22, "vis": 26,
}


# ------------------------------------------------------------------------------ request parsing

def split_top(s, sep):
    out, depth, cur = [], 0, []
    for ch in s:
        if ch == "[":
            depth += 1
        elif ch == "]":
            depth -= 1
        if ch == sep and depth == 0:
            out.append("".join(cur))
            cur = []
        else:
            cur.append(ch)
    out.append("".join(cur))
    return out


def parse_tag(t):
    return None if t == "-" else (t[0], int(t[1:]))


def parse_ty(t):
    """('b', kind) | ('r', name) | ('c', [(tag, ty)], index of the first extension alternative or None)"""
    if t in UNIVERSAL:
        return ("b", t)
    if t.startswith("@"):
        return ("r", t[1:])
    assert t.startswith("ch[") and t.endswith("]"), t
    alts, ext = [], None
    for v in split_top(t[3:-1], "|"):
        if v == "...":
            ext = len(alts)
        else:
            tg, ty = v.split("~", 1)
            alts.append((parse_tag(tg), parse_ty(ty)))
    return ("c", alts, ext)


def parse_request(req):
    t = req.split(" ")
    kind = t[1]
    fields, markers = [], []
    if t[2] != "-":
        for it in split_top(t[2], ","):
            if it == "...":
                markers.append(len(fields))
                continue
            name, tg, ty = it.split(":", 2)
            pres = ""
            if ty[-1] in "?!":
                pres, ty = ty[-1], ty[:-1]
            fields.append({"name": name, "tag": parse_tag(tg), "ty": parse_ty(ty), "pres": pres})
    env = {}
    if len(t) > 3 and t[3] != "-":
        for d in split_top(t[3], ";"):
            name, rest = d.split("=", 1)
            tg, ty = rest.split(":", 1)
            env.setdefault(name, (parse_tag(tg), parse_ty(ty)))
    return kind, fields, markers, env


# ------------------------------------------------------------------------------ X.680 semantics

class Illegal(Exception):
    """the module is not legal ASN.1 (or not within the property's domain)"""


def alt_tags(alts, ext, env, path):
    """tags X.680 assigns to the alternatives of a CHOICE: [(in_root, set of tags)]"""
    auto = all(tg is None for tg, _ in alts)
    out = []
    for i, (tg, ty) in enumerate(alts):
        in_root = ext is None or i < ext
        if auto:
            out.append((in_root, {("C", i)}))
        elif tg is not None:
            out.append((in_root, {tg}))
        else:
            out.append((in_root, type_tags(ty, env, path)))
    return out


def type_tags(ty, env, path=()):
    """the set of outermost tags a value of the (untagged) type can carry; a singleton unless the
    type is an untagged CHOICE, then the tags of its root alternatives (X.691 20.1 orders such a
    component by the smallest of them)"""
    if ty[0] == "b":
        return {("U", UNIVERSAL[ty[1]])}
    if ty[0] == "r":
        if ty[1] not in env:
            raise Illegal("undefined reference " + ty[1])
        if ty[1] in path:
            # `A ::= B`, `B ::= A`; `R ::= CHOICE { x [0] BOOLEAN, y R }`: the tag would have to be
            # known to determine itself.  X.680 gives such a type no tag — `A ::= A` defines no type
            # at all (3.8.62 NOTE: a recursive definition must have a finite value), and the
            # alternatives of a CHOICE need *distinct* tags (29.3), which an alternative carrying
            # the tags of the CHOICE itself cannot have.  Not legal ASN.1: outside the oracle's
            # domain, inside the correspondence (the repaired resolver answers "no tag").
            raise Illegal("tag of " + ty[1] + " depends on itself")
        tg, dty = env[ty[1]]
        return {tg} if tg is not None else type_tags(dty, env, path + (ty[1],))
    tags = set()
    for in_root, ts in alt_tags(ty[1], ty[2], env, path):
        if in_root:
            if tags & ts:
                raise Illegal("CHOICE alternatives with equal tags")
            tags |= ts
    if not tags:
        raise Illegal("CHOICE without root alternative")
    return tags


def check_defined(ty, env, seen):
    """every reference reachable from the type is defined; recursion through references is fine
    as long as no tag depends on itself (checked by type_tags where a tag is needed)"""
    if ty[0] == "r":
        if ty[1] not in env:
            raise Illegal("undefined reference " + ty[1])
        if ty[1] not in seen:
            seen.add(ty[1])
            check_defined(env[ty[1]][1], env, seen)
    elif ty[0] == "c":
        type_tags(ty, env)          # alternatives need distinct, well-defined tags
        for _, a in ty[1]:
            check_defined(a, env, seen)


def key(tag):
    return (CLASS_RANK[tag[0]], tag[1])


def tag_str(tag):
    return f"{tag[0]}{tag[1]}"


def analyse(req):
    """everything the property says about the request; raises Illegal outside the domain"""
    kind, fields, markers, env = parse_request(req)
    seen = set()
    for name, (tg, dty) in env.items():
        check_defined(dty, env, seen)
        if tg is None:
            type_tags(dty, env, (name,))     # `A ::= B`, `B ::= A` defines no type at all
    for f in fields:
        check_defined(f["ty"], env, seen)
    n = len(fields)
    if len({f["name"] for f in fields}) != n:
        raise Illegal("duplicate component names")
    if len(markers) > 1:
        raise Illegal("extension end marker / second root component list: outside the domain")
    first = markers[0] if markers else None
    end = n
    is_ext = [first is not None and first <= i < end for i in range(n)]
    auto = all(f["tag"] is None for f in fields)
    # X.680 25.7/25.8: automatic tags number the root components first, then the extension additions
    numbering = [i for i in range(n) if not is_ext[i]] + [i for i in range(n) if is_ext[i]]
    tags, single = [], []
    for i, f in enumerate(fields):
        if f["tag"] is not None:
            ts = {f["tag"]}
        elif auto:
            ts = {("C", numbering.index(i))}
        else:
            ts = type_tags(f["ty"], env)
        tags.append(ts)
        single.append(len(ts) == 1 and not (f["tag"] is None and not auto and is_untagged_choice(f["ty"], env)))
    order_tag = [min(ts, key=key) for ts in tags]
    if kind.rstrip("!") == "set":
        allt = [t for ts in tags for t in ts]
        if len(set(allt)) != len(allt):
            raise Illegal("SET components with equal tags")
        # X.691 21.1: root components in canonical tag order, extension additions as written
        want = sorted((i for i in range(n) if not is_ext[i]), key=lambda i: key(order_tag[i])) + \
            [i for i in range(n) if is_ext[i]]
    else:
        want = list(range(n))
    return {
        "kind": kind.rstrip("!"), "fields": fields, "markers": markers, "env": env, "auto": auto,
        "is_ext": is_ext, "tags": tags, "single": single, "order_tag": order_tag, "want": want,
    }


def is_untagged_choice(ty, env):
    if ty[0] == "c":
        return True
    if ty[0] == "r" and ty[1] in env:
        tg, dty = env[ty[1]]
        return tg is None and is_untagged_choice(dty, env)
    return False


def structural_tag_cyclic(ty, env, path=()):
    """the tag of the (untagged) type, read WITHOUT automatic tagging of CHOICE alternatives (an
    untagged alternative takes the tag of its type — the reading of finding tags.choice-autotag),
    runs into a reference that is being resolved already.  Root alternatives are read left to
    right up to the first one without a tag."""
    if ty[0] == "r":
        if ty[1] not in env:
            return False
        if ty[1] in path:
            return True
        tg, dty = env[ty[1]]
        return tg is None and structural_tag_cyclic(dty, env, path + (ty[1],))
    if ty[0] == "c":
        for i, (tg, a) in enumerate(ty[1]):
            if ty[2] is not None and i >= ty[2]:
                break
            if tg is None:
                if structural_tag_cyclic(a, env, path):
                    return True
                try:
                    type_tags_structural(a, env, path)
                except Illegal:
                    return False        # this alternative has no tag: the later ones are not read
    return False


def type_tags_structural(ty, env, path=()):
    """the smallest tag in the structural reading (no automatic tagging); Illegal when there is none"""
    if ty[0] == "b":
        return ("U", UNIVERSAL[ty[1]])
    if ty[0] == "r":
        if ty[1] not in env or ty[1] in path:
            raise Illegal("no tag")
        tg, dty = env[ty[1]]
        return tg if tg is not None else type_tags_structural(dty, env, path + (ty[1],))
    tags = []
    for i, (tg, a) in enumerate(ty[1]):
        if ty[2] is not None and i >= ty[2]:
            break
        tags.append(tg if tg is not None else type_tags_structural(a, env, path))
    if not tags:
        raise Illegal("no tag")
    return min(tags, key=key)


def follows_auto_choice(ty, env, path=()):
    """the ordering tag of the (untagged) type is taken from a CHOICE none of whose alternatives
    carries a tag, i.e. from an automatically tagged CHOICE"""
    if ty[0] == "r":
        if ty[1] not in env or ty[1] in path:
            return False
        tg, dty = env[ty[1]]
        return tg is None and follows_auto_choice(dty, env, path + (ty[1],))
    if ty[0] == "c":
        if all(tg is None for tg, _ in ty[1]):
            return True
        return any(tg is None and follows_auto_choice(a, env, path)
                   for i, (tg, a) in enumerate(ty[1]) if ty[2] is None or i < ty[2])
    return False


# ------------------------------------------------------------------------------ generator pools

DEFS = {
    "X": "A7:int",                       # tagged definition
    "Y": "-:bool",                       # untagged alias of a builtin
    "Z": "-:@X",                         # reference chain
    "W": "P9:@Y",                        # tagged alias
    "S": "-:seq",
    "Ca": "-:ch[C4~bool|A2~int]",        # untagged CHOICE, all alternatives tagged: A2
    "Cb": "-:ch[-~bool|-~int]",          # untagged CHOICE, no alternative tagged: automatic tags
    "Cc": "-:ch[P5~bool|...|U0~int]",    # extension alternatives do not count: P5
    "Cd": "-:ch[-~@X|C1~null]",          # alternative typed by a reference: A7
    "Ce": "-:ch[-~@Cf|C8~int]",          # nested untagged CHOICE: A3
    "Cf": "-:ch[A3~int|P1~null]",
    "Cg": "A11:ch[-~bool|-~int]",        # tagged CHOICE definition
    "Ch": "-:@Cb",                       # alias of an automatically tagged CHOICE
}


def env_for(atoms, extra=()):
    need, todo = list(extra), [a for a in atoms] + [DEFS[e] for e in extra]
    while todo:
        a = todo.pop()
        i = 0
        while True:
            j = a.find("@", i)
            if j < 0:
                break
            k = j + 1
            while k < len(a) and a[k].isalnum():
                k += 1
            nm = a[j + 1:k]
            if nm in DEFS and nm not in need:
                need.append(nm)
                todo.append(DEFS[nm])
            i = k
    need.sort()
    return ";".join(f"{n}={DEFS[n]}" for n in need) if need else "-"


def render(kind, atoms, markers=(), flags=None, extra_defs=()):
    items = []
    for i, a in enumerate(atoms):
        for m in markers:
            if m == i:
                items.append("...")
        items.append(f"{chr(97 + i)}:{a}{(flags or {}).get(i, '')}")
    for m in markers:
        if m >= len(atoms):
            items.append("...")
    return f"tags {kind} {','.join(items) if items else '-'} {env_for(atoms, extra_defs)}"


# pairwise distinct ordering tags, all four classes explicit + the three kinds of untagged types
POOL_MIXED = ["A1:int", "C2:octs", "P3:bool", "U9:null", "-:bool", "-:@X", "-:@Ca", "-:utf8"]
# the same with the automatically tagged CHOICE (class tags.choice-autotag)
POOL_AUTOCH = ["A1:int", "C2:octs", "P3:bool", "-:@Cb", "-:int", "-:@W"]
# nothing tagged: automatic tagging
POOL_UNTAGGED = ["-:bool", "-:int", "-:@X", "-:@Ca", "-:@Cb", "-:setof", "-:ch[-~null|-~int]"]
# equal keys (outside the oracle's domain, inside the correspondence): stability of the sort
POOL_DUP = ["-:bool", "-:@Y", "U1:int", "-:seq", "-:seqof", "C0:null", "C0:int"]
BIG = ["-:bool", "-:int", "-:bits", "-:octs", "-:null", "-:enum", "-:utf8", "-:num", "-:print",
       "-:vis", "-:ia5", "-:seq", "-:seqof", "-:set", "-:setof",
       "-:@X", "-:@Y", "-:@Z", "-:@W", "-:@S", "-:@Ca", "-:@Cb", "-:@Cc", "-:@Cd", "-:@Ce", "-:@Cg", "-:@Ch",
       "-:ch[C4~bool|A2~int]", "-:ch[-~bool|-~int]", "-:ch[-~@Ca|P7~null]", "-:ch[U8~bool|...|U0~int]"]


class TagsStream(runner.Stream):
    name = "tags"
    prefixes = ["tags"]
    exhaustive = True

    def __init__(self):
        self._open = None

    # -------------------------------------------------------------------------------- generator
    def gen(self, rng, tier):
        reqs = []
        kmax = 4 if tier == "quick" else 5
        # corpus: witnesses of every deviation found, boundary shapes
        reqs += [
            "tags set a:A1:int,c:-:@Cb Cb=-:ch[-~bool|-~int]",          # tags.choice-autotag
            "tags set a:A1:int,c:-:ch[-~bool|-~int]",
            "tags set ...,a:A1:int,b:-:bool",                            # tags.marker-first
            "tags seq ...,a:-:int,b:-:bool",
            # regression corpus of repaired findings (an oracle failure here is a VIOLATION again)
            "tags set a:C0:bool,b:-:setof",                              # was tags.setof-const-tag
            "tags set a:C0:bool,b:-:setof?",
            "tags seq a:C0:bool,b:-:setof",
            "tags set a:C0:bool,b:-:bool!",                              # was tags.default-const-tag
            "tags set a:C0:bool,b:-:int!",
            "tags seq a:P1:null,b:-:bool!,c:-:int!",
            "tags set a:C0:bool,...,b:-:int!",
            # the name of the last root component is a proper prefix of an earlier component's name
            "tags set a1:-:int,b:-:bool,a:-:bool?,...,c:-:int?", "tags seq a1:-:int,b:-:bool,a:-:bool?,...,c:-:int?",
            "tags set a12:C2:int,a1:C1:bool,a:C0:int!,...,c:C5:int?", "tags seq a10:-:int,a1:-:bool!,...,a:-:int?",
            "tags set b2:P1:int,a:A3:bool,b:C0:bool?,...,b1:C7:int?,b22:C6:bool?", "tags set a1:-:int,a:-:bool?,...",
            "tags set a:-:bool",                                         # was tags.set-own-tag
            "tags set a:C1:bool,b:C0:int", "tags set a:-:bool,...,b:-:int", "tags seq a:-:bool",
            # extension additions keep their textual order (was uper.set_additions_sorted, C05:
            # zoo_ver::SetV1 / SetV2 — a later addition with a lower tag)
            "tags set a:C0:int,...,b:C5:bool?",
            "tags set a:C0:int,...,b:C5:bool?,c:C2:int?",
            "tags set b:C1:bool,a:C0:int,...,d:C3:bool?,c:C2:int?",     # zoo_set::SetX
            "tags set a:A1:int,b:-:bool,...,c:C5:null,d:C2:int",
            "tags set c:P3:bool,b:A1:int,...,e:P1:null,d:U9:null,f:-:bool",
            "tags set a:C7:int,...,d:P1:null,c:C2:octs,b:A3:bool,e:U0:null",
            "tags set a:C0:int,...,b:C5:bool!,c:-:setof",
            # more than 20 components (the sort of the standard library changes its algorithm there): the
            # additions all compare equal and must stay in textual order
            "tags set r7:C7:bool,r2:C2:bool,r5:C5:bool,r0:C0:bool,r6:C6:bool,r1:C1:bool,r4:C4:bool,r3:C3:bool,...,e0:C10:int?,e1:C11:int?,e2:C12:int?,e3:C13:int?,e4:C14:int?,e5:C15:int?,e6:C16:int?,e7:C17:int?,e8:C18:int?,e9:C19:int?,e10:C20:int?,e11:C21:int?,e12:C22:int?,e13:C23:int?",
            "tags set r7:C7:bool,r2:C2:bool,r5:C5:bool,r0:C0:bool,...,e0:C40:int?,e1:C39:int?,e2:C38:int?,e3:C37:int?,e4:C36:int?,e5:C35:int?,e6:C34:int?,e7:C33:int?,e8:C32:int?,e9:C31:int?,e10:C30:int?,e11:C29:int?,e12:C28:int?,e13:C27:int?,e14:C26:int?,e15:C25:int?,e16:C24:int?,e17:C23:int?",
            "tags set r7:C7:bool,r2:C2:bool,r5:C5:bool,r0:C0:bool,r6:C6:bool,r1:C1:bool,...,e0:C20:int?,e1:C27:int?,e2:C34:int?,e3:C25:int?,e4:C32:int?,e5:C23:int?,e6:C30:int?,e7:C21:int?,e8:C28:int?,e9:C35:int?,e10:C26:int?,e11:C33:int?,e12:C24:int?,e13:C31:int?,e14:C22:int?,e15:C29:int?",
            "tags set r0:C0:bool,r1:C11:bool,r2:C22:bool,r3:C10:bool,r4:C21:bool,r5:C9:bool,r6:C20:bool,r7:C8:bool,r8:C19:bool,r9:C7:bool,r10:C18:bool,r11:C6:bool,r12:C17:bool,r13:C5:bool,r14:C16:bool,r15:C4:bool,r16:C15:bool,r17:C3:bool,r18:C14:bool,r19:C2:bool,r20:C13:bool,r21:C1:bool,r22:C12:bool",
            # tag numbers of 256 and more
            "tags set a:P0:bool,b:C300:int", "tags set a:C2:bool,b:A1000:int,c:-:bool", "tags set a:C65536:bool,b:A70000:int,c:U255:null,d:U256:null",
            # reference cycles (regression corpus of the repaired finding tags.cyclic-abort; `!` = in a
            # child process, so that a stack overflow would be the answer `abort` of this request)
            "tags set! a:-:@R,b:A1:bool R=-:ch[-~@R|-~int]",             # legal; now tags.choice-autotag
            "tags seq! a:-:@R R=-:ch[-~@R|-~int]",
            "tags set! a:-:int A=-:@B;B=-:@A",                           # not legal ASN.1: no tag
            "tags set! a:-:@A,b:P1:int A=-:@B;B=-:@A",
            "tags set! a:-:@A,b:P1:int A=-:@A",
            "tags set! a:-:@R,b:A1:bool R=-:ch[C0~@R|C1~int]",           # cycle cut by explicit tags
            "tags set! a:C5:@A,b:A1:bool A=P1:@B;B=-:@A",
            "tags set! a:-:int B=-:ch[-~@Nope|-~@B]",                    # collect() stops at the first None
            "tags set! a:-:@R,b:A1:bool R=-:ch[-~int|-~ch[-~@R]]",       # cycle through a nested CHOICE
            "tags set! a:-:@R,b:A1:bool R=-:ch[C3~int|-~@R]",            # not legal: tag depends on itself
            "tags set! a:-:@R,b:-:@R,c:A1:bool R=-:ch[-~@Q|-~int];Q=-:@R",   # every component starts with an empty stack
            "tags set! a:-:@D,b:A1:bool D=-:ch[-~@Y|-~@Y];Y=-:bool",        # the stack is popped: the same name twice, no cycle
            "tags set! a:-:@D,b:A1:bool D=-:ch[-~@Z|-~ch[-~@Z|-~@X]];X=A7:int;Z=-:@X",
            "tags set -", "tags seq -", "tags set ...", "tags seq ...",
            "tags set a:A1:int,b:-:@Nope", "tags seq a:-:int,b:-:@Nope", "tags set a:C1:@Nope,b:-:int",
            "tags set a:C1:ch[-~@Nope],b:-:int", "tags set a:-:@Q,b:A1:bool Q=-:ch[-~@Nope|-~int]",
            "tags set a:A1:int,...,b:-:bool,...", "tags set a:A1:int,...,b:-:bool,...,c:U9:null",
            "tags set a:P4294967296:int,b:P4294967295:bool,c:A999999999999999999:null",
            "tags set a:-:setof,b:-:seqof,c:-:set,d:-:seq,e:-:enum,f:C0:bits",
        ]
        # every builtin kind once, tagged list and untagged list
        for k in UNIVERSAL:
            reqs.append(f"tags set a:P1:null,b:-:{k}")
            reqs.append(f"tags set a:-:null,b:-:{k}?")
            reqs.append(f"tags seq a:P1:null,b:-:{k}")
        # all permutations of all subsets of the pools, every marker position
        def perms(pool, kinds, marker_sets):
            for k in range(1, kmax + 1):
                for atoms in itertools.permutations(pool, k):
                    for kind in kinds:
                        for ms in marker_sets(k, kind):
                            reqs.append(render(kind, atoms, ms))

        def all_markers(k, kind):
            if kind == "seq":
                return [(), (k // 2,)]
            return [()] + [(p,) for p in range(0, k + 1)]

        def some_markers(k, kind):
            return [(), (1,)] if k > 1 else [()]

        perms(POOL_MIXED, ["set", "seq"], all_markers)
        perms(POOL_AUTOCH[:5] if tier == "quick" else POOL_AUTOCH, ["set"], some_markers)
        perms(POOL_UNTAGGED[:6] if tier == "quick" else POOL_UNTAGGED, ["set", "seq"],
              all_markers if tier == "thorough" else some_markers)
        perms(POOL_DUP[:5] if tier == "quick" else POOL_DUP, ["set"], some_markers)
        # random: bigger pools, random tags (also large numbers), OPTIONAL/DEFAULT, 0..2 markers
        n = 6000 if tier == "quick" else 120000
        for _ in range(n):
            k = rng.range(1, kmax)
            atoms, flags = [], {}
            used = set()
            any_tag = rng.chance(3, 4)
            for i in range(k):
                a = rng.choice(BIG)
                ty = a[2:]
                if any_tag and rng.chance(1, 2):
                    cl = rng.choice("UACP")
                    num = rng.choice([0, 1, 2, 3, 5, 9, 30, 31, 127, 128, 4294967295, 4294967296,
                                      999999999999999999]) \
                        if rng.chance(1, 6) else rng.range(0, 12)
                    a = f"{cl}{num}:{ty}"
                atoms.append(a)
                if ty in ("bool", "int") and rng.chance(1, 6):
                    flags[i] = "!"
                elif rng.chance(1, 5):
                    flags[i] = "?"
            r = rng.below(10)
            if r < 4:
                ms = ()
            elif r < 8:
                ms = (rng.range(0, k),)
            else:
                p = rng.range(0, k)
                ms = (p, rng.range(p, k)) if rng.chance(1, 2) else (p, k)
            kind = "seq" if rng.chance(1, 4) else "set"
            extra = [rng.choice(sorted(DEFS))] if rng.chance(1, 8) else []
            reqs.append(render(kind, atoms, ms, flags, extra))
        return reqs

    # ----------------------------------------------------------------------------------- oracle
    def failures(self, req, ans):
        """[(finding class or None, text)] — every way the answer falls short of the property"""
        t = req.split(" ")
        if ans.startswith("imported-differs"):
            # harness/src/tags.rs: the same definitions imported from a sibling module (with a decoy module
            # of the same names loaded as well) must give the answer of the single module
            return [(None, "order / TAG constants depend on whether the referenced types are defined in the module or imported: " + ans[:300])]
        try:
            a = analyse(req)
        except Illegal:
            return []
        if not ans.startswith("ok "):
            if ans == "abort":
                # (was finding tags.cyclic-abort, repaired: TagResolver keeps a stack of the names
                #  being resolved)
                return [(None, "legal module, but the generator does not return (stack overflow, process abort)")]
            if ans == "err other" and any(
                    follows_auto_choice(f["ty"], a["env"]) and structural_tag_cyclic(f["ty"], a["env"])
                    for f in a["fields"]):
                # a legal recursive CHOICE none of whose alternatives carries a tag, e.g.
                # `R ::= CHOICE { x R, y INTEGER }`: automatic tagging gives the alternatives [0] [1],
                # the tag of R is well defined.  The generator ignores the automatic tags (finding
                # tags.choice-autotag), looks for the tag of `x` in R itself, finds none (before the
                # repair: recursed for ever) and prints `complex(R)` without a tag, which stage 2
                # refuses: a compile error for a legal module, same root cause.
                return [("tags.choice-autotag",
                         "legal module (recursive CHOICE, automatic tags well defined), the generator "
                         "finds no tag for it and answers `err other`")]
            if a["markers"] and a["markers"][0] == 0:
                # `SET { ... }`: same root cause as the marker in front of the first component
                return [("tags.marker-first", f"legal module (marker first), the generator answers `{ans}`")]
            return [(None, f"legal module, the generator answers `{ans}`")]
        p = ans.split(" ")
        if len(p) != 5:
            return [(None, "malformed answer")]
        got = [] if p[1] == "-" else p[1].split(",")
        got_tags = [] if p[2] == "-" else p[2].split(",")
        fields, n = a["fields"], len(a["fields"])
        names = [f["name"] for f in fields]
        out = []
        if sorted(got) != sorted(names) or len(got_tags) != len(got):
            return [(None, "emitted components are not a permutation of the declared ones")]
        idx = [names.index(g) for g in got]
        marker_first = bool(a["markers"]) and a["markers"][0] == 0 and n > 0
        if idx != a["want"]:
            want = ",".join(names[i] for i in a["want"])
            if a["kind"] == "seq":
                out.append((None, f"SEQUENCE must keep the textual order {want}"))
            else:
                # which rule is broken decides the class: the order must be right once the
                # components a known deviation is about are taken out.  (A marker in front of the
                # first component no longer excuses a wrong order: every component is an addition
                # then and additions stay as written; extension additions emitted in another than
                # their textual order — the repaired finding uper.set_additions_sorted — are a
                # violation.)
                autoch = set() if a["auto"] else {
                    i for i, f in enumerate(fields)
                    if f["tag"] is None and not a["is_ext"][i] and follows_auto_choice(f["ty"], a["env"])}

                def right_without(drop):
                    return bool(drop) and [i for i in idx if i not in drop] == \
                        [i for i in a["want"] if i not in drop]
                cls = None
                if right_without(autoch):
                    cls = "tags.choice-autotag"
                desc = ", ".join(f"{names[i]}={'ext ' if a['is_ext'][i] else ''}{tag_str(a['order_tag'][i])}"
                                 for i in range(n))
                out.append((cls, f"order per X.691 21.1 is {want} ({desc}; root components by tag, "
                                 f"extension additions as written), emitted {p[1]}"))
        # tags assigned to the components
        for g, gt in zip(idx, got_tags):
            if not a["single"][g]:
                continue          # an untagged CHOICE component has no tag of its own
            want_t = tag_str(next(iter(a["tags"][g])))
            if gt != want_t:
                # (were findings tags.default-const-tag / tags.setof-const-tag for untagged DEFAULT
                #  and SET OF components; repaired in write_field_constraint)
                out.append((None, f"component {names[g]} has tag {want_t}, TAG constant is {gt}"))
        # root / extension split as the descriptor states it
        roots = sum(1 for e in a["is_ext"] if not e)
        if not a["markers"]:
            want_ext = "none"
        elif roots == 0 and n > 0:
            want_ext = "no-root-component"
        else:
            want_ext = str(max(roots - 1, 0)) if n > 0 else None
        if want_ext is not None and p[3] != want_ext:
            cls = "tags.marker-first" if marker_first else None
            out.append((cls, f"{roots} root components, EXTENDED_AFTER_FIELD is {p[3]}"))
        own = "U17" if a["kind"] == "set" else "U16"
        if p[4] != own:
            # (was finding tags.set-own-tag for SET; repaired in write_sequence_or_set_constraint)
            out.append((None, f"the type's own tag is {own}, TAG constant is {p[4]}"))
        return out

    def _pick(self, req, ans):
        fl = self.failures(req, ans)
        if not fl:
            return None
        if self._open is None:
            self._open = {f.get("class") for f in vlib.load_findings("C16")}
        for c, w in fl:
            if c not in self._open:
                return (c, w)
        return fl[0]

    def oracle(self, req, ans):
        f = self._pick(req, ans)
        return None if f is None else f[1]

    def finding_class(self, req, ans):
        f = self._pick(req, ans)
        return None if f is None else f[0]

    # -------------------------------------------------------------------------------- histogram
    def tag(self, req, ans):
        t = req.split(" ")
        try:
            kind, fields, markers, env = parse_request(req)
        except Exception:
            return "unparsed"
        n = len(fields)
        auto = "auto" if all(f["tag"] is None for f in fields) else "tagged"
        if not markers:
            m = "nomark"
        elif len(markers) > 1:
            m = "2mark"
        elif markers[0] == 0:
            m = "mark-first"
        elif markers[0] >= n:
            m = "mark-end"
        else:
            m = "mark-mid"
        a = ans.split(" ")
        if a[0] == "ok" and len(a) == 5:
            names = [f["name"] for f in fields]
            res = "textual" if a[1] == (",".join(names) or "-") else "reordered"
        else:
            res = ans.replace(" ", ":")
        try:
            analyse(req)
            dom = "legal"
        except Illegal:
            dom = "outside"
        return f"{kind}:{auto}:{m}:{res}:{dom}"

    def nontrivial(self, req, ans):
        # at least two components: there is an order to decide
        return ans.startswith("ok ") and \
            len([x for x in split_top(req.split(" ")[2], ",") if x != "..."]) >= 2


class TagsCorpus(TagsStream):
    """the TAG constant and canonical position of a component of EVERY builtin kind, untagged next to an explicitly
    tagged sibling (automatic tagging off) — included by C08: the constants of the macro expansion carry the tags"""
    name = "tags-corpus"

    def gen(self, rng, tier):
        reqs = []
        for k in sorted(UNIVERSAL):
            if k in ("seq", "set"):
                continue
            for pres in ("", "?", "!") if k in ("bool", "int") else ("", "?"):
                reqs.append(f"tags set a:C0:bool,b:-:{k}{pres}")
                reqs.append(f"tags seq a:P1:null,b:-:{k}{pres}")
                reqs.append(f"tags set z:-:{k}{pres},a:A1:int,m:-:ia5")
        return reqs


class Spec(runner.Spec):
    prop = "C16"
    streams = [TagsStream()]
    assumptions = [
        "the module header's tagging mode is ignored by the crate (it always behaves like AUTOMATIC TAGS); the generated modules say AUTOMATIC TAGS, so X.680's automatic tagging is the reference",
        "extension additions of a SET follow the root components in the order of their definition (X.691 21.1: only the RootComponentTypeList is sorted into the canonical order; the property's 'root components before extension additions' is read that way since the repair of sort_fields_canonically — sorting the additions among themselves breaks C05)",
        "a second root component list after the extension additions (`a, ..., b, ..., c`) is outside the domain (the crate's grammar has one `extension_after` index)",
        "duplicate tags within one SET, undefined references and modules in which a tag depends on itself (`A ::= B`, `B ::= A`; X.680 gives such a type no tag, it is not legal ASN.1) are outside the oracle's domain; they stay in the correspondence stream (stability of the sort, compile error, 'no tag' for a reference cycle)",
        "imports / multi-module scopes are not modelled in Lean (one module per request); the harness answers every request with definitions a second time with the definitions imported from a sibling module while a third loaded module defines types of the same names with other tags, in three load orders: `imported-differs` when the answer is not the one of the single module",
        "wire order for values is covered by the uper stream; here the order of the read_value/write_value calls in the generated read_seq/write_seq is taken as the wire and presence-bit order",
        "Rust semantics of the mirrored functions is tied to the Lean mirror only by differential execution (stream `tags`)",
    ]
    trusted_base = [
        "Lean 4.33 kernel; axioms per theorem listed under coverage.theorems (allowed: propext, Classical.choice, Quot.sound)",
        "tools/extract_consts.py (TAG_RANK_*, TAG_DEFAULT_*, TAG_ORD_DERIVED)",
        "hand-written mirror Codegen/Tags.lean of tag.rs, tag_resolver.rs, components.rs, rust.rs, generate/walker.rs — tied by the correspondence stream",
        "harness/src/tags.rs (drives converter + attribute macro, reads order and TAG constants off the generated text), Driver/TagsStream.lean, tools/checks/c16.py (X.680 8.6 / automatic tagging oracle in Python)",
    ]
