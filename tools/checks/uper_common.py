"""assumptions / trusted base shared by the UPER checks"""
ASSUMPTIONS = [
    "dev profile (overflow checks, debug assertions), as used by the project's tests; release profile not modelled",
    "the compositional mirror Uper/Impl.lean is tied to the position-patching UperWriter/UperReader (a) by differential execution over the compiled zoo (valid values, violations, version pairs, hostile bits) and (b) through the faithful model of the Scope state machine Uper/Scope.lean (positions, calls_until_ext_bitfield, sub-writers): Props/Scope.lean proves that it refines the mirror (writer: every descriptor and value, no patch beyond the written length; reader: every descriptor without a mandatory SEQUENCE/SET-typed extension addition, which the converter never generates), and the driver answers every request below 24000 characters with both models (`scope-mismatch` on a difference)",
    "types: the zoo harness/zoo/*.asn1 compiled by the real converter (about 300 types); descriptors are what the codec sees through its Constraint traits",
    "u64 values >= 2^63 and literal upper bounds of exactly i64::MAX are outside the profile (DESIGN.md 4.2)",
]
TRUSTED = [
    "Lean 4.33 kernel; axioms per theorem under coverage.theorems (allowed: propext, Classical.choice, Quot.sound)",
    "tools/extract_consts.py (PER thresholds)",
    "hand-written mirrors Per/Prim.lean, Uper/Impl.lean; specification X691/Prim.lean, X691/Encode.lean transcribed from X.691 (08/2015) from memory, cross-checked by the vectors pinned in /repo/tests",
    "harness/src/dynval.rs (TyGen/TreeWriter/ValReader over the public Reader/Writer traits), harness/src/uper.rs, Driver/UperStream.lean, tools/uper_streams.py",
]
