"""assumptions / trusted base shared by the UPER checks"""
ASSUMPTIONS = [
    "dev profile (overflow checks, debug assertions), as used by the project's tests; release profile not modelled",
    "the compositional mirror Uper/Impl.lean is tied to the position-patching UperWriter/UperReader only by differential execution over the compiled zoo (valid values, violations, version pairs, hostile bits)",
    "types: the zoo harness/zoo/*.asn1 compiled by the real converter (about 300 types); descriptors are what the codec sees through its Constraint traits",
    "u64 values >= 2^63 and literal upper bounds of exactly i64::MAX are outside the profile (DESIGN.md 4.2)",
]
TRUSTED = [
    "Lean 4.33 kernel; axioms per theorem under coverage.theorems (allowed: propext, Classical.choice, Quot.sound)",
    "tools/extract_consts.py (PER thresholds)",
    "hand-written mirrors Per/Prim.lean, Uper/Impl.lean; specification X691/Prim.lean, X691/Encode.lean transcribed from X.691 (08/2015) from memory, cross-checked by the vectors pinned in /repo/tests",
    "harness/src/dynval.rs (TyGen/TreeWriter/ValReader over the public Reader/Writer traits), harness/src/uper.rs, Driver/UperStream.lean, tools/uper_streams.py",
]
