"""C08 — generated Rust code carries the whole model (codegen is invertible).

Stream `attr`:
  attr print <spec>                  spec -> real generator -> attribute text -> proc_macro2 tokens
  attr prt <spec>                    … -> real attribute parser -> spec   (oracle: the same spec)
  attr rt <hex text> <hex rust type> attribute text (also malformed) -> real attribute parser -> spec | err
  attr reparse <hex module text>     Tokenizer -> Model -> resolve -> to_rust -> RustCodeGenerator ->
                                     proc_macro::parse_asn_definition per item -> to_rust_keep_names,
                                     compared per definition with the Rust model the generator had
The model (Codegen/Attr.lean) answers print / prt / rt; `reparse` is implementation-only.
"""
import glob
import os
import re

import runner
import vlib
from vlib import hexs
from checks import c09 as gen9
import uper_streams
import consts_stream
from checks import c12, c16

I64_MIN = -(2 ** 63)
I64_MAX = 2 ** 63 - 1


def hx(s):
    return hexs(s.encode())


# ------------------------------------------------------------------------------------- spec language

def sp_size(rng):
    c = rng.below(6)
    if c <= 1:
        return "any"
    if c == 2:
        return f"fix({rng.choice([0, 1, 2, 8, 255, 65536])},{rng.below(2)})"
    a = rng.choice([0, 0, 1, 2, 5])
    b = a + rng.choice([1, 2, 10, 250, 70000])
    return f"range({a},{b},{rng.below(2)})"


def sp_int(rng, consts_ok=True):
    c = rng.below(10)
    if c == 0:
        mn, mx = "none", "none"
    elif c == 1:
        mn, mx = "none", str(rng.choice([1, 5, 255, I64_MAX]))
    elif c == 2:
        mn, mx = str(rng.choice([0, 1, 5, 300])), "none"
    else:
        lo = rng.choice([0, 0, 1, -1, -5, -128, -32768, I64_MIN, 7, 256])
        hi = lo + rng.choice([0, 1, 2, 100, 255, 65535, 2 ** 32]) if lo > I64_MIN else rng.choice([-1, 0, 5, I64_MAX])
        hi = min(hi, I64_MAX)
        mn, mx = str(lo), str(hi)
    cs = "-"
    if consts_ok and rng.chance(1, 4):
        cs = ":".join(f"{rng.choice(['A', 'B_C', 'ONE', 'X9', 'ZERO'])}{i}={rng.choice([0, 1, 7, -2, 255, I64_MAX, I64_MIN])}"
                      for i in range(rng.range(1, 3)))
    return f"int({mn},{mx},{rng.below(2)},{cs})"


def sp_tag(rng):
    c = rng.below(8)
    if c <= 3:
        return "none"
    return rng.choice(["u", "a", "c", "p"]) + str(rng.choice([0, 1, 2, 16, 30, 31, 1023]))


def sp_type(rng, depth, top=False):
    c = rng.below(14 if depth < 3 else 8)
    if c == 0:
        return "bool"
    if c == 1:
        return "null"
    if c in (2, 3):
        return sp_int(rng, consts_ok=True)
    if c == 4:
        return f"str({rng.choice(['utf8', 'numeric', 'printable', 'ia5', 'visible'])},{sp_size(rng)})"
    if c == 5:
        return f"oct({sp_size(rng)})"
    if c == 6:
        return f"bits({sp_size(rng)})"
    if c == 7:
        return f"ref({rng.choice(['Foo', 'Bar', 'MyType', 'T1'])},{rng.choice(['u16', 'u17', 'u10', 'a3', 'c0', 'p9', 'none'])})"
    if c in (8, 9):
        return f"opt({sp_type(rng, depth + 1)})"
    if c in (10, 11):
        inner_kind = rng.below(6)
        if inner_kind == 0:
            return f"def(bool,b{rng.below(2)})"
        if inner_kind == 1:
            return f"def({sp_int(rng, consts_ok=rng.chance(1, 3))},i{rng.choice([0, 1, -1, 5, -300, I64_MAX, I64_MIN])})"
        if inner_kind == 2:
            s = rng.choice(["", "a", "hello world", "x,y(z)", "tab\\there", 'q"uote', "a\\\\b"])
            return f"def(str({rng.choice(['utf8', 'ia5'])},{sp_size(rng)}),s{hexs(s.encode())})"
        if inner_kind == 3:
            return f"def(oct({sp_size(rng)}),o{hexs(rng.bytes(rng.range(0, 3)))})"
        if inner_kind == 4:
            return f"def(ref(Foo,u10),e{rng.choice(['Foo', 'foo-bar', 'My-Enum'])}.{rng.choice(['abc', 'def-g', 'xY'])})"
        return f"def({sp_type(rng, depth + 1)},i1)"
    return f"{rng.choice(['seqof', 'setof'])}({sp_size(rng)},{sp_type(rng, depth + 1)})"


FIXED_SPECS = [
    "bool;none", "null;none", "int(none,none,0,-);none", "int(none,none,1,-);none", "int(0,255,0,-);none",
    "int(0,255,1,-);c3", "int(-5,10,0,A=1:B_C=-2);a3", "int(none,5,0,-);none", "int(none,5,1,-);none",
 "int(5,none,1,-);none", "int(0,none,1,-);none",
    f"int({I64_MIN},{I64_MAX},0,-);none", f"int(0,{I64_MAX},0,-);none", "int(0,0,0,-);none", "int(7,7,1,-);none",
    "str(utf8,any);none", "str(ia5,fix(3,0));u22", "str(numeric,fix(3,1));none", "str(printable,range(1,5,0));none",
    "str(visible,range(1,5,1));p2", "str(utf8,range(0,5,0));none", "str(utf8,fix(0,0));none",
    "oct(any);none", "oct(fix(2,0));none", "oct(range(1,2,1));none", "bits(any);none", "bits(fix(8,1));none",
    "bits(range(1,16,0));c0", "opt(bool);none", "opt(int(0,7,0,X=1));none", "opt(opt(int(0,7,0,X=1)));none",
    "def(bool,b1);none", "def(bool,b0);none", "def(int(0,7,0,-),i3);none", "def(int(-9,7,0,-),i-3);none",
    "def(int(none,none,0,-),i5);none", "def(int(0,7,0,K=1),i3);none",
    "def(str(utf8,any),s68656c6c6f);none", "def(str(utf8,any),s-);none", "def(oct(any),oab);none", "def(oct(any),o-);none",
    "def(ref(Foo,u10),eFoo.bar-baz);none", "def(ref(Foo,u10),efoo-bar.xY);none",
    "seqof(any,bool);none", "seqof(fix(3,0),int(0,1,0,-));none", "setof(range(1,4,1),str(utf8,range(1,2,0)));c7",
    "seqof(any,seqof(any,setof(fix(2,0),ref(Foo,u16))));none", "seqof(any,opt(bool));none",
    "seqof(any,int(0,7,0,C=1));none", "ref(Foo,u16);none", "ref(Foo,u16);c2", "ref(Foo,none);none", "ref(Foo,none);c2",
    "opt(ref(Foo,u16));none", "opt(ref(Foo,none));none", "opt(ref(Foo,a3));c2",
]

ATTR_TEXTS = [
    ("integer", "u64"), ("INTEGER", "u64"), ("integer()", "u64"), ("integer(min..max)", "u64"), ("integer(MIN..MAX)", "u64"),
    ("integer(0..max)", "u64"), ("integer(0..255)", "u8"), ("integer(-5..5)", "i8"), ("integer(0..255,...)", "u8"),
    ("integer(min..5)", "u8"), ("integer(min..-5)", "i8"), ("integer(5..max)", "u64"), ("integer, tag(3)", "u64"),
    ("integer(), tag(3)", "u64"), ("integer(0..5), tag(3)", "u8"), ("integer(0..5), tag(APPLICATION(3))", "u8"),
    ("integer(0..5), tag(universal(3))", "u8"), ("integer(0..5), tag(Private(3)), const(A(1), B(-2))", "u8"),
    ("integer(0..5), const(A(1)), tag(3)", "u8"), ("integer(0..5), const()", "u8"), ("integer(0..5), const(A(1),)", "u8"),
    ("integer(0..5), tag(3), tag(4)", "u8"), ("integer(0..5),", "u8"), ("integer(0..5) tag(3)", "u8"),
    ("integer(0..5), extensible_after(x)", "u8"), ("integer(0..5), bogus(3)", "u8"), ("integer(0..5,)", "u8"),
    ("integer(0 .. 5)", "u8"), ("integer(0..5, ...)", "u8"), ("integer(0..5 6)", "u8"), ("integer(5)", "u8"),
    ("integer(0..9223372036854775807)", "u64"), ("integer(0..9223372036854775808)", "u64"),
    ("integer(-9223372036854775808..0)", "i64"), ("integer(-9223372036854775809..0)", "i64"),
    ("integer(0x10..0x20)", "u8"), ("integer(a..5)", "u8"), ("integer(0..5), tag(3 4)", "u8"), ("integer(0..5), tag(3u8)", "u8"),
    ("integer(0..5), tag(UNIVERSAL(3) x)", "u8"), ("integer(0..5), tag(UNIVERSAL(3 4))", "u8"), ("integer(0..5), tag()", "u8"),
    ("integer(0..5), tag(FOO(3))", "u8"), ("integer(0..5), tag(-3)", "u8"), ("integer(0..5), tag", "u8"),
    ("boolean", "bool"), ("BOOLEAN", "bool"), ("boolean()", "bool"), ("boolean, tag(1)", "bool"), ("boolean,", "bool"), ("null", "Null"),
    ("utf8string", "String"), ("utf8string()", "String"), ("utf8string(size(1..4))", "String"), ("utf8string(size(4))", "String"),
    ("utf8string(size(4,...))", "String"), ("utf8string(size(1..4,...))", "String"), ("utf8string(size(4..4))", "String"),
    ("utf8string(size(min..4))", "String"), ("utf8string(size(1..max))", "String"), ("utf8string(size(-1..4))", "String"),
    ("utf8string(size(1..4) x)", "String"), ("utf8string(size(1..4), x)", "String"), ("utf8string(length(4))", "String"),
    ("UTF8String(SIZE(1..4))", "String"), ("ia5string(size(1))", "String"), ("numericstring", "String"), ("printablestring", "String"),
    ("visiblestring(size(1..2))", "String"), ("bmpstring", "String"), ("string", "String"), ("octet_string", "Vec<u8>"),
    ("octet_string(size(2))", "Vec<u8>"), ("bit_string", "BitVec"), ("bit_string()", "BitVec"), ("bit_string(size(1..8,...))", "BitVec"),
    ("optional(boolean)", "Option<bool>"), ("option(boolean)", "Option<bool>"), ("optional(integer(0..5)), const(A(1))", "Option<u8>"),
    ("optional(optional(integer(0..5))), const(A(1))", "Option<Option<u8>>"), ("optional()", "Option<bool>"),
    ("optional(boolean, null)", "Option<bool>"), ("optional(boolean null)", "Option<bool>"), ("optional boolean", "Option<bool>"),
    ("default(integer, 5)", "u64"), ("default(integer(0..9), 5)", "u8"), ("default(integer(-9..9), -5)", "i8"),
    ("default(integer(0..9), 5), const(A(1))", "u8"), ("default(boolean, true)", "bool"), ("default(boolean, false)", "bool"),
    ("default(utf8string, \"abc\")", "String"), ("default(utf8string, \"\")", "String"), ("default(octet_string, [0xab, ])", "Vec<u8>"),
    ("default(octet_string, b\"ab\")", "Vec<u8>"), ("default(integer(0..255), b'a')", "u8"), ("default(integer(0..255), 0x10)", "u8"),
    ("default(complex(Foo, tag(UNIVERSAL(10))), Foo::Bar)", "Foo"), ("default(complex(Foo, tag(UNIVERSAL(10))), Bar)", "Foo"),
    ("default(complex(Foo, tag(UNIVERSAL(10))), a::Foo::Bar)", "Foo"), ("default(boolean)", "bool"), ("default(boolean, )", "bool"),
    ("default(boolean, true false)", "bool"), ("default(integer, 1.5)", "u64"), ("default(integer, 99999999999999999999)", "u64"),
    ("complex(Foo, tag(UNIVERSAL(16)))", "Foo"), ("complex(Foo, tag(3))", "Foo"), ("complex(Foo)", "Foo"), ("complex(Foo, TAG(3))", "Foo"),
    ("complex(Foo, tag(3)), tag(4)", "Foo"), ("complex(Foo, tag(3), x)", "Foo"), ("complex(Foo, bogus(3))", "Foo"),
    ("complex(Foo, tag(UNIVERSAL(16)))", "Option<Foo>"), ("complex(foo::Foo, tag(3))", "Foo"),
    ("sequence_of(boolean)", "Vec<bool>"), ("sequence_of(size(1..2), boolean)", "Vec<bool>"), ("sequence_of(size(2), integer(0..1))", "Vec<u8>"),
    ("set_of(size(1..2,...), utf8string(size(3)))", "Vec<String>"), ("sequence_of(size(1..2) boolean)", "Vec<bool>"),
    ("sequence_of(size(1..2), )", "Vec<bool>"), ("sequence_of()", "Vec<bool>"), ("sequence_of(boolean, null)", "Vec<bool>"),
    ("sequence_of(sequence_of(set_of(complex(Foo, tag(UNIVERSAL(16))))))", "Vec<Vec<Vec<Foo>>>"), ("SEQUENCE_OF(BOOLEAN)", "Vec<bool>"),
    ("sequence_of(integer(0..7)), const(A(1))", "Vec<u8>"), ("sequence_of(integer)", "Vec<u64>"), ("sequence_of(integer, )", "Vec<u64>"),
    ("sequence", "Foo"), ("choice", "Foo"), ("enumerated", "Foo"), ("transparent", "Foo"), ("", "u8"), ("5", "u8"), (",", "u8"),
    ("(boolean)", "bool"), ("\"boolean\"", "bool"),
]

def tx_case(rng, w):
    c = rng.below(8)
    return w.upper() if c == 0 else (w.capitalize() if c == 1 else w)


def tx_size(rng):
    c = rng.below(7)
    a = rng.choice([0, 1, 2, 5, 255])
    b = a + rng.choice([0, 1, 3, 1000])
    e = rng.choice(["", "", ",...", ", ..."])
    if c == 0:
        return ""
    if c == 1:
        return "()"
    if c == 2:
        return f"({tx_case(rng, 'size')}({a}{e}))"
    if c == 3:
        return f"(size({rng.choice(['min', str(a)])}..{rng.choice(['max', str(b)])}{e}))"
    return f"(size({a}..{b}{e}))"


def tx_tag(rng):
    n = rng.choice([0, 1, 3, 16, 31, 1023])
    c = rng.below(5)
    if c == 0:
        return f"tag({n})"
    return f"tag({tx_case(rng, rng.choice(['UNIVERSAL', 'APPLICATION', 'PRIVATE']))}({n}))"


def tx_type(rng, depth):
    """(attribute type text, a Rust type text for the field)"""
    c = rng.below(13 if depth < 3 else 8)
    if c == 0:
        return tx_case(rng, "boolean"), "bool"
    if c == 1:
        return tx_case(rng, "null"), "Null"
    if c in (2, 3):
        k = rng.below(7)
        e = rng.choice(["", "", ",...", " , ..."])
        lo = rng.choice([0, 0, 1, -1, -128, 7, I64_MIN])
        hi = rng.choice([0, 1, 255, 65535, I64_MAX]) if lo <= 0 else lo + rng.choice([0, 9])
        if k == 0:
            return tx_case(rng, "integer") + ("()" if rng.chance(1, 2) and depth == 0 else ("" if depth > 0 or rng.chance(1, 2) else "()")), "u64"
        if k == 1:
            return f"integer({tx_case(rng, 'min')}..{tx_case(rng, 'max')}{e})", "u64"
        if k == 2:
            return f"integer(min..{hi}{e})", "u64"
        if k == 3:
            return f"integer({lo}..max{e})", "u64"
        return f"integer({lo}..{hi}{e})", "i64"
    if c == 4:
        return tx_case(rng, rng.choice(["utf8string", "ia5string", "numericstring", "printablestring", "visiblestring"])) + tx_size(rng), "String"
    if c == 5:
        return tx_case(rng, "octet_string") + tx_size(rng), "Vec<u8>"
    if c == 6:
        return tx_case(rng, "bit_string") + tx_size(rng), "BitVec"
    if c == 7:
        return f"complex({rng.choice(['Foo', 'Bar'])}, {tx_case(rng, 'tag')}{tx_tag(rng)[3:]})", "Foo"
    if c in (8, 9):
        t, r = tx_type(rng, depth + 1)
        return f"{rng.choice(['optional', 'option', 'Optional'])}({t})", f"Option<{r}>"
    if c == 10:
        t, r = tx_type(rng, depth + 1)
        lit = rng.choice(["5", "-5", "0", "true", "false", '"abc"', '""', "Foo::Bar", "Foo::bar_baz", "0x1f", str(I64_MAX), str(I64_MIN), "1.5", "[0xab, ]"])
        return f"default({t}, {lit})", r
    t, r = tx_type(rng, depth + 1)
    sz = rng.choice(["", "", "size(3), ", "size(1..4), ", "size(1..4,...), ", "SIZE(2,...), "])
    return f"{tx_case(rng, rng.choice(['sequence_of', 'set_of']))}({sz}{t})", f"Vec<{r}>"


def tx_attr(rng):
    t, r = tx_type(rng, 0)
    parts = [t]
    if rng.chance(1, 3):
        parts.append(tx_tag(rng))
    if rng.chance(1, 4):
        parts.append("const(" + ", ".join(f"{rng.choice(['A', 'B_C', 'X9'])}({rng.choice([0, 1, -2, 255, I64_MAX])})" for _ in range(rng.range(1, 3))) + ")")
    if rng.chance(1, 8):
        parts.reverse()
    return ", ".join(parts), r


TOKEN_RE = re.compile(r'"[^"]*"|[A-Za-z_][A-Za-z0-9_]*|0x[0-9a-fA-F]+|\d+|::|\S')


def mutate(rng, text):
    toks = TOKEN_RE.findall(text)
    if not toks:
        return text
    for _ in range(1):
        c = rng.below(6)
        i = rng.below(len(toks))
        if c == 0 and len(toks) > 1:
            del toks[i]
        elif c == 1:
            toks.insert(i, toks[i])
        elif c == 2 and i + 1 < len(toks):
            toks[i], toks[i + 1] = toks[i + 1], toks[i]
        elif c == 3:
            toks[i] = rng.choice(["0", "5", "-", "min", "max", "size", "tag", ",", ".", "..", "...", "boolean", "integer", "x", "18446744073709551616", "(", ")"])
        elif c == 4:
            toks.insert(i, rng.choice([",", ".", "x", "7", "-"]))
        else:
            toks[i] = toks[i].upper() if toks[i].islower() else toks[i].lower()
    # keep groups balanced: the lexer of both sides rejects anything else
    s = " ".join(toks)
    depth = 0
    for ch in s:
        if ch in "([":
            depth += 1
        elif ch in ")]":
            depth -= 1
            if depth < 0:
                return text
    return s if depth == 0 else text


# ---------------------------------------------------------------------------------- module corpus

def repo_modules():
    """module texts of the repository's own tests (`asn_to_rust!(r"…")`) and .asn1 files"""
    out = []
    for path in sorted(glob.glob(os.path.join(vlib.REPO, "tests", "*.rs"))):
        src = open(path, encoding="utf-8").read()
        for m in re.finditer(r'asn_to_rust!\(\s*r(#*)"(.*?)"\1\s*\)', src, flags=re.S):
            out.append(m.group(2))
        for m in re.finditer(r'r(#*)"(\s*\w[\w-]*\s+DEFINITIONS.*?END\s*)"\1', src, flags=re.S):
            out.append(m.group(2))
    for pat in ("tests/**/*.asn1", "tests/**/*.asn", "resources/**/*.asn1", "resources/**/*.asn", "**/*.asn1"):
        for path in sorted(glob.glob(os.path.join(vlib.REPO, pat), recursive=True)):
            if "/target/" in path:
                continue
            try:
                out.append(open(path, encoding="utf-8").read())
            except (OSError, UnicodeDecodeError):
                pass
    return list(dict.fromkeys(out))


def own_modules(rng, tier):
    F, M = gen9.field, gen9.mod
    BOOL, U8, INT, UTF8, OCT, BITS, NUL = gen9.BOOL, gen9.U8, gen9.INT, gen9.UTF8, gen9.OCT, gen9.BITS, gen9.NUL
    out = []
    ints = [INT, U8, {"k": "int", "lo": -5, "hi": 5}, {"k": "int", "lo": 0, "hi": 65535}, {"k": "int", "lo": 0, "hi": 4294967296},
            {"k": "int", "lo": None, "hi": 5}, {"k": "int", "lo": 5, "hi": None}, {"k": "int", "lo": 0, "hi": None},
            {"k": "int", "lo": None, "hi": 5, "ext": True}, {"k": "int", "lo": None, "hi": -5, "ext": True},
            {"k": "int", "lo": 5, "hi": None, "ext": True}, {"k": "int", "lo": 0, "hi": None, "ext": True},
            {"k": "int", "lo": 0, "hi": 255, "ext": True}, {"k": "int", "lo": -5, "hi": 5, "ext": True},
            {"k": "int", "lo": None, "hi": None, "ext": False, "named": [["one", 1], ["two-b", 2]]},
            {"k": "int", "lo": 0, "hi": 7, "named": [["one", 1], ["neg", -2]]},
            {"k": "int", "lo": -9223372036854775808, "hi": 9223372036854775807}]
    for t in ints:
        out.append(M("M", [("T", {"k": "seq", "fields": [F("a", t)]})]))
        out.append(M("M", [("I", t)]))
        out.append(M("M", [("T", {"k": "seq", "fields": [F("a", t, opt=True)]})]))
        out.append(M("M", [("L", {"k": "seqof", "of": t})]))
        out.append(M("M", [("C", {"k": "choice", "alts": [F("a", t), F("b", BOOL)]})]))
    sizes = [None, [3, 3, False], [3, 3, True], [1, 5, False], [1, 5, True], [0, 5, False], [0, 0, False], [1, "MAX", False], ["MIN", 5, False]]
    for sz in sizes:
        for base in ({"k": "str", "cs": "UTF8String"}, {"k": "str", "cs": "IA5String"}, {"k": "octets"}, {"k": "bits"},
                     {"k": "seqof", "of": BOOL}, {"k": "setof", "of": U8}):
            t = dict(base)
            if sz:
                t["size"] = sz
            out.append(M("M", [("T", {"k": "seq", "fields": [F("a", t)]}), ("D", t)]))
    for cs in ("NumericString", "PrintableString", "VisibleString"):
        out.append(M("M", [("T", {"k": "seq", "fields": [F("a", {"k": "str", "cs": cs, "size": [1, 4, False]})]})]))
    dfl = [(INT, "5"), ({"k": "int", "lo": -10, "hi": 10}, "-3"), (U8, "200"), (BOOL, "TRUE"), (BOOL, "FALSE"),
           (UTF8, '"some text"'), (UTF8, '"a\\nb"'), (UTF8, '""'), ({"k": "str", "cs": "IA5String"}, '"abc"'),
           (OCT, "'AB'H"), (BITS, "'0101'B"), ({"k": "int", "lo": 0, "hi": 7, "named": [["one", 1]]}, "1"),
           ({"k": "int", "lo": 0, "hi": 255, "ext": True}, "7")]
    for t, lit in dfl:
        out.append(M("M", [("T", {"k": "seq", "fields": [F("a", BOOL), F("d", t, dflt=lit)]})]))
    out.append(M("M", [("E", {"k": "enum", "items": ["abc", "def-g"]}),
                       ("T", {"k": "seq", "fields": [F("e", {"k": "ref", "name": "E"}, dflt="def-g")]})]))
    out.append(M("M", [("T", {"k": "seq", "fields": [F("b", {"k": "bits", "named": [["first", 0], ["second-bit", 1]], "size": [2, 8, False]})]})]))
    out.append(M("M", [("B", {"k": "bits", "named": [["first", 0], ["second-bit", 1]]})]))
    # tags of every class on definitions, components, alternatives; extension markers
    for tag in ("[3]", "[APPLICATION 2]", "[PRIVATE 9]", "[UNIVERSAL 5]"):
        out.append(M("M", [("T", {"k": "seq", "tag": tag, "fields": [F("a", dict(BOOL, tag="[7]")), F("b", dict(U8, tag=tag))]})]))
        out.append(M("M", [("C", {"k": "choice", "tag": tag, "alts": [F("a", dict(BOOL, tag=tag)), F("b", U8)]})]))
        out.append(M("M", [("E", {"k": "enum", "tag": tag, "items": ["a", "b"]})]))
        out.append(M("M", [("I", dict(U8, tag=tag)), ("L", {"k": "seqof", "tag": tag, "of": BOOL}), ("R", {"k": "ref", "name": "I", "tag": tag})]))
    for ext in (0, 1, 2):
        out.append(M("M", [("T", {"k": "seq", "fields": [F("a", BOOL), F("b", U8), F("c", UTF8, opt=True)], "ext": ext})]))
        out.append(M("M", [("T", {"k": "set", "fields": [F("a", BOOL), F("b", U8), F("c", UTF8, opt=True)], "ext": ext})]))
        out.append(M("M", [("C", {"k": "choice", "alts": [F("a", BOOL), F("b", U8), F("c", UTF8)], "ext": ext})]))
        out.append(M("M", [("E", {"k": "enum", "items": ["a", "b", "c"], "ext": ext})]))
    out.append(M("M", [("T", {"k": "seq", "fields": [F("in-l", {"k": "seq", "fields": [F("x", BOOL)]}), F("c", {"k": "choice", "alts": [F("p", BOOL)]}),
                                                       F("e", {"k": "enum", "items": ["u", "v"]}, opt=True)]})]))
    out.append(M("M", [("A", U8), ("T", {"k": "seq", "fields": [F("a", {"k": "ref", "name": "A"}), F("l", {"k": "seqof", "of": {"k": "ref", "name": "A"}}),
                                                                    F("o", {"k": "ref", "name": "A"}, opt=True)]})]))
    out.append(M("User", [("T", {"k": "seq", "fields": [F("s", {"k": "ref", "name": "Shared"})]})], imports=[{"from": "Lib", "what": ["Shared"]}]))
    out.append(M("M", [("T", {"k": "seq", "fields": [F("use", BOOL), F("type", U8)]})]))
    out.append(M("M", [("T", {"k": "seq", "fields": [F("n", NUL), F("o", OCT), F("b", BITS)]}), ("N", NUL)]))
    # random clean modules
    gen9.CLEAN[0] = True
    for _ in range(60 if tier == "quick" else 600):
        out.append(gen9.rnd_module(rng, "Clean-Mod"))
    gen9.CLEAN[0] = False
    return out


# ------------------------------------------------------------------------------------------ classes

def spec_classes(spec):
    out = []
    ty = spec.split(";")[0]
    for m in re.finditer(r"int\((none|-?\d+),(none|-?\d+),([01]),([^)]*)\)", ty):
        mn, mx = m.group(1), m.group(2)
        if mn == "none" and mx != "none":
            out.append("attr.int_min_unbounded")
        if mn not in ("none", "0") and mx == "none":
            out.append("attr.int_max_unbounded")
    # constants survive only on an integer that is the component type itself (possibly optional)
    stripped = ty
    while stripped.startswith("opt("):
        stripped = stripped[4:-1]
    inner_consts = re.findall(r"int\([^()]*,([^(),]*=[^()]*)\)", ty)
    if inner_consts and not stripped.startswith("int("):
        out.append("attr.consts_lost")
    if re.search(r"def\(oct\([^;]*,o", ty):
        out.append("attr.octet_default")
    if re.search(r"ref\(\w+,none\)", ty):
        out.append("attr.complex_untagged")
    for m in re.finditer(r",s((?:[0-9a-f]{2})*|-)\)", ty):
        raw = bytes.fromhex(m.group(1)) if m.group(1) != "-" else b""
        if b'"' in raw or b"\\" in raw:
            out.append("attr.string_escape")
    return out


def text_classes(text):
    out = []
    if re.search(r"\(\s*MIN\s*\.\.\s*-?\d+\s*,\s*\.\.\.\s*\)", text):
        out.append("attr.int_min_unbounded")
    if re.search(r"\(\s*-?[1-9]\d*\s*\.\.\s*MAX\s*,\s*\.\.\.\s*\)", text):
        out.append("attr.int_max_unbounded")
    if re.search(r"(OCTET|BIT)\s+STRING[^,}]*DEFAULT\s*'", text):
        out.append("attr.octet_default")
    if re.search(r'DEFAULT\s*"[^"]*\\', text):
        out.append("attr.string_escape")
    if re.search(r"BIT\s+STRING\s*\{", text):
        out.append("attr.bitstring_consts")
    if re.search(r"INTEGER\s*\{[^}]*\}[^,}]*\bDEFAULT\b", text) or \
            re.search(r"\.\.\.\s*,(?:[^{}]|\{[^{}]*\})*?INTEGER\s*\{", text):
        # named numbers under DEFAULT, or on an extension addition (implicitly optional)
        out.append("attr.consts_lost")
    kws = [k for k in gen9.GEN_KEYWORDS]
    if re.search(r"[{,]\s*(" + "|".join(kws) + r")\s+[A-Z]", text):
        out.append("attr.keyword_field_renamed")
    if re.search(r"\bIMPORTS\b", text):
        out.append("attr.complex_untagged")
    builtin = {"INTEGER", "BOOLEAN", "SEQUENCE", "SET", "CHOICE", "ENUMERATED", "OCTET", "BIT", "NULL", "UTF8String", "IA5String",
               "NumericString", "PrintableString", "VisibleString", "Integer"}
    for m in re.finditer(r"(?m)^\s*[A-Za-z][\w-]*\s*::=\s*(?:\[[^\]]*\]\s*)?([A-Z][\w-]*)", text):
        if m.group(1) not in builtin:
            out.append("attr.typeref_definition_tag")
            break
    return out


def expected_prt(spec):
    """what a faithful inverse yields for a printed spec.  Two normalisations are not deviations:
    `0..max` is read as unconstrained (convert_asn_to_rust normalises the same way, the form is not
    reachable from a module), and a DEFAULT naming an ENUMERATED item is printed — and read back —
    with the mangled Rust names."""
    ty, tag = spec.split(";")
    ty = re.sub(r"int\(0,none,", "int(none,none,", ty)
    ty = re.sub(r",e([\w-]+)\.([\w-]+)\)", lambda m: f",e{gen9.a_variant(m.group(1))}.{gen9.a_variant(m.group(2))})", ty)
    if ty.startswith("ref("):
        m = re.fullmatch(r"ref\((\w+),(\w+)\)", ty)
        inner = m.group(2) if m.group(2) != "none" else tag
        return f"ref({m.group(1)},{inner});{tag}"
    return ty + ";" + tag


class AttrStream(runner.Stream):
    name = "attr"
    prefixes = ["attr"]

    def gen(self, rng, tier):
        reqs = []
        for s in FIXED_SPECS:
            reqs.append("attr print " + s)
            reqs.append("attr prt " + s)
        for text, ty in ATTR_TEXTS:
            reqs.append(f"attr rt {hx(text)} {hx(ty)}")
        k = 14000 if tier == "quick" else 100000
        for _ in range(k):
            s = sp_type(rng, 0, top=True) + ";" + sp_tag(rng)
            reqs.append("attr print " + s)
            reqs.append("attr prt " + s)
        for _ in range(k):
            text, ty = rng.choice(ATTR_TEXTS) if rng.chance(1, 3) else tx_attr(rng)
            if rng.chance(2, 5):
                text = mutate(rng, text)
            reqs.append(f"attr rt {hx(text)} {hx(ty)}")
        for text in repo_modules():
            reqs.append("attr reparse " + hx(text))
        for m in own_modules(rng, tier):
            reqs.append("attr reparse " + hx(gen9.r_module(m)))
        return reqs

    def oracle(self, req, ans):
        t = req.split(" ")
        op = t[1]
        if op == "prt":
            if ans == "bad-op":
                return None      # the spec has no RustType (negative bound next to an open one)
            if ans.startswith("panic"):
                return "panic"
            want = expected_prt(t[2])
            if ans == "ok " + want:
                return None
            return f"printed attribute does not read back as the type it was printed from: want `{want}`"
        if op == "reparse":
            if ans.startswith("ok same"):
                return None
            if ans.startswith("ok diff"):
                return "re-parsed definition differs from the Rust model the generator started from: " + ans[8:]
            if ans.startswith("err reparse") or ans.startswith("panic reparse") or ans.startswith("panic to-rust") or ans.startswith("err items"):
                return "the attribute macro cannot read the generated code back: " + ans
            return None      # rejected by the front end / generator panic (C09, C14)
        return None

    def finding_class(self, req, ans):
        t = req.split(" ")
        op = t[1]
        if op == "prt":
            cl = spec_classes(t[2])
            return cl[0] if cl else None
        if op == "reparse":
            try:
                text = bytes.fromhex(t[2]).decode()
            except ValueError:
                return None
            cl = text_classes(text)
            return cl[0] if cl else None
        return None

    def compare(self, req, impl, model):
        if model == "skip":
            return True
        return impl == model

    def tag(self, req, ans):
        t = req.split(" ")
        op = t[1]
        if op == "reparse":
            return "reparse:" + "-".join(ans.split(" ")[:2])
        if op in ("print", "prt"):
            head = re.match(r"[a-z]+", t[2]).group(0)
            return f"{op}:{head}:{ans.split(' ')[0]}"
        return f"rt:{' '.join(ans.split(' ')[:2]) if ans.startswith('err') else ans.split(' ')[0]}"

    def nontrivial(self, req, ans):
        return ans.startswith("ok")


class Spec(runner.Spec):
    prop = "C08"
    # Props/C08Consts.lean: the descriptor constants of the macro expansion, from the source type
    extra_prop_files = ["C08Consts"]
    streams = [AttrStream(), uper_streams.DescConsistency(), consts_stream.ConstsFromSource(), c16.TagsCorpus(), c12.ResolveWitnesses()]
    assumptions = [
        "text -> token tree is proc_macro2's lexer (trusted, checked by `attr print`: the real text is lexed by proc_macro2 and compared token by token with the model printer)",
        "only the attribute language of struct fields / tuple structs / CHOICE variants is modelled (type, tag, const); the definition header (`sequence`, `choice`, tag, extensible_after) and `Model<Rust>` <-> `asn::Type` conversion (`into_asn`, `convert_asn_to_rust`) are exercised by `attr reparse` on the real code only",
        "descriptor constants of the macro expansion: Codegen/ConstsModel.lean starts behind the parser (asn::Type with the recorded marker index and Size) and ignores names, tags, SET sorting and the printing of DEFAULT literals; tied by stream `consts` on the compiled zoo only",
        "string literals without characters that need escaping in Rust source",
    ]
    trusted_base = [
        "Lean 4.33 kernel; axioms per theorem listed under coverage.theorems (allowed: propext, Classical.choice, Quot.sound)",
        "hand-written mirror Codegen/Attr.lean of generate/rust.rs (asn_attribute*) and proc_macro/{attribute,range,size,tag,constants}.rs — tied by stream `attr` (print, prt, rt)",
        "harness/src/attr.rs (spec <-> RustType/asn::Type, canonical token rendering), Driver/AttrStream.lean (spec parser, attribute lexer), tools/checks/c08.py, syn 2.0.48 / proc-macro2 1.0.76",
        "hand-written mirror Codegen/ConstsModel.lean of rust.rs (convert_asn_to_rust), proc_macro/range.rs and generate/walker.rs (constant expressions) — tied by stream `consts`: tools/consts_stream.py (parser of harness/zoo/*.asn1, Python expectation, evaluation of the model through the generated .work/ConstsZoo.lean), harness/src/dynval.rs TyGen",
    ]
