"""C07 — parsing preserves every declared element of an ASN.1 module.

Stream `parse`, op `rt`:  `parse rt <hex text> <expected unresolved dump> <expected resolved dump> <family>:<quirk>`
answered with `ok <unresolved dump> <resolved dump | err:<class>>` or `err <class>`.

Oracle (decided on the implementation's answer alone): the two dumps in the answer equal the two
dumps computed by tools/front_gen.py from the abstract schema the text was printed from.  An
`err` answer is acceptable only in the family `rejected` (forms outside the implementation's
subset, which must be refused loudly and never be parsed into something else).

Family `quirk`: requests inside an OPEN known finding (QUIRK_CLASS).  Family `regress`: the
witnesses of REPAIRED findings (string literal with a separator in first position, empty
literals, value references called min / max); they are in no finding class any more, so the
old behaviour would be reported as a VIOLATION.
"""
import glob
import os
import re

import front_gen as G
import runner
import vlib
from checks import c12

# quirk → class of the known finding the request lies in
QUIRK_CLASS = {
    "int_0_max": "parse.int_widened_0_max",
    "int_min_i64max": "parse.int_widened_min_i64max",
    "ext_first": "parse.ext_marker_first",
    "ext_second": "parse.ext_marker_second",
    "module_suffix": "parse.module_suffix",
    "strdefault_comment": "parse.string_default_comment",
    "partial_octets": "parse.partial_hstring_bstring",
}
# repaired (KNOWN_FINDINGS.txt `fixed:` lines of property C07): strdefault_first_sep,
# strdefault_empty, ref_min_max — family `regress`, no class


def hx(text):
    return vlib.hexs(text.encode("utf-8"))


def simple_module(name, items, oid=None, imports=None):
    return {"name": name, "oid": oid, "imports": imports or [], "items": items}


def seq(fields, extpos=None, ext2=None, kind="seq"):
    return (kind, fields, extpos, ext2)


def fld(name, ty, pres=None, tag=None):
    return (name, tag, ty, pres)


INT = ("int", None, None, False, [])


class ParseStream(runner.Stream):
    name = "parse"
    prefixes = ["parse"]
    exhaustive = False

    # ------------------------------------------------------------------ request construction
    def rt(self, m, family, quirk="-", rng=None, printer=None, exp_u=None, exp_r=None):
        p = printer or G.Printer()
        text = G.render(p.module(m), rng)
        eu = exp_u if exp_u is not None else G.dump_u(m)
        er = exp_r if exp_r is not None else G.dump_r(m)
        return f"parse rt {hx(text)} {eu} {er} {family}:{quirk}"

    def gen(self, rng, tier):
        reqs = []
        scale = 1 if tier == "quick" else 10
        # ---- 0. corpus: every ASN.1 text of the project's own tests (correspondence only)
        for f in sorted(glob.glob(os.path.join(vlib.REPO, "tests", "*.rs"))):
            src = open(f, encoding="utf-8").read()
            for mt in re.finditer(r'asn_to_rust!\(\s*r(#*)"(.*?)"\1\s*,?\s*\)', src, flags=re.S):
                reqs.append(f"parse mod {hx(mt.group(2))}")
        # ---- 1. known quirks (one pinned witness each, then the family)
        reqs += self.quirks(rng.fork("quirks"), scale)
        # ---- 2. forms the implementation refuses
        reqs += self.rejected(rng.fork("rejected"))
        # ---- 3. boundary families per construct
        reqs += self.boundaries(rng.fork("boundaries"))
        # ---- 4. random nested schemas, random layouts and keyword styles
        r = rng.fork("random")
        n = 16000 * scale
        for i in range(n):
            g = G.Gen(r, max_depth=r.range(0, 3))
            m = g.module()
            p = G.Printer(kwstyle=r.choice([0, 0, 0, 1, 2]), paren_size=r.chance(2, 3),
                          min_max_explicit=r.chance(1, 10))
            layout = None if i % 3 == 0 else r
            reqs.append(self.rt(m, "random", rng=layout, printer=p))
        return reqs

    # ------------------------------------------------------------------ families
    def quirks(self, r, scale):
        out = []

        def one(m, quirk, **kw):
            out.append(self.rt(m, "quirk" if quirk in QUIRK_CLASS else "regress", quirk, **kw))

        STR = ("str", "utf8", ("any",))

        # INTEGER (0..MAX) / (MIN..i64::MAX): widened to unconstrained
        for ext in (False, True):
            one(simple_module("M", [("def", "A", None, ("int", 0, None, ext, []))]), "int_0_max")
            one(simple_module("M", [("def", "A", None, ("int", None, G.I64_MAX, ext, []))]), "int_min_i64max")
        one(simple_module("M", [("def", "A", None, seq([fld("a", ("int", 0, None, False, []), "opt")]))]), "int_0_max")
        one(simple_module("M", [("def", "A", None, ("seqof", ("any",), ("int", 0, None, False, [("x", 1)])))]), "int_0_max")
        # regression: an extensible SIZE with an open root, `SIZE(0..MAX, ...)`, was refused with a parse error
        # (the no-constraint shortcut expected `)`); repaired: it is the extensible range it says
        for lo in (0, "MIN"):
            for hi in ("MAX", G.SIZE_MAX):
                for ty in (("oct", ("range", lo, hi, True)), ("str", "utf8", ("range", lo, hi, True)), ("bit", ("range", lo, hi, True), []),
                           ("seqof", ("range", lo, hi, True), INT), ("setof", ("range", lo, hi, True), ("bool",))):
                    one(simple_module("M", [("def", "A", None, ty)]), "size_open_ext")
                    one(simple_module("M", [("def", "A", None, seq([fld("a", ty, "opt"), fld("b", INT)]))]), "size_open_ext")
        # extension marker before the first component / a second marker
        for k in ("seq", "set"):
            for n in range(0, 4):
                fields = [fld(f"f{i}", INT) for i in range(n)]
                one(simple_module("M", [("def", "A", None, seq(fields, 0, None, k))]), "ext_first")
                for e1 in range(0, n + 1):
                    for e2 in range(e1 + 1, n + 1):
                        if e1 == 0:
                            continue
                        one(simple_module("M", [("def", "A", None, seq(fields, e1, e2, k))]), "ext_second")
        # module / import names ending in `Module`
        for nm in ("FooModule", "Foo_Module", "Module", "Foo_Module_Module", "FooModuleModule", "Bar-Module"):
            one(simple_module(nm, [("def", "A", None, INT)]), "module_suffix")
            one(simple_module("M", [("def", "A", None, INT)], imports=[(["X"], nm, None)]), "module_suffix")
        # string DEFAULT literals
        for toks in (["a--b"], ["x", "--", "y"], ["--"], ["a", "--b"]):
            one(simple_module("M", [("def", "A", None, seq([fld("s", ("str", "utf8", ("any",)), ("dflt", ("s", toks))), fld("t", INT)]))]),
                "strdefault_comment")
        # corpus (no finding): a value assignment that has the name of an enumeration item — `DEFAULT item`
        # of a component typed by a reference to the ENUMERATED is the item, an INTEGER's bound / DEFAULT
        # of the same name is the value
        for vty, vlit in ((INT, ("i", 30)), (("bool",), ("b", True)), (STR, ("s", ["x"]))):
            enum = ("enum", [("off", None), ("standby", None), ("active", None)], None)
            fields = [fld("mode", ("ref", "Mode"), ("dflt", ("ref", "standby"))), fld("fallback", ("ref", "Mode"), ("dflt", ("ref", "active")))]
            if vty is INT:
                fields.append(fld("timeout", ("int", 0, ("ref", "standby"), False, []), ("dflt", ("ref", "standby"))))
            one(simple_module("M", [("vr", "standby", vty, vlit), ("def", "Mode", None, enum), ("def", "Config", None, seq(fields))]),
                "enum_item_vs_value")
        # corpus (no finding): imported symbols called `from` / `From` (only the upper-case FROM is reserved)
        one(simple_module("M", [("def", "A", None, INT)], imports=[(["until", "from"], "Other", None), (["Third"], "Elsewhere", [("n", "iso"), ("u", 2)])]),
            "symbol_named_from")
        one(simple_module("M", [("def", "A", None, INT)], imports=[(["until", "From", "from"], "Other", None)]), "symbol_named_from")
        one(simple_module("M", [("def", "A", None, INT)], imports=[(["from"], "Other", None), (["fRom", "x"], "Third", None)]), "symbol_named_from")
        one(simple_module("M", [("def", "A", None, ("int", ("ref", "from"), ("ref", "until"), False, []))],
                          imports=[(["from", "until"], "Other", None)]), "symbol_named_from")
        # corpus (no finding): two value assignments whose names differ only in the case of a letter
        for n1, n2 in (("maxLen", "maxlen"), ("aB", "ab")):
            for order in ((n1, 4, n2, 8), (n2, 8, n1, 4)):
                items = [("vr", order[0], INT, ("i", order[1])), ("vr", order[2], INT, ("i", order[3])),
                         ("def", "Blob", None, ("oct", ("range", 1, ("ref", n2), False))),
                         ("def", "Span", None, ("int", ("ref", n1), ("ref", n2), False, [])),
                         ("def", "Cfg", None, seq([fld("d", INT, ("dflt", ("ref", n2))), fld("e", INT, ("dflt", ("ref", n1)))]))]
                one(simple_module("M", items), "names_differ_in_case")
        # regression: a separator as first token of a string literal (it was dropped)
        for toks in ([",", "a"], [":"], ["(", "x", ")"], [".", "."], ["'", "a"], ["=", "b", "c"], ["'"], ["{", "}"],
                     [";", ";", "x"], ["[", "0", "]", "z"]):
            one(simple_module("M", [("def", "A", None, seq([fld("s", STR, ("dflt", ("s", toks)))]))]),
                "strdefault_first_sep")
            one(simple_module("M", [("vr", "v", STR, ("s", toks)), ("def", "A", None, seq([fld("s", STR, ("dflt", ("s", toks))), fld("t", INT)]))]),
                "strdefault_first_sep")
        # regression: empty literals (the closing delimiter was taken for content)
        one(simple_module("M", [("def", "A", None, seq([fld("s", ("str", "utf8", ("any",)), ("dflt", ("s", [])))]))]), "strdefault_empty")
        one(simple_module("M", [("def", "A", None, seq([fld("s", ("str", "utf8", ("any",)), ("dflt", ("s", []))), fld("t", ("str", "ia5", ("any",)), ("dflt", ("s", ["x"])))]))]),
            "strdefault_empty")
        one(simple_module("M", [("vr", "e", ("str", "utf8", ("any",)), ("s", [])), ("def", "A", None, INT)]), "strdefault_empty")
        for l in (("o", ""), ("ob", "")):
            one(simple_module("M", [("def", "A", None, seq([fld("o", ("oct", ("any",)), ("dflt", l)), fld("t", INT)]))]), "strdefault_empty")
            one(simple_module("M", [("def", "A", None, seq([fld("o", ("bit", ("any",), []), ("dflt", l))]))]), "strdefault_empty")
            one(simple_module("M", [("vr", "e", ("oct", ("any",)), l), ("def", "A", None, seq([fld("o", ("oct", ("any",)), ("dflt", ("ref", "e")))]))]), "strdefault_empty")
        one(simple_module("M", [("def", "A", None, seq([fld("s", STR, ("dflt", ("s", []))), fld("o", ("oct", ("any",)), ("dflt", ("o", ""))),
                                                        fld("u", STR, ("dflt", ("s", [])))]))]), "strdefault_empty")
        # regression: value references called `max` / `min` (any case) were taken for the keywords
        for nm, pos in (("max", "hi"), ("Max", "hi"), ("mAX", "hi"), ("min", "lo"), ("mIN", "lo"), ("Min", "lo"),
                        ("min", "hi"), ("max", "lo")):
            lo, hi = (5, ("ref", nm)) if pos == "hi" else (("ref", nm), 500)
            for ext in (False, True):
                one(simple_module("M", [("vr", nm, INT, ("i", 100)), ("def", "A", None, ("int", lo, hi, ext, []))]), "ref_min_max")
                one(simple_module("M", [("vr", nm, INT, ("i", 100)), ("def", "A", None, ("oct", ("range", lo, hi, ext)))]), "ref_min_max")
            one(simple_module("M", [("vr", nm, INT, ("i", 100)), ("def", "A", None, ("seqof", ("fix", ("ref", nm), False), ("bool",)))]), "ref_min_max")
        one(simple_module("M", [("vr", "max", INT, ("i", 100)), ("def", "A", None, ("int", 0, ("ref", "max"), False, []))]), "ref_min_max")
        one(simple_module("M", [("vr", "min", INT, ("i", 1)), ("vr", "max", INT, ("i", 100)),
                                ("def", "A", None, ("int", ("ref", "min"), ("ref", "max"), False, [])),
                                ("def", "B", None, ("str", "ia5", ("range", ("ref", "min"), ("ref", "max"), True))),
                                ("def", "C", None, ("int", None, None, True, [])),
                                ("def", "D", None, ("oct", ("range", "MIN", ("ref", "max"), False)))]), "ref_min_max",
            printer=G.Printer(kwstyle=1, min_max_explicit=True))
        # an unresolved `max` is an unresolved reference (not silently no bound)
        out.append(f"parse rt {hx('M DEFINITIONS AUTOMATIC TAGS ::= BEGIN' + chr(10) + 'A ::= INTEGER (0..max)' + chr(10) + 'END')} !err !err rejected:-")
        # hstring / bstring that do not fill whole octets
        for l in (("o", "ABC"), ("o", "1"), ("ob", "101"), ("ob", "1"), ("ob", "111100001")):
            one(simple_module("M", [("def", "A", None, seq([fld("o", ("oct", ("any",)), ("dflt", l))]))]), "partial_octets")
        # the same quirks inside random schemas
        for _ in range(40 * scale):
            g = G.Gen(r, max_depth=2)
            m = g.module(with_refs=False, imports=False)
            q = r.choice(["int_0_max", "int_min_i64max", "ext_first", "module_suffix", "ref_min_max", "strdefault_first_sep", "strdefault_empty"])
            if q == "ref_min_max":
                nm = r.choice(["max", "min", "Max", "miN"])
                lo, hi = r.choice([(("ref", nm), None), (None, ("ref", nm)), (-3, ("ref", nm)), (("ref", nm), 2 ** 40)])
                m["items"].append(("vr", nm, INT, ("i", 7)))
                m["items"].append(("def", "Qq", None, seq([fld("q", ("int", lo, hi, r.chance(1, 2), []), r.choice([None, "opt"])),
                                                           fld("z", ("oct", ("range", ("ref", nm), 99, r.chance(1, 2))))])))
            elif q in ("strdefault_first_sep", "strdefault_empty"):
                toks = [] if q == "strdefault_empty" else [r.choice(sorted(G.SEPARATORS - {'"'}))] + [g.word() for _ in range(r.range(0, 2))]
                m["items"].append(("def", "Qq", None, seq([fld("q", STR, ("dflt", ("s", toks))), fld("z", g.ty(1))])))
            elif q == "module_suffix":
                m["name"] += r.choice(["Module", "_Module"])
            elif q in ("int_0_max", "int_min_i64max"):
                rg = (0, None) if q == "int_0_max" else (None, G.I64_MAX)
                m["items"].append(("def", "Qq", None, seq([fld("q", ("int", rg[0], rg[1], r.chance(1, 2), []), r.choice([None, "opt"]))])))
            else:
                m["items"].append(("def", "Qq", None, seq([fld("q", g.ty(1)) for _ in range(r.range(0, 3))], 0, None, r.choice(["seq", "set"]))))
            one(m, q, rng=r)
        return out

    def rejected(self, r):
        """valid ASN.1 (or near) that the implementation refuses; the answer must be an error, at
        the latest from the resolver — never a model of something else"""
        out = []

        def raw(text):
            out.append(f"parse rt {hx(text)} !err !err rejected:-")

        hdr = "M DEFINITIONS AUTOMATIC TAGS ::= BEGIN\n"
        raw(hdr + "A ::= INTEGER (5)\nEND")
        raw(hdr + "A ::= SEQUENCE { a [0] IMPLICIT INTEGER }\nEND")
        raw(hdr + "A ::= SEQUENCE { a [0] EXPLICIT INTEGER }\nEND")
        raw(hdr + "A ::= CHOICE { ..., a INTEGER }\nEND")
        raw(hdr + "A ::= CHOICE { a INTEGER, ..., b INTEGER, ... }\nEND")
        raw(hdr + "A ::= ENUMERATED { ..., a }\nEND")
        raw(hdr + "A ::= ENUMERATED { a, ..., b, ... }\nEND")
        raw(hdr + "A ::= CHOICE { }\nEND")
        raw(hdr + "A ::= ENUMERATED { }\nEND")
        raw(hdr + "A ::= SEQUENCE { e ENUMERATED { x, y } DEFAULT x }\nEND")
        raw(hdr + "A ::= UTF8String\nSize ::= INTEGER\nEND")
        raw(hdr + "A ::= OCTET STRING\nsize INTEGER ::= 5\nEND")
        raw(hdr + "A ::= INTEGER (0..99999999999999999999)\nEND")
        raw(hdr + "A ::= OCTET STRING (SIZE(-1))\nEND")
        raw(hdr + "A ::= SEQUENCE { a INTEGER DEFAULT 99999999999999999999 }\nEND")
        raw(hdr + "A ::= SEQUENCE { a OCTET STRING DEFAULT 'XY'H }\nEND")
        raw(hdr + "A ::= SEQUENCE { a OCTET STRING DEFAULT '012'B }\nEND")
        raw(hdr + "A ::= SEQUENCE { a INTEGER DEFAULT undefinedName }\nEND")
        raw(hdr + "A ::= INTEGER (0..undefinedName)\nEND")
        raw(hdr + "A ::= [UNIVERSAL x] INTEGER\nEND")
        raw(hdr + "A ::= ENUMERATED { a(-1) }\nEND")
        raw(hdr + "A ::= INTEGER { a(x) }\nEND")
        raw(hdr + "A ::= BIT STRING { a(-1) }\nEND")
        raw("M { 1 99999999999999999999 } DEFINITIONS ::= BEGIN END")
        raw(hdr + "A ::= INTEGER")
        raw(hdr)
        raw("")
        return out

    def boundaries(self, r):
        out = []

        def one(m, fam, **kw):
            out.append(self.rt(m, fam, **kw))

        printers = [G.Printer(), G.Printer(kwstyle=1, paren_size=False), G.Printer(kwstyle=2, min_max_explicit=True)]
        # INTEGER ranges: every combination of bound kinds, extensibility, named numbers
        vals = [None, 0, 1, -1, 255, 256, -128, G.I64_MAX, G.I64_MIN, G.I64_MAX - 1, ("ref", "lim")]
        for lo in vals:
            for hi in vals:
                for ext in (False, True):
                    if (lo == 0 and hi is None) or (lo is None and hi == G.I64_MAX):
                        continue
                    for cs in ([], [("one", 1), ("neg", -2), ("big", G.I64_MAX), ("small", G.I64_MIN)]):
                        m = simple_module("Ints", [("vr", "lim", INT, ("i", 77)), ("def", "A", None, ("int", lo, hi, ext, cs))])
                        one(m, "integer", printer=printers[(len(out)) % 3])
        # SIZE: every form on every carrier
        atoms = [0, 1, 2, 255, 65536, G.SIZE_MAX, G.SIZE_MAX - 1, ("ref", "n")]
        sizes = [("any",)]
        for a in atoms:
            for e in (False, True):
                sizes.append(("fix", a, e))
        for a in atoms + ["MIN"]:
            for b in atoms + ["MAX"]:
                for e in (False, True):
                    if a in (0, "MIN") and b in ("MAX", G.SIZE_MAX) and e:
                        continue
                    sizes.append(("range", a, b, e))
        carriers = [lambda s: ("str", "utf8", s), lambda s: ("str", "ia5", s), lambda s: ("str", "numeric", s),
                    lambda s: ("str", "printable", s), lambda s: ("str", "visible", s), lambda s: ("oct", s),
                    lambda s: ("bit", s, []), lambda s: ("bit", s, [("flag", 0), ("top", 2 ** 64 - 1)]),
                    lambda s: ("seqof", s, ("bool",)), lambda s: ("setof", s, ("ref", "Other"))]
        for i, s in enumerate(sizes):
            for j, c in enumerate(carriers):
                if (i + j) % 2 and s[0] == "range":
                    continue
                m = simple_module("Sizes", [("vr", "n", INT, ("i", 9)), ("def", "A", None, c(s))])
                one(m, "size", printer=printers[(i + j) % 3])
        # tags of the four classes in front of definitions, fields, alternatives
        for cls in "UACP":
            for n in (0, 1, 30, 31, 127, 128, 16383, 16384, 2 ** 32, 2 ** 64 - 1):
                t = (cls, n)
                m = simple_module("Tags", [
                    ("def", "A", t, INT),
                    ("def", "B", None, seq([fld("a", ("bool",), None, t), fld("b", ("ref", "A"), "opt", t)])),
                    ("def", "C", t, ("choice", [("x", t, INT), ("y", None, ("null",))], None)),
                    ("def", "D", t, ("enum", [("e", None)], None)),
                    ("def", "E", t, ("seqof", ("any",), INT)),
                ])
                one(m, "tag", printer=printers[n % 3])
        # ENUMERATED / CHOICE: marker at every legal position, numbers
        for n in range(1, 5):
            for extpos in [None] + list(range(1, n + 1)):
                vs = [(f"v{i}", None if i % 2 else i * 7) for i in range(n)]
                one(simple_module("En", [("def", "A", None, ("enum", vs, extpos))]), "enumerated")
                alts = [(f"a{i}", ("C", i) if i % 2 else None, [INT, ("bool",), ("ref", "T"), ("oct", ("fix", 3, False))][i % 4]) for i in range(n)]
                one(simple_module("Ch", [("def", "A", None, ("choice", alts, extpos))]), "choice")
        # SEQUENCE / SET: marker after every component, OPTIONAL / DEFAULT of every literal kind
        lits = [("b", True), ("b", False), ("i", 0), ("i", -5), ("i", G.I64_MAX), ("i", G.I64_MIN),
                ("s", ["hello"]), ("s", ["two", "words"]), ("s", ["ID", " none"]), ("s", ["km", "   h"]), ("s", ["a", " ,", "  b", " c"]), ("s", ["a", ",", "b"]), ("s", ["x", ".", ".", "y", "(", ")"]),
                ("o", "AB"), ("o", "00ff10"), ("ob", "10100000"), ("ob", "0000000111111111"),
                ("ref", "someValue"), ("ref", "green")]
        for k in ("seq", "set"):
            for n in range(0, 5):
                for extpos in [None] + list(range(1, n + 1)):
                    fields = []
                    for i in range(n):
                        pres = [None, "opt", ("dflt", lits[(i + n + (extpos or 0)) % len(lits)])][(i + n) % 3]
                        fields.append(fld(f"c{i}", [INT, ("bool",), ("str", "utf8", ("any",)), ("ref", "Colour")][i % 4], pres,
                                          ("C", i) if (i + n) % 2 else None))
                    m = simple_module("Comp", [("vr", "someValue", INT, ("i", 3)),
                                               ("def", "Colour", None, ("enum", [("red", None), ("green", None)], None)),
                                               ("def", "A", None, seq(fields, extpos, None, k))])
                    one(m, "components")
        for l in lits:
            for ty in (INT, ("bool",), ("str", "utf8", ("any",)), ("oct", ("any",)), ("bit", ("any",), []), ("ref", "Colour")):
                m = simple_module("Dflt", [("vr", "someValue", INT, ("i", 3)),
                                           ("def", "Colour", None, ("enum", [("red", None), ("green", None)], None)),
                                           ("def", "A", None, seq([fld("d", ty, ("dflt", l)), fld("e", INT)]))])
                one(m, "default")
        # value references of every literal kind
        for l in lits[:-2]:
            m = simple_module("Vals", [("vr", "v", {"b": ("bool",), "i": INT, "s": ("str", "utf8", ("any",)), "o": ("oct", ("any",)), "ob": ("bit", ("any",), [])}[l[0]], l),
                                       ("def", "A", None, INT)])
            one(m, "valueref")
        # object identifiers and imports
        oids = [[], [("u", 0)], [("n", "iso")], [("nn", "iso", 1)], [("nn", "iso", 1), ("n", "standard"), ("u", 8571), ("nn", "mod", 2 ** 64 - 1)],
                [("u", 1), ("u", 2), ("u", 3)], [("n", "a"), ("n", "b")]]
        for o in oids:
            one(simple_module("Oids", [("def", "A", None, INT)], oid=o), "oid")
            one(simple_module("Imp", [("def", "A", None, INT)], imports=[(["X", "y"], "Other", o)]), "imports")
            one(simple_module("Imp", [("def", "A", None, INT)], oid=o, imports=[(["X"], "Other", None), (["y", "Zz", "w"], "Third", o)]), "imports")
        return out

    # ------------------------------------------------------------------ oracle
    def oracle(self, req, ans):
        t = req.split(" ")
        if t[1] != "rt":
            # corpus: correspondence only; the front end must not panic on the project's own texts
            if ans in ("panic", "abort", "hang"):
                return "front end panics on a test text of the project"
            return None
        exp_u, exp_r, fam = t[3], t[4], t[5]
        if ans in ("panic", "abort", "hang"):
            return "front end panics"
        if ans.startswith("comment-differs"):
            # harness/src/parse.rs parses every text again with comments of every X.680 12.6 form between the items
            return "the model depends on comments between the items: " + ans[:300]
        if exp_u == "!err":
            if ans.startswith("err "):
                return None
            a = ans.split(" ")
            if len(a) == 3 and a[2].startswith("err:"):
                return None
            return "a form outside the supported subset was accepted: " + ans[:200]
        if not ans.startswith("ok "):
            return f"module of the supported subset rejected: {ans}"
        a = ans.split(" ")
        if len(a) != 3:
            return "malformed answer"
        if a[1] != exp_u:
            return "parsed model differs from the declared schema: " + first_diff(exp_u, a[1])
        if a[2] != exp_r:
            return "resolved model differs from the declared schema: " + first_diff(exp_r, a[2])
        return None

    def finding_class(self, req, ans):
        t = req.split(" ")
        if t[1] != "rt":
            return None
        q = t[5].split(":")[1]
        return QUIRK_CLASS.get(q)

    def tag(self, req, ans):
        t = req.split(" ")
        if t[1] != "rt":
            return f"corpus:{ans.split(' ')[0]}"
        fam, q = t[5].split(":")
        a = ans.split(" ")
        if a[0] == "ok":
            res = "ok" if (a[1] == t[3] and a[2] == t[4]) else ("ok-differs" if not a[2].startswith("err:") else "resolve-" + a[2])
        else:
            res = ans.replace(" ", ":")
        return f"{fam}{'' if q == '-' else '/' + q}:{res}"

    def nontrivial(self, req, ans):
        return ans.startswith("ok ")

    def compare(self, req, impl, model):
        if model == "skip":
            t = req.split(" ")
            # the driver's text splitter does not know comments: tokenizer layouts are C13's stream
            return t[1] == "mod" or t[5].endswith(":strdefault_comment")
        return impl == model


def first_diff(exp, got):
    i = 0
    while i < min(len(exp), len(got)) and exp[i] == got[i]:
        i += 1
    lo = max(0, i - 40)
    return f"expected …{exp[lo:i + 60]}… got …{got[lo:i + 60]}…"


class Spec(runner.Spec):
    prop = "C07"
    streams = [ParseStream(), c12.ResolveWitnesses()]
    assumptions = [
        "the theorem is stated on token lists (Front/Printer.printTokens); whitespace/comment layouts of the same tokens are property C13",
        "string literals are rendered as their tokens joined by single blanks (the parser rebuilds them from token columns; other inner layouts belong to C13)",
        "the abstract schema mirrors the crate's data model (Model<Asn<Unresolved>>); value references and definitions are two ordered lists (their interleaving in the source is not part of the model)",
        "an `err` answer is accepted only for the family `rejected` (forms the implementation does not support and refuses loudly)",
        "Rust semantics of the mirrored parser is tied to the Lean mirror only by differential execution (stream `parse`)",
    ]
    trusted_base = [
        "Lean 4.33 kernel; axioms per theorem listed under coverage.theorems (allowed: propext, Classical.choice, Quot.sound)",
        "hand-written mirror Front/ParserBase.lean, Front/Parser.lean, Front/Resolve.lean of asn1rs-model/src/asn/*.rs, resolve.rs — tied by the correspondence stream",
        "harness/src/parse.rs (dump through public fields, error class from the Display text), Driver/ParseStream.lean (blank/separator splitter, same dump)",
        "tools/front_gen.py (generator, printer, expected dumps computed from the abstract schema), tools/checks/c07.py",
    ]
