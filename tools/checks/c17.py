"""C17 — protobuf round trip preserves values up to proto3 default equivalence."""
import runner
import proto_streams


class Spec(runner.Spec):
    prop = "C17"
    streams = [proto_streams.RoundTrip(), proto_streams.PeqStream(), proto_streams.DecCorrespondence()]
    assumptions = [
        "one value per writer is what the property speaks of; in addition every `enc` request writes the value twice with ONE ProtobufWriter and compares what the second write appends with the octets of a fresh writer (`reuse:`) — flagged for SEQUENCE/SET/ENUMERATED/list roots; a root CHOICE leaves the writer of the code as it is in the nested state, reuse after it is outside the property",
        "dev profile (overflow checks, debug assertions), as used by the project's tests; release profile not modelled",
        "types: the zoo harness/zoo/*.asn1 compiled by the real converter (about 300 types: every integer width/sign, strings, BIT/OCTET STRING, NULL, ENUMERATED, nested SEQUENCE/SET/CHOICE, CHOICE in CHOICE, SEQUENCE OF in SEQUENCE OF); the descriptor is what the codec sees through its Constraint traits",
        "the generated types do not implement ProtobufEq (the derive exists, the generator does not emit it, and `Null` has no implementation): the relation is read off peq.rs + derive_protobuf_eq.rs, modelled as Val.protoEq, and decided independently in tools/proto_streams.py (the two are compared on every round trip); stream proto-peq calls the crate's own implementations for the leaf types, Vec<T> and Option<T> (absent vs T::default()) and follows the derive for SEQUENCE/CHOICE — an OPTIONAL SEQUENCE/CHOICE/ENUMERATED has no crate implementation to call and is compared between model and checker only",
        "the compositional mirror Proto/Codec.lean is tied to ProtobufWriter/ProtobufReader by differential execution over the zoo: round trips and both writer back ends (stream proto-rt), hostile octets (stream proto-dec)",
        "a reader that does not terminate is observed as `abort` (address-space limit of the harness) and modelled as `panic`",
        "u32 overflow of tag_counter (more than 2^32 components in one message) is not modelled",
        "INTEGER: theorems int_in_region_generated / int_roundtrip_generated speak about the descriptor the converter produces (Codegen/IntType.lean: Rust type and constraint constants, the model of C15, tied to the code by ./check C15); the zoo holds extensible and non-extensible roots at the 32-bit boundaries, and the boundary values p30 / n30 / p32 (2^30, -2^30-1, 2^32+5: the former witnesses of F-proto-int-ext) are sent for every type (histogram tags int-xout / int-x32 / int-x30)",
    ]
    trusted_base = [
        "Lean 4.33 kernel; axioms per theorem under coverage.theorems (allowed: propext, Classical.choice, Quot.sound)",
        "tools/extract_consts.py (PROTO_FORMAT_* wire type codes)",
        "hand-written mirrors Proto/Wire.lean (protocol/protobuf/mod.rs), Proto/Codec.lean (rw/proto_write.rs, rw/proto_read.rs, peq.rs); Uper/Impl.lean for utf8Decode and castInt; Codegen/IntType.lean (asn1rs-model/src/rust.rs: the Rust integer type and the constants of a constraint) for the two INTEGER theorems",
        "harness/src/dynval.rs (TyGen/TreeWriter/ValReader), harness/src/proto.rs, Driver/ProtoStream.lean, tools/proto_streams.py (ProtobufEq relation, boundary values, mutation generator)",
    ]
