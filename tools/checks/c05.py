import runner
import uper_streams
from checks.uper_common import ASSUMPTIONS, TRUSTED


class Spec(runner.Spec):
    prop = "C05"
    streams = [uper_streams.CrossVersion()]
    assumptions = ASSUMPTIONS
    trusted_base = TRUSTED
