import runner
import uper_streams
from checks.uper_common import ASSUMPTIONS, TRUSTED


class Diag(uper_streams.Hostile):
    name = "uper-diag"
    needs_diag = True


class Spec(runner.Spec):
    prop = "C19"
    streams = [Diag()]
    assumptions = ASSUMPTIONS + ["the two feature configurations are two builds of the same harness (target/, target-diag/) answering the same requests"]
    trusted_base = TRUSTED
