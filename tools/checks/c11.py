"""C11 — bit-level buffer operations equal a naive bit-vector model."""
import runner
from vlib import hexs


def bits_of(b):
    return [(x >> (7 - i)) & 1 for x in b for i in range(8)]


def bytes_of(bits):
    out = bytearray()
    for i in range(0, len(bits), 8):
        v = 0
        for j in range(8):
            v = (v << 1) | (bits[i + j] if i + j < len(bits) else 0)
        out.append(v)
    return bytes(out)


def unhex(s):
    return b"" if s == "-" else bytes.fromhex(s)


def naive_copy(src, sp, dst, dp, n):
    """the Vec<bool> semantics: ('ok', new dst) | ('err', class)"""
    if 8 * len(dst) < dp + n:
        return ("err", "nospace")
    if 8 * len(src) < sp + n:
        return ("err", "eos")
    s, d = bits_of(src), bits_of(dst)
    d[dp:dp + n] = s[sp:sp + n]
    return ("ok", bytes_of(d))


class NaiveBuf:
    """growable bit vector with a read cursor"""

    def __init__(self):
        self.bits = []
        self.rp = 0

    def op(self, tok):
        p = tok.split(":")
        k = p[0]
        if k == "wb":
            self.bits.append(int(p[1]))
            return "ok"
        if k in ("w", "wo", "wl", "ww"):
            src = bits_of(unhex(p[1]))
            if k == "w":
                off, n = int(p[2]), int(p[3])
            elif k == "wo":
                off = int(p[2])
                if off > len(src):
                    return "err:eos"
                n = len(src) - off
            elif k == "wl":
                off, n = 0, int(p[2])
            else:
                off, n = 0, len(src)
            if off + n > len(src):
                return "err:eos"
            self.bits += src[off:off + n]
            return "ok"
        if k == "init":
            # from_bits(octets, len): the written bits are the first `len`; what the spare octets hold is
            # outside the Vec<bool> model, so only sequences whose octets are exactly ceil(len/8) zero-padded
            # octets are judged by it (the others are compared with the Lean model only)
            data, n = bits_of(unhex(p[1])), int(p[2])
            if len(data) != 8 * ((n + 7) // 8) or any(data[n:]):
                return None
            self.bits = data[:n]
            self.rp = 0
            return "ok"
        if k == "at":
            # a write placed inside the written bits changes exactly those bits; the cursor stays
            pos = int(p[1])
            sub = NaiveBuf()
            r = sub.op(":".join(p[2:]))
            if r != "ok":
                return r
            if pos + len(sub.bits) > len(self.bits):
                return None    # reaches beyond the written bits: outside the property
            self.bits[pos:pos + len(sub.bits)] = sub.bits
            return "ok"
        if k == "patch":
            pos, x = int(p[1]), int(p[2])
            if pos < len(self.bits):
                self.bits[pos] = x
                return "ok"
            return None  # outside the property: patching beyond the written bits
        if k == "rb":
            if self.rp < len(self.bits):
                self.rp += 1
                return str(self.bits[self.rp - 1])
            return "err:eos"
        if k in ("r", "ro", "rl", "rr"):
            dn = int(p[1])
            if k == "r":
                off, n = int(p[2]), int(p[3])
            elif k == "ro":
                off = int(p[2])
                if off > 8 * dn:
                    return "err:nospace"
                n = 8 * dn - off
            elif k == "rl":
                off, n = 0, int(p[2])
            else:
                off, n = 0, 8 * dn
            if n > len(self.bits) - self.rp:
                return "err:eos"
            if off + n > 8 * dn:
                return "err:nospace"
            d = [0] * (8 * dn)
            d[off:off + n] = self.bits[self.rp:self.rp + n]
            self.rp += n
            return hexs(bytes_of(d))
        return None


HUGE = [2 ** 64 - 1, 2 ** 64 - 2, 2 ** 64 - 8, 2 ** 64 - 9, 2 ** 64 - 17, 2 ** 64 - 100, 2 ** 63, 2 ** 63 + 1, 2 ** 63 - 1, 2 ** 62]


class BitsStream(runner.Stream):
    name = "bits"
    prefixes = ["bits"]
    exhaustive = True

    def gen(self, rng, tier):
        reqs = []
        # pinned witnesses of the repaired defects run first (corpus)
        reqs += [
            "bits sw ffffffffff 3 00000000 0 20",      # R2: bulk copy must not clear bit 23
            "bits srb 00 8",                           # R1: read_bit at the end
            "bits view aabb 4 rr:1 rem",               # R3: read beyond the declared length
            "bits swo 00 0 00 9",                      # offset beyond source
            "bits sro 00000000 0 00 9",
            "bits buf wb:1 w:00:0:40",                 # failed write must not grow the buffer
        ]
        # single writes that make the buffer grow by more than 64K octets (whole octets: one call of the model;
        # the unaligned ones take the Lean mirror a minute each and run in the thorough tier)
        big = rng.fork("big")
        reqs += [f"bits buf ww:{hexs(big.bytes(65537))}", f"bits buf ww:{hexs(big.bytes(65536))}",
                 f"bits buf ww:{hexs(big.bytes(3))} ww:{hexs(big.bytes(70000))} wb:1 rr:2",
                 f"bits buf wl:{hexs(big.bytes(66000))}:{8 * 65999} wb:0"]
        if tier != "quick":
            reqs += [f"bits buf wb:1 wb:0 wb:1 w:{hexs(big.bytes(70001))}:5:559997 wb:1",
                     f"bits buf wb:1 wo:{hexs(big.bytes(65540))}:3"]
        # exhaustive small buffers, two fill patterns
        maxb = 3 if tier == "quick" else 4
        pats = [(0xA5, 0xFF), (0x3C, 0x00)]
        for sl in range(0, maxb + 1):
            for dl in range(0, maxb + 1):
                for (sf, df) in pats:
                    src = bytes(((sf + 29 * i) & 0xFF) for i in range(sl))
                    dst = bytes([df] * dl)
                    for sp in range(0, 8 * sl + 2):
                        for dp in range(0, 8 * dl + 2):
                            top = min(8 * sl - sp, 8 * dl - dp)
                            lens = list(range(0, max(top, 0) + 2))
                            if tier == "quick" and sl == 3 and dl == 3:
                                # thin out: all lengths that select a distinct branch combination
                                lens = [l for l in lens if l <= 2 or l >= 15 or l % 3 == 0]
                            for n in lens:
                                reqs.append(f"bits sw {hexs(dst)} {dp} {hexs(src)} {sp} {n}")
        # random larger buffers through both directions
        k = 6000 if tier == "quick" else 200000
        for _ in range(k):
            sl, dl = rng.range(0, 64), rng.range(0, 64)
            src, dst = rng.bytes(sl), rng.bytes(dl)
            sp, dp = rng.range(0, 8 * sl + 1), rng.range(0, 8 * dl + 1)
            top = min(8 * sl - sp, 8 * dl - dp)
            n = rng.range(0, max(top, 0) + 1) if rng.chance(9, 10) else rng.range(0, 600)
            op = "sw" if rng.chance(1, 2) else "sr"
            if op == "sw":
                reqs.append(f"bits sw {hexs(dst)} {dp} {hexs(src)} {sp} {n}")
            else:
                reqs.append(f"bits sr {hexs(src)} {sp} {hexs(dst)} {dp} {n}")
        for _ in range(k // 10):
            sl = rng.range(0, 9)
            src = rng.bytes(sl)
            pos = rng.range(0, 8 * sl + 2)
            reqs.append(f"bits srb {hexs(src)} {pos}")
            reqs.append(f"bits swb {hexs(src)} {pos} {rng.below(2)}")
            dl = rng.range(0, 9)
            reqs.append(f"bits swo {hexs(rng.bytes(dl))} {rng.range(0, 8 * dl + 1)} {hexs(src)} {rng.range(0, 8 * sl + 3)}")
            reqs.append(f"bits sro {hexs(src)} {rng.range(0, 8 * sl + 1)} {hexs(rng.bytes(dl))} {rng.range(0, 8 * dl + 3)}")
        # operation sequences on the growable buffer and the read-only view
        m = 1500 if tier == "quick" else 10000
        maxops = 30 if tier == "quick" else 200
        for _ in range(m):
            ops = []
            written = 0
            for _ in range(rng.range(1, maxops)):
                c = rng.below(12)
                if c <= 1:
                    ops.append(f"wb:{rng.below(2)}")
                    written += 1
                elif c <= 4:
                    sl = rng.range(0, 12)
                    off = rng.range(0, 8 * sl + 1)
                    n = rng.range(0, max(8 * sl - off, 0) + (2 if rng.chance(1, 8) else 0))
                    ops.append(f"w:{hexs(rng.bytes(sl))}:{off}:{n}")
                elif c == 5:
                    sl = rng.range(0, 6)
                    ops.append(f"wo:{hexs(rng.bytes(sl))}:{rng.range(0, 8 * sl + 1)}")
                elif c == 6:
                    sl = rng.range(0, 6)
                    ops.append(f"wl:{hexs(rng.bytes(sl))}:{rng.range(0, 8 * sl + 1)}")
                elif c == 7:
                    ops.append(f"ww:{hexs(rng.bytes(rng.range(0, 5)))}")
                elif c == 8:
                    ops.append("rb")
                elif c == 9:
                    dn = rng.range(0, 6)
                    off = rng.range(0, 8 * dn)
                    n = rng.range(0, max(8 * dn - off, 0) + 1)
                    if rng.chance(1, 10):
                        n = rng.choice(HUGE)       # a length no buffer holds: an error, never an overflow
                    ops.append(f"r:{dn}:{off}:{n}")
                elif c == 10:
                    dn = rng.range(0, 4)
                    n = rng.choice(HUGE) if rng.chance(1, 10) else rng.range(0, 8 * dn)
                    ops.append(rng.choice([f"rr:{dn}", f"rl:{dn}:{n}", f"ro:{dn}:{rng.range(0, 8 * dn + 1)}"]))
                else:
                    ops.append(f"patch:{rng.range(0, 40)}:{rng.below(2)}")
            reqs.append("bits buf " + " ".join(ops))
        # writes placed at a position (`with_write_position_at`) and buffers taken over from octets
        # (`from_bits`, with and without spare octets): in place, nothing else changes, the cursor stays
        r2 = rng.fork("placed")
        for i in range(m):
            ops = []
            written = 0
            if i % 3 != 0:
                nb = r2.range(0, 10)
                written = r2.range(0, 8 * nb) if r2.chance(1, 2) else 8 * r2.range(0, nb)
                if r2.chance(1, 2):
                    data = bytearray(r2.bytes((written + 7) // 8))
                    if written % 8:
                        data[-1] &= (0xFF << (8 - written % 8)) & 0xFF
                    data = bytes(data)
                else:
                    data = r2.bytes(nb)             # spare octets behind the bits
                ops.append(f"init:{hexs(data)}:{written}")
            for _ in range(r2.range(1, 14)):
                c = r2.below(10)
                sl = r2.range(0, 5)
                src = hexs(r2.bytes(sl))
                if c <= 2:
                    w = r2.choice([f"ww:{src}", f"wl:{src}:{r2.range(0, 8 * sl)}", f"wb:{r2.below(2)}",
                                   f"w:{src}:{r2.range(0, 8 * sl)}:{r2.range(0, 8 * sl)}"])
                    sub = NaiveBuf()
                    if sub.op(w) == "ok":
                        written += len(sub.bits)
                    ops.append(w)
                elif c <= 7:
                    off = r2.range(0, 8 * sl)
                    n = r2.range(0, max(8 * sl - off, 0))
                    w = r2.choice([f"ww:{src}", f"ww:{src}", f"wl:{src}:{r2.range(0, 8 * sl)}", f"wb:{r2.below(2)}",
                                   f"w:{src}:{off}:{n}", f"wo:{src}:{off}"])
                    sub = NaiveBuf()
                    k = len(sub.bits) if sub.op(w) == "ok" else 0
                    top = max(written - k, 0)
                    pos = 8 * r2.range(0, top // 8) if r2.chance(1, 2) else r2.range(0, top)
                    if r2.chance(1, 12):
                        pos = r2.range(0, written + 9)
                    ops.append(f"at:{pos}:{w}")
                elif c == 8:
                    ops.append("rb")
                else:
                    dn = r2.range(0, 4)
                    ops.append(f"rr:{dn}")
            reqs.append("bits buf " + " ".join(ops))
        for _ in range(m):
            sl = rng.range(0, 8)
            ln = rng.range(0, 8 * sl)
            ops = []
            for _ in range(rng.range(1, 12)):
                c = rng.below(8)
                if c <= 1:
                    ops.append("rb")
                elif c <= 3:
                    dn = rng.range(0, 4)
                    off = rng.range(0, 8 * dn)
                    ops.append(f"r:{dn}:{off}:{rng.range(0, max(8 * dn - off, 0))}")
                elif c == 4:
                    dn = rng.range(0, 3)
                    ops.append(rng.choice([f"rr:{dn}", f"rl:{dn}:{rng.range(0, 8 * dn)}", f"ro:{dn}:{rng.range(0, 8 * dn + 1)}"]))
                elif c == 5:
                    ops.append(f"pos:{rng.range(0, 8 * sl + 3)}")
                elif c == 6:
                    ops.append(f"len:{rng.range(0, 8 * sl + 3)}")
                else:
                    ops.append("rem")
            reqs.append(f"bits view {hexs(rng.bytes(sl))} {ln} " + " ".join(ops))
        return reqs

    # ------------------------------------------------------------------ oracle (implementation only)
    def oracle(self, req, ans):
        t = req.split(" ")
        if ans in ("panic", "abort", "hang") or ans.endswith(" panic"):
            if t[1] == "buf" and any(o.startswith(("patch:", "at:")) for o in t[2:]):
                # patching at/after the written bits is outside the property (debug assertion)
                nb = NaiveBuf()
                for o in t[2:]:
                    if nb.op(o) is None:
                        return None
                return "panic in a bit-buffer operation sequence"
            return "panic instead of Ok/Err"
        if t[1] in ("sw", "sr"):
            if t[1] == "sw":
                dst, dp, src, sp, n = unhex(t[2]), int(t[3]), unhex(t[4]), int(t[5]), int(t[6])
                cursor = dp
            else:
                src, sp, dst, dp, n = unhex(t[2]), int(t[3]), unhex(t[4]), int(t[5]), int(t[6])
                cursor = sp
            exp = naive_copy(src, sp, dst, dp, n)
            want = f"ok {hexs(exp[1])} {cursor + n}" if exp[0] == "ok" else f"err {exp[1]}"
            return None if ans == want else f"naive model expects `{want}`"
        if t[1] == "srb":
            src, pos = unhex(t[2]), int(t[3])
            want = f"ok {bits_of(src)[pos]} {pos + 1}" if pos < 8 * len(src) else "err eos"
            return None if ans == want else f"naive model expects `{want}`"
        if t[1] == "swb":
            dst, pos, x = unhex(t[2]), int(t[3]), int(t[4])
            if pos < 8 * len(dst):
                d = bits_of(dst)
                d[pos] = x
                want = f"ok {hexs(bytes_of(d))} {pos + 1}"
            else:
                want = "err eos"
            return None if ans == want else f"naive model expects `{want}`"
        if t[1] in ("swo", "sro"):
            if t[1] == "swo":
                dst, dp, src, sp = unhex(t[2]), int(t[3]), unhex(t[4]), int(t[5])
                if sp > 8 * len(src):
                    want = "err eos"
                else:
                    n = 8 * len(src) - sp
                    exp = naive_copy(src, sp, dst, dp, n)
                    want = f"ok {hexs(exp[1])} {dp + n}" if exp[0] == "ok" else f"err {exp[1]}"
            else:
                src, sp, dst, dp = unhex(t[2]), int(t[3]), unhex(t[4]), int(t[5])
                if dp > 8 * len(dst):
                    want = "err nospace"
                else:
                    n = 8 * len(dst) - dp
                    exp = naive_copy(src, sp, dst, dp, n)
                    want = f"ok {hexs(exp[1])} {sp + n}" if exp[0] == "ok" else f"err {exp[1]}"
            return None if ans == want else f"naive model expects `{want}`"
        if t[1] == "buf":
            nb = NaiveBuf()
            want = []
            for o in t[2:]:
                r = nb.op(o)
                if r is None:
                    return None  # sequence leaves the property's domain (patch beyond written bits)
                want.append(r)
            want += ["|", hexs(bytes_of(nb.bits)), str(len(nb.bits)), str(nb.rp)]
            w = " ".join(want)
            return None if ans == w else f"Vec<bool> model expects `{w[:200]}`"
        if t[1] == "view":
            data, ln = unhex(t[2]), int(t[3])
            bits = bits_of(data)
            pos = 0
            want = []
            for o in t[4:]:
                p = o.split(":")
                if p[0] == "rb":
                    if pos < ln:
                        want.append(str(bits[pos]))
                        pos += 1
                    else:
                        want.append("err:eos")
                elif p[0] in ("r", "ro", "rl", "rr"):
                    dn = int(p[1])
                    if p[0] == "r":
                        off, n = int(p[2]), int(p[3])
                    elif p[0] == "ro":
                        off = int(p[2])
                        n = 8 * dn - off
                        if n < 0:
                            want.append("err:eos" if 0 > ln - pos else "err:nospace")
                            continue
                    elif p[0] == "rl":
                        off, n = 0, int(p[2])
                    else:
                        off, n = 0, 8 * dn
                    if n > max(ln - pos, 0):
                        want.append("err:eos")
                    elif off + n > 8 * dn:
                        want.append("err:nospace")
                    else:
                        d = [0] * (8 * dn)
                        d[off:off + n] = bits[pos:pos + n]
                        pos += n
                        want.append(hexs(bytes_of(d)))
                elif p[0] == "pos":
                    pos = min(int(p[1]), ln)
                    want.append(str(pos))
                elif p[0] == "len":
                    ln = min(int(p[1]), 8 * len(data))
                    want.append(str(ln))
                    if pos > ln:
                        return None   # cursor beyond a shrunk window: outside the property
                elif p[0] == "rem":
                    want.append(str(max(ln - pos, 0)))
            want += ["|", str(pos), str(ln)]
            w = " ".join(want)
            return None if ans == w else f"naive model expects `{w[:200]}`"
        return None

    def tag(self, req, ans):
        t = req.split(" ")
        if t[1] in ("sw", "sr"):
            n = int(t[6])
            off = int(t[3]) % 8
            return f"{t[1]}:{'bulk' if n > 16 else 'bitwise'}:{'aligned' if off == 0 else 'unaligned'}:{ans.split(' ')[0]}{(':' + ans.split(' ')[1]) if ans.startswith('err') else ''}"
        return f"{t[1]}:{'err' if 'err' in ans else 'ok'}"

    def nontrivial(self, req, ans):
        t = req.split(" ")
        if t[1] in ("sw", "sr"):
            return ans.startswith("ok") and int(t[6]) > 0
        return True


class Spec(runner.Spec):
    prop = "C11"
    streams = [BitsStream()]
    assumptions = [
        "dev profile (overflow checks, debug assertions) as used by the project's tests; the release profile is not modelled",
        "Rust semantics of the mirrored functions is tied to the Lean mirror only by differential execution (stream `bits`)",
        "patching a bit at or beyond the written length (with_write_position_at) is outside the property (debug assertion)",
    ]
    trusted_base = [
        "Lean 4.33 kernel; axioms per theorem listed under coverage.theorems (allowed: propext, Classical.choice, Quot.sound)",
        "tools/extract_consts.py (BYTE_LEN, bulk threshold)",
        "hand-written mirror Bits/Slice.lean, Bits/Buffer.lean of slice.rs, buffer.rs — tied by the correspondence stream",
        "harness/src/bits.rs, Driver/BitsStream.lean, tools/checks/c11.py (naive Vec<bool> oracle in Python)",
    ]
