"""C10 — PER primitive codecs are correct for every runtime bound and value.

Stream `per`: the public `PackedWrite`/`PackedRead` primitives of per/unaligned/mod.rs, answered by
the real crate (harness/src/per.rs) and by the Lean mirror (Driver/PerStream.lean).

The oracle below is an independent transcription of X.691 (08/2015, UNALIGNED) into Python:
an encoder (`enc_*`) and a decoder (`dec_*`) on strings of '0'/'1'.  It never calls the model.
  write op, admissible arguments      -> the answer must be `ok <exactly the X.691 bits>`
  write op, inadmissible arguments    -> `err <any class>`
  rt-octn / rt-bitsn                  -> `ok <bit length> <FNV-1a of the X.691 bits> 1 0`
  read op, input starts with the canonical X.691 encoding of some value
                                      -> `ok <that value> <length of that encoding>`
  read op, input is a proper prefix of what a decoder still needs (truncated)
                                      -> `err <any class>`
  read op, anything else              -> not `panic`, consumed <= len(input)
"""
import runner

U64 = (1 << 64) - 1
I64_MAX = (1 << 63) - 1
I64_MIN = -(1 << 63)
K16 = 16384
K64 = 65536

FINDING_64K = "per.len_ub_ge_64k"


# ------------------------------------------------------------------------------- X.691 encoder

def nb(w, n):
    """non-negative-binary-integer `n` in a field of `w` bits (11.3)"""
    if w == 0:
        return ""
    return format(n & ((1 << w) - 1), "b").zfill(w)


def enc_offset(rng, n):
    """11.5.3-6: offset n in a range of rng+1 values; empty for a single value"""
    return "" if rng == 0 else nb(rng.bit_length(), n)


def enc_constrained(lb, ub, v):
    return enc_offset(ub - lb, v - lb)


def enc_len_u(n):
    """11.9.3.5-8 -> (bits, announced fragment or None)"""
    if n <= 127:
        return "0" + nb(7, n), None
    if n < K16:
        return "10" + nb(14, n), None
    m = min(n // K16, 4)
    return "11" + nb(6, m), m * K16


def enc_len(lb, ub, n):
    """11.9.4"""
    if ub is not None and ub < K64:
        return enc_offset(ub - (lb or 0), n - (lb or 0)), None
    return enc_len_u(n)


def nn_octets(n):
    return max(1, (n.bit_length() + 7) // 8)


def enc_semi_nat(n):
    k = nn_octets(n)
    return enc_len_u(k)[0] + nb(8 * k, n)


def twos_octets(v):
    k = 1
    while not (-(1 << (8 * k - 1)) <= v < (1 << (8 * k - 1))):
        k += 1
    return k


def enc_twos(w, v):
    return nb(w, v & ((1 << w) - 1))


def enc_unc(v):
    k = twos_octets(v)
    return enc_len_u(k)[0] + enc_twos(8 * k, v)


def enc_small(n):
    return "0" + nb(6, n) if n <= 63 else "1" + enc_semi_nat(n)


def enc_index(std, ext, i):
    if i < std:
        return ("0" if ext else "") + enc_offset(std - 1, i)
    return "1" + enc_small(i - std)


def enc_frag_u(items, unit):
    """11.9.3.8: items (a bit string, `unit` bits per item) under the unconstrained length form"""
    n = len(items) // unit
    out = []
    pos = 0
    while True:
        rem = n - pos
        if rem < K16:
            out.append(enc_len_u(rem)[0])
            out.append(items[pos * unit:])
            break
        m = min(rem // K16, 4)
        out.append("11" + nb(6, m))
        out.append(items[pos * unit:(pos + m * K16) * unit])
        pos += m * K16
    return "".join(out)


def in_root(lb, ub, n):
    return (lb or 0) <= n and (ub is None or n <= ub)


def enc_sized(lb, ub, ext, items, unit):
    """16 / 17; None when the value is not admissible (outside the root, not extensible)"""
    n = len(items) // unit
    if not in_root(lb, ub, n):
        return "1" + enc_frag_u(items, unit) if ext else None
    pre = "0" if ext else ""
    if ub is not None:
        if ub == 0:
            return pre
        if lb == ub and ub < K64:
            return pre + items
        if ub < K64:
            return pre + enc_offset(ub - (lb or 0), n - (lb or 0)) + items
    return pre + enc_frag_u(items, unit)


# ------------------------------------------------------------------------------- X.691 decoder

class Trunc(Exception):
    pass


class Invalid(Exception):
    pass


class Rd:
    def __init__(self, bits):
        self.b = bits
        self.p = 0

    def take(self, n):
        if self.p + n > len(self.b):
            raise Trunc()
        s = self.b[self.p:self.p + n]
        self.p += n
        return s

    def num(self, w):
        s = self.take(w)
        return int(s, 2) if s else 0


def dec_offset(rd, rng):
    v = rd.num(rng.bit_length())
    if v > rng:
        raise Invalid()
    return v


def dec_len_u(rd):
    """-> (n, is_fragment)"""
    if rd.take(1) == "0":
        return rd.num(7), False
    if rd.take(1) == "0":
        return rd.num(14), False
    m = rd.num(6)
    if not 1 <= m <= 4:
        raise Invalid()
    return m * K16, True


def dec_len(rd, lb, ub):
    if ub is not None and ub < K64:
        if (lb or 0) > ub:
            raise Invalid()
        return (lb or 0) + dec_offset(rd, ub - (lb or 0)), False
    return dec_len_u(rd)


def dec_semi_nat(rd):
    k, frag = dec_len_u(rd)
    if frag or k == 0:
        raise Invalid()
    return rd.num(8 * k)


def dec_unc(rd):
    k, frag = dec_len_u(rd)
    if frag or k == 0:
        raise Invalid()
    v = rd.num(8 * k)
    return v - (1 << (8 * k)) if v >> (8 * k - 1) else v


def dec_small(rd):
    if rd.take(1) == "0":
        return rd.num(6)
    return dec_semi_nat(rd)


def dec_frag_u(rd, unit):
    out = []
    while True:
        n, frag = dec_len_u(rd)
        out.append(rd.take(n * unit))
        if not frag:
            return "".join(out)


def dec_sized(rd, lb, ub, ext, unit):
    if ext and rd.take(1) == "1":
        return dec_frag_u(rd, unit)
    if ub is not None:
        if ub == 0:
            return ""
        if lb == ub and ub < K64:
            return rd.take(ub * unit)
        if ub < K64:
            if (lb or 0) > ub:
                raise Invalid()
            n = (lb or 0) + dec_offset(rd, ub - (lb or 0))
            return rd.take(n * unit)
    return dec_frag_u(rd, unit)


# ----------------------------------------------------------------------------------- helpers

def opt(s):
    return None if s == "none" else int(s)


def ostr(x):
    return "none" if x is None else str(x)


def bstr(bits):
    return bits if bits else "-"


def unb(s):
    return "" if s == "-" else s


def hex_bits(h):
    return "" if h == "-" else "".join(format(b, "08b") for b in bytes.fromhex(h))


def bits_hex(bits):
    if not bits:
        return "-"
    return "".join(format(int(bits[i:i + 8], 2), "02x") for i in range(0, len(bits), 8))


def gen_bytes_bits(n, seed):
    """harness/src/per.rs::gen_bytes as a bit string"""
    return "".join(format((i * 37 + seed * 101 + (i >> 8)) & 0xFF, "08b") for i in range(n))


def fnv_bits(bits):
    """harness/src/per.rs::fnv_bits"""
    h = 0xCBF29CE484222325
    p = 0x100000001B3
    m = U64
    for c in bits:
        if c == "1":
            h ^= 1
        h = (h * p) & m
    return h


def deviates(lb, ub):
    """the region of finding F-64k, from the bounds alone"""
    return (lb is not None or ub is not None) and (ub is None or ub >= K64)


def boundary_u64():
    s = {0, 1, 2, 3, 62, 63, 64, 65, 126, 127, 128, 129, 255, 256, 16382, 16383, 16384, 16385, 65534, 65535,
         65536, 65537, I64_MAX - 1, I64_MAX, I64_MAX + 1, U64 - 1, U64}
    for k in range(64):
        s |= {(1 << k) - 1, 1 << k, (1 << k) + 1}
    return sorted(x for x in s if 0 <= x <= U64)


def boundary_i64():
    s = set()
    for x in boundary_u64():
        for y in (x, -x, -x - 1, -x + 1):
            if I64_MIN <= y <= I64_MAX:
                s.add(y)
    s |= {I64_MIN, I64_MIN + 1, I64_MAX, I64_MAX - 1}
    return sorted(s)


# ----------------------------------------------------------------- the specification of one request

def spec_write(t):
    """expected result of a write request: ('ok', answer text) | ('err',) | ('any',)"""
    op = t[1]
    if op == "w-nnbi":
        lb, ub, v = opt(t[2]), opt(t[3]), int(t[4])
        if lb is None and ub is None:
            return ("ok", bstr(enc_semi_nat(v)))
        lo, up = (lb or 0), (I64_MAX if ub is None else ub)
        if lo <= v <= up:
            return ("ok", bstr(nb((up - lo).bit_length(), v - lo)))
        return ("err",)
    if op == "w-len":
        lb, ub, v = opt(t[2]), opt(t[3]), int(t[4])
        if not in_root(lb, ub, v):
            return ("err",)
        bits, frag = enc_len(lb, ub, v)
        return ("ok", bstr(bits) + " " + ostr(frag))
    if op == "w-2s":
        bl, v = int(t[2]), int(t[3])
        if bl == 0 or bl > 64:
            return ("err",)
        if -(1 << (bl - 1)) <= v < (1 << (bl - 1)):
            return ("ok", bstr(enc_twos(bl, v)))
        return ("any",)      # value does not fit the field: outside the property (see report)
    if op == "w-con":
        lb, ub, v = int(t[2]), int(t[3]), int(t[4])
        if lb <= v <= ub:
            return ("ok", bstr(enc_constrained(lb, ub, v)))
        return ("err",)
    if op == "w-small":
        return ("ok", bstr(enc_small(int(t[2]))))
    if op == "w-semi":
        lb, v = int(t[2]), int(t[3])
        return ("ok", bstr(enc_semi_nat(v - lb))) if v >= lb else ("err",)
    if op == "w-unc":
        return ("ok", bstr(enc_unc(int(t[2]))))
    if op == "w-idx":
        std, ext, i = int(t[2]), t[3] == "1", int(t[4])
        if i < std or ext:
            return ("ok", bstr(enc_index(std, ext, i)))
        return ("err",)
    if op in ("w-oct", "w-bits"):
        lb, ub, ext = opt(t[2]), opt(t[3]), t[4] == "1"
        items = hex_bits(t[5]) if op == "w-oct" else unb(t[5])
        e = enc_sized(lb, ub, ext, items, 8 if op == "w-oct" else 1)
        return ("err",) if e is None else ("ok", bstr(e))
    if op in ("rt-octn", "rt-bitsn"):
        lb, ub, ext, n, seed = opt(t[2]), opt(t[3]), t[4] == "1", int(t[5]), int(t[6])
        if op == "rt-octn":
            items, unit = gen_bytes_bits(n, seed), 8
        else:
            items, unit = gen_bytes_bits((n + 7) // 8, seed)[:n], 1
        e = enc_sized(lb, ub, ext, items, unit)
        if e is None:
            return ("err",)
        return ("ok", f"{len(e)} {fnv_bits(e):016x} 1 0")
    return None


def spec_read(t):
    """('ok', value text, consumed) when the input starts with a canonical encoding,
       ('trunc',) when a decoder runs out of input, ('err',) when the arguments are inadmissible,
       ('other',) otherwise"""
    op = t[1]
    bits = unb(t[-1])
    rd = Rd(bits)
    try:
        if op == "r-nnbi":
            lb, ub = opt(t[2]), opt(t[3])
            if lb is None and ub is None:
                v = dec_semi_nat(rd)
                re = enc_semi_nat(v)
            else:
                lo, up = (lb or 0), (I64_MAX if ub is None else ub)
                if lo > up:
                    return ("other",)
                v = lo + dec_offset(rd, up - lo)
                re = nb((up - lo).bit_length(), v - lo)
            if v > U64:
                return ("other",)
            val = str(v)
        elif op == "r-len":
            lb, ub = opt(t[2]), opt(t[3])
            v, frag = dec_len(rd, lb, ub)
            e, f = enc_len(lb, ub, v)
            re = e
            if frag != (f is not None) or (frag and f != v):
                return ("other",)
            val = str(v)
        elif op == "r-2s":
            bl = int(t[2])
            if bl == 0 or bl > 64:
                return ("err",)
            x = rd.num(bl)
            v = x - (1 << bl) if x >> (bl - 1) else x
            re = enc_twos(bl, v)
            val = str(v)
        elif op == "r-con":
            lb, ub = int(t[2]), int(t[3])
            if lb > ub:
                return ("other",)
            v = lb + dec_offset(rd, ub - lb)
            re = enc_constrained(lb, ub, v)
            val = str(v)
        elif op == "r-small":
            v = dec_small(rd)
            if v > U64:
                return ("other",)
            re = enc_small(v)
            val = str(v)
        elif op == "r-semi":
            lb = int(t[2])
            n = dec_semi_nat(rd)
            v = n + lb
            if not I64_MIN <= v <= I64_MAX:
                return ("other",)
            re = enc_semi_nat(n)
            val = str(v)
        elif op == "r-unc":
            v = dec_unc(rd)
            if not I64_MIN <= v <= I64_MAX:
                return ("other",)
            re = enc_unc(v)
            val = str(v)
        elif op == "r-idx":
            std, ext = int(t[2]), t[3] == "1"
            if ext and rd.take(1) == "1":
                v = std + dec_small(rd)
            else:
                if std == 0:
                    return ("err",)
                v = dec_offset(rd, std - 1)
            if v > U64:
                return ("other",)
            re = enc_index(std, ext, v)
            val = str(v)
        elif op in ("r-oct", "r-bits"):
            lb, ub, ext = opt(t[2]), opt(t[3]), t[4] == "1"
            unit = 8 if op == "r-oct" else 1
            items = dec_sized(rd, lb, ub, ext, unit)
            re = enc_sized(lb, ub, ext, items, unit)
            if re is None:
                return ("other",)
            val = bits_hex(items) if op == "r-oct" else bstr(items)
        else:
            return None
    except Trunc:
        return ("trunc",)
    except Invalid:
        return ("other",)
    if re != bits[:rd.p]:
        return ("other",)     # decodable but not the canonical encoding
    return ("ok", val, rd.p)


# ----------------------------------------------------------------------------------- the stream

class PerStream(runner.Stream):
    name = "per"
    prefixes = ["per"]
    exhaustive = True

    def __init__(self):
        self._cache = {}

    # ............................................................................ generator
    def gen(self, rng, tier):
        full = tier != "quick"
        reqs = []
        add = reqs.append
        BU, BI = boundary_u64(), boundary_i64()

        def reads(op, args, bits, n_trunc=2):
            """a read request on a valid encoding, followed by data, and truncated"""
            a = (" " + " ".join(args)) if args else ""
            add(f"per {op}{a} {bstr(bits)}")
            if rng.chance(1, 3):
                add(f"per {op}{a} {bstr(bits + format(rng.below(256), '08b'))}")
            for _ in range(n_trunc):
                if bits:
                    add(f"per {op}{a} {bstr(bits[:rng.below(len(bits))])}")

        # -- corpus: witnesses of the repaired defects and of the open finding
        reqs += [
            "per w-len none none 4194304", "per w-len 1 none 1", "per w-len 0 3 9", "per w-con 5 5 7",
            "per w-con -9223372036854775808 9223372036854775807 -1",
            "per w-semi -9223372036854775808 9223372036854775807", "per r-idx 0 0 1", "per w-semi 5 5",
            "per rt-bitsn none none 0 20000 1", "per rt-octn 0 60000 0 20000 1",
            "per rt-octn 1 300000 0 20000 3", "per w-2s 65 1", "per w-2s 0 1", "per w-idx 0 0 0",
            "per w-len 70000 70000 5", "per rt-octn 70000 70000 0 70000 3", "per rt-bitsn 0 65536 0 20000 2",
        ]

        # -- 1. constrained whole numbers: exhaustive (lb, ub, v), |range| <= 300, lb in [-40, 40]
        lbs = range(-40, 41) if full else (-40, -1, 0, 7, 40)
        for lb in lbs:
            for size in range(1, 301):
                ub = lb + size - 1
                if full or size <= 32:
                    vs = range(lb, ub + 1)
                else:
                    top = 1 << ((size - 1).bit_length() - 1)
                    vs = sorted({lb, lb + 1, ub - 1, ub, lb + top - 1, lb + top, lb + size // 2})
                for v in vs:
                    add(f"per w-con {lb} {ub} {v}")
                    if (not full and rng.chance(1, 4)) or (full and rng.chance(1, 12)):
                        reads("r-con", [str(lb), str(ub)], enc_constrained(lb, ub, v), 1)
                add(f"per w-con {lb} {ub} {lb - 1}")
                add(f"per w-con {lb} {ub} {ub + 1}")
        # the same family through the unsigned primitives: nnbi, length, index
        for lb in (range(0, 41) if full else (0, 1, 7, 40)):
            for size in range(1, 301):
                ub = lb + size - 1
                if (full and size <= 64) or size <= 16:
                    vs = range(lb, ub + 1)
                else:
                    top = 1 << ((size - 1).bit_length() - 1)
                    vs = sorted({lb, lb + 1, ub - 1, ub, lb + top - 1, lb + top})
                for v in vs:
                    add(f"per w-len {lb} {ub} {v}")
                    add(f"per w-nnbi {lb} {ub} {v}")
                    if rng.chance(1, 6):
                        reads("r-len", [str(lb), str(ub)], enc_len(lb, ub, v)[0], 1)
                        reads("r-nnbi", [str(lb), str(ub)], enc_offset(ub - lb, v - lb), 1)
                for v in (lb - 1, ub + 1):
                    if v >= 0:
                        add(f"per w-len {lb} {ub} {v}")
                        add(f"per w-nnbi {lb} {ub} {v}")
                if lb == 0:
                    add(f"per w-len none {ub} {ub}")
                    add(f"per w-len none {ub} {ub + 1}")
        for std in range(0, 301):
            for ext in (0, 1):
                if full or std <= 20:
                    iv = list(range(0, std + 3))
                else:
                    iv = sorted({0, 1, std // 2, std - 1, std, std + 1})
                iv += [std + 62, std + 63, std + 64, std + 65, std + 255, std + 256]
                for i in iv:
                    add(f"per w-idx {std} {ext} {i}")
                    if (i < std or ext) and rng.chance(1, 5):
                        reads("r-idx", [str(std), str(ext)], enc_index(std, bool(ext), i), 1)

        # -- 2. boundary families for every write op
        for v in BU:
            add(f"per w-nnbi none none {v}")
            add(f"per w-small {v}")
            add(f"per w-len none none {v}")
            reads("r-nnbi", ["none", "none"], enc_semi_nat(v))
            reads("r-small", [], enc_small(v))
            reads("r-len", ["none", "none"], enc_len_u(v)[0])
            for ub in (v, None):
                for lb in (None, 0, 1, v // 2, v):
                    if ub is not None and lb is not None and lb > ub:
                        continue
                    lo, up = lb or 0, (I64_MAX if ub is None else ub)
                    for x in {lo, up, (lo + up) // 2, lo - 1, up + 1, lo + 1}:
                        if 0 <= x <= U64 and (lb is not None or ub is not None):
                            add(f"per w-nnbi {ostr(lb)} {ostr(ub)} {x}")
                            add(f"per w-len {ostr(lb)} {ostr(ub)} {x}")
                            if lo <= x <= up and rng.chance(1, 4):
                                reads("r-nnbi", [ostr(lb), ostr(ub)], nb((up - lo).bit_length(), x - lo), 1)
                                reads("r-len", [ostr(lb), ostr(ub)], enc_len(lb, ub, x)[0], 1)
            for ext in (0, 1):
                for i in {0, 1, v - 1, v, v + 1, v + 63, v + 64, U64}:
                    if 0 <= i <= U64:
                        add(f"per w-idx {v} {ext} {i}")
                        if (i < v or ext) and rng.chance(1, 3):
                            reads("r-idx", [str(v), str(ext)], enc_index(v, bool(ext), i), 1)
        for v in BI:
            add(f"per w-unc {v}")
            reads("r-unc", [], enc_unc(v))
            need = max(1, (v if v >= 0 else -v - 1).bit_length() + 1)     # least field width holding v
            for bl in (1, 2, 7, 8, 9, 16, 31, 32, 33, 63, 64, twos_octets(v) * 8, need, need - 1):
                if 1 <= bl <= 64 and (bl >= need - 1 or full or bl in (1, 8, 63)):
                    add(f"per w-2s {bl} {v}")
                    if bl >= need and (full or rng.chance(1, 2)):
                        reads("r-2s", [str(bl)], enc_twos(bl, v), 1)
            for lb in (v, I64_MIN, -1, 0, 1, v - 1, v // 2):
                if I64_MIN <= lb <= I64_MAX:
                    add(f"per w-semi {lb} {v}")
                    if lb <= v and rng.chance(1, 2):
                        reads("r-semi", [str(lb)], enc_semi_nat(v - lb), 1)
            pairs = ((v, v), (I64_MIN, v), (v, I64_MAX), (0, v), (v, 0), (-1, v), (v, v + 1), (v - 1, v + 2),
                     (I64_MIN, I64_MAX), (-v - 1, v))
            for (lb, ub) in (pairs if full else pairs[:4] + (rng.choice(pairs[4:]),)):
                if I64_MIN <= lb <= I64_MAX and I64_MIN <= ub <= I64_MAX:
                    for x in {lb, ub, lb + 1, ub - 1, lb - 1, ub + 1, (lb + ub) // 2, v}:
                        if I64_MIN <= x <= I64_MAX:
                            add(f"per w-con {lb} {ub} {x}")
                            if lb <= x <= ub and rng.chance(1, 5):
                                reads("r-con", [str(lb), str(ub)], enc_constrained(lb, ub, x), 1)
        # -- 3. inadmissible bit lengths
        for bl in (0, 65, 66, 100, 128, 1 << 32, U64):
            for v in (0, 1, -1, I64_MIN, I64_MAX):
                add(f"per w-2s {bl} {v}")
            add(f"per r-2s {bl} {'1' * 70}")
            add(f"per r-2s {bl} -")

        # -- 4. octet / bit strings: short values under all shapes of (lb, ub, ext)
        bounds = [None, 0, 1, 2, 3, 5, 17, 127, 128, 16383, 16384, 65535, 65536, 70000, I64_MAX, U64]
        maxlen = 9 if full else 6
        for n in list(range(0, maxlen)) + [16, 17, 127, 128, 130]:
            for lb in bounds:
                for ub in bounds:
                    for ext in (0, 1):
                        if n > 8 and not rng.chance(1, 3 if full else 8):
                            continue
                        data = rng.bytes((n + 7) // 8 if n <= 17 else n)
                        h = data[:n].hex() if n else "-"
                        bits = "".join(format(b, "08b") for b in data)[:n]
                        add(f"per w-oct {ostr(lb)} {ostr(ub)} {ext} {h}")
                        add(f"per w-bits {ostr(lb)} {ostr(ub)} {ext} {bstr(bits)}")
                        if rng.chance(1, 3):
                            eo = enc_sized(lb, ub, bool(ext), hex_bits(h), 8)
                            if eo is not None:
                                reads("r-oct", [ostr(lb), ostr(ub), str(ext)], eo, 1)
                            eb = enc_sized(lb, ub, bool(ext), bits, 1)
                            if eb is not None:
                                reads("r-bits", [ostr(lb), ostr(ub), str(ext)], eb, 1)
        # strings around the length-form boundaries, written out in full
        for n in (126, 127, 128, 129, 255, 256, 1000):
            h = rng.bytes(n).hex()
            for (lb, ub, ext) in ((None, None, 0), (0, 65535, 0), (n, n, 0), (0, 10, 1), (None, None, 1), (1, None, 0)):
                add(f"per w-oct {ostr(lb)} {ostr(ub)} {ext} {h}")
                add(f"per w-bits {ostr(lb)} {ostr(ub)} {ext} {hex_bits(h)[:n]}")
                if not deviates(lb, ub):
                    reads("r-oct", [ostr(lb), ostr(ub), str(ext)], enc_sized(lb, ub, bool(ext), hex_bits(h), 8), 1)

        # -- 5. long values: every fragment class  n div 16K in 0..13, n mod 16K in {0, 1, 16383}
        seed = 1
        for d in range(0, 14):
            for m in (0, 1, 16383):
                n = d * K16 + m
                seed += 1
                add(f"per rt-octn none none 0 {n} {seed}")
                add(f"per rt-bitsn none none 0 {n} {seed}")
                if full or m == 1:
                    add(f"per rt-octn 0 10 1 {n} {seed}")          # extension: outside the root
                    add(f"per rt-bitsn 0 10 1 {n} {seed}")
                    add(f"per rt-bitsn none none 1 {n} {seed}")
                if n <= 65535:
                    add(f"per rt-octn 0 65535 0 {n} {seed}")        # constrained length, never fragmented
                    add(f"per rt-bitsn 3 65535 1 {n} {seed}")
                    add(f"per rt-octn {n} {n} 0 {n} {seed}")        # fixed size
                    add(f"per rt-bitsn {n} {n} 1 {n} {seed}")
                    add(f"per rt-octn {n + 1} 65535 0 {n} {seed}")  # too short: rejected
                add(f"per rt-bitsn 1 none 0 {n} {seed}")             # F-64k shapes
                if full or d in (0, 1, 4):
                    add(f"per rt-octn 0 {max(n, 65536)} 0 {n} {seed}")
                    add(f"per rt-octn 1 300000 1 {n} {seed}")
        for n in (16382, 16385, 32767, 32769, 49153, 65534, 65535, 65537, 81919, 81921, 131071, 131073, 200000):
            seed += 1
            add(f"per rt-octn none none 0 {n} {seed}")
            add(f"per rt-bitsn none none 0 {n} {seed}")
            add(f"per rt-bitsn 0 10 1 {n} {seed}")
        # readers on fragmented input: valid, followed by data, truncated at every fragment border
        for n in (16384, 16385, 32768, 65536 + 16384 + 5, 81920):
            items = gen_bytes_bits((n + 7) // 8, n)[:n]
            e = enc_sized(None, None, False, items, 1)
            add(f"per r-bits none none 0 {e}")
            add(f"per r-bits none none 0 {e}1010")
            for cut in (7, 8, 9, 8 + 16384, 8 + 16384 + 7, len(e) - 1, len(e) - 8, len(e) - 9):
                if 0 <= cut < len(e):
                    add(f"per r-bits none none 0 {e[:cut]}")
            e1 = enc_sized(0, 10, True, items, 1)
            add(f"per r-bits 0 10 1 {e1}")
        for n in (16384, 16385, 32769):
            items = gen_bytes_bits(n, n)
            e = enc_sized(None, None, False, items, 8)
            add(f"per r-oct none none 0 {e}")
            add(f"per r-oct none none 0 {e}0000000011")
            add(f"per r-oct none none 0 {e[:-1]}")
            add(f"per r-oct none none 0 {e[:8 + 8 * 16384 + 3]}")
            add(f"per r-oct 0 20000 0 {enc_sized(0, 20000, False, items[:8 * 16384], 8)}")

        # -- 6. readers on random bits (never panic, never over-read)
        k = 9000 if not full else 150000
        ropsel = ["r-nnbi", "r-len", "r-2s", "r-con", "r-small", "r-semi", "r-unc", "r-idx", "r-oct", "r-bits"]
        small_bounds = [None, 0, 1, 2, 3, 5, 200, 65535, 65536, 70000]
        for _ in range(k):
            op = rng.choice(ropsel)
            ln = rng.choice([0, 1, 2, 7, 8, 9, 15, 16, 17, 24, 40, 72, 80, 100, rng.range(0, 200)])
            raw = rng.bytes((ln + 7) // 8)
            bits = "".join(format(b, "08b") for b in raw)[:ln]
            if rng.chance(1, 3) and ln >= 8:
                # steer into the length-determinant forms
                bits = rng.choice(["0", "10", "11000001", "11000100", "11000000", "11111111", "1100"]) + bits
            if op in ("r-nnbi", "r-len"):
                a = [ostr(rng.choice(small_bounds)), ostr(rng.choice(small_bounds + [I64_MAX, U64]))]
            elif op == "r-2s":
                a = [str(rng.choice([0, 1, 2, 7, 8, 9, 32, 63, 64, 65, 100]))]
            elif op == "r-con":
                lo = rng.choice(BI)
                a = [str(lo), str(rng.choice([lo, min(I64_MAX, lo + rng.range(0, 300)), I64_MAX, rng.choice(BI)]))]
            elif op in ("r-small", "r-unc"):
                a = []
            elif op == "r-semi":
                a = [str(rng.choice(BI))]
            elif op == "r-idx":
                a = [str(rng.choice([0, 1, 2, 3, 5, 64, 65, 300, U64])), str(rng.below(2))]
            else:
                a = [ostr(rng.choice(small_bounds)), ostr(rng.choice(small_bounds)), str(rng.below(2))]
            add("per " + op + (" " + " ".join(a) if a else "") + " " + bstr(bits))
        return reqs

    # ............................................................................... oracle
    def _spec(self, req):
        s = self._cache.get(req)
        if s is None:
            t = req.split(" ")
            s = spec_read(t) if t[1].startswith("r-") else spec_write(t)
            if len(self._cache) > 400000:
                self._cache.clear()
            self._cache[req] = s
        return s

    def oracle(self, req, ans):
        if ans in ("panic", "abort", "hang") or ans.endswith("panic"):
            return "panic instead of Ok/Err"
        if ans == "bad-op":
            return "the harness does not understand the request"
        if ans.startswith("slice-differs"):
            # harness/src/per.rs w2!: the same write through the slice writer into an all-ones destination
            return ("written through the slice writer into a destination that is not zero-filled, the primitive produces other "
                    "bits or touches bits outside its field: " + ans[:160])
        t = req.split(" ")
        s = self._spec(req)
        if s is None:
            return None
        if not t[1].startswith("r-"):
            if s[0] == "ok":
                want = "ok " + s[1]
                if ans != want:
                    if t[1].startswith("rt-") and ans.startswith("ok ") and ans.split(" ")[1:3] == s[1].split(" ")[0:2]:
                        return f"X.691 bits written, but not read back: `{ans}`"
                    return f"X.691 demands `{want[:120]}`"
                return None
            if s[0] == "err":
                return None if ans.startswith("err ") else "inadmissible arguments must be refused with an error"
            return None
        # read ops
        ln = len(unb(t[-1]))
        if s[0] == "ok":
            want = f"ok {s[1]} {s[2]}"
            return None if ans == want else f"input starts with the X.691 encoding of `{s[1][:60]}` ({s[2]} bits): expected `{want[:120]}`"
        if s[0] in ("trunc", "err"):
            return None if ans.startswith("err ") else "truncated input / inadmissible arguments must give an error"
        if ans.startswith("ok "):
            c = int(ans.split(" ")[-1])
            if c > ln:
                return f"consumed {c} bits of an input of {ln} bits"
        return None

    # ........................................................................ classification
    def finding_class(self, req, ans):
        t = req.split(" ")
        if t[1] in ("w-len", "r-len", "w-oct", "w-bits", "rt-octn", "rt-bitsn", "r-oct", "r-bits"):
            if deviates(opt(t[2]), opt(t[3])):
                return FINDING_64K
        return None

    def tag(self, req, ans):
        t = req.split(" ")
        op = t[1]
        res = ans.split(" ")[0] + ((":" + ans.split(" ")[1]) if ans.startswith("err ") else "")
        br = ""
        if op in ("w-len", "r-len"):
            lb, ub = opt(t[2]), opt(t[3])
            if deviates(lb, ub):
                br = "dev-fixed" if lb == ub else "dev"
            elif ub is not None:
                br = "con"
            elif op == "w-len":
                v = int(t[4])
                br = "u127" if v <= 127 else "u16k" if v < K16 else "frag"
            else:
                b = unb(t[4])
                br = "u127" if b[:1] == "0" else "u16k" if b[:2] == "10" else "frag" if b[:2] == "11" else "short"
        elif op in ("w-nnbi", "r-nnbi"):
            br = "unb" if t[2] == "none" and t[3] == "none" else "field"
        elif op == "w-con":
            lb, ub = int(t[2]), int(t[3])
            br = "empty" if ub <= lb else "w" + str(min(64, (ub - lb).bit_length() // 8 * 8 + 8))
        elif op == "w-small":
            br = "lt64" if int(t[2]) < 64 else "ge64"
        elif op == "w-semi":
            br = "o" + str(nn_octets(int(t[3]) - int(t[2]))) if int(t[3]) >= int(t[2]) else "below"
        elif op == "w-unc":
            br = "o" + str(twos_octets(int(t[2])))
        elif op == "w-2s":
            bl, v = int(t[2]), int(t[3])
            br = "badlen" if bl == 0 or bl > 64 else "fit" if -(1 << (bl - 1)) <= v < (1 << (bl - 1)) else "nofit"
        elif op == "w-idx":
            std, i = int(t[2]), int(t[4])
            br = "root" if i < std else ("ext-small" if i - std < 64 else "ext-big") if t[3] == "1" else "out"
        elif op in ("w-oct", "w-bits", "rt-octn", "rt-bitsn", "r-oct", "r-bits"):
            lb, ub, ext = opt(t[2]), opt(t[3]), t[4] == "1"
            if op.startswith("r-"):
                br = "dev" if deviates(lb, ub) else "unc" if ub is None else "ub0" if ub == 0 else "fixed" if lb == ub else "con"
                br += "+ext" if ext else ""
            else:
                if op.startswith("rt-"):
                    n = int(t[5])
                else:
                    n = (len(t[5]) // 2 if op == "w-oct" else len(t[5])) if t[5] != "-" else 0
                if not in_root(lb, ub, n):
                    br = "ext-out" if ext else "out"
                    fr = True
                elif deviates(lb, ub):
                    br, fr = "dev", False
                elif ub is None:
                    br, fr = "unc", True
                elif ub == 0:
                    br, fr = "ub0", False
                elif lb == ub:
                    br, fr = "fixed", False
                else:
                    br, fr = "con", False
                if op.startswith("rt-"):
                    br += f":f{n // K16}" if fr else ""
                    br += ":m" + ("0" if n % K16 == 0 else "1" if n % K16 == 1 else "max" if n % K16 == K16 - 1 else "x")
        if op.startswith("r-") and op not in ("r-len",):
            s = self._spec(req)
            br += ("/" if br else "") + (s[0] if s else "?")
        elif op == "r-len":
            s = self._spec(req)
            br += "/" + (s[0] if s else "?")
        return f"{op}:{br}:{res}" if br else f"{op}:{res}"

    def nontrivial(self, req, ans):
        return ans.startswith("ok")


class Spec(runner.Spec):
    prop = "C10"
    # Props/Glue.lean: the byte-level code (on the L0 BitBuffer/Bits mirrors of C11) refines the bit-list
    # functions these theorems are about
    extra_prop_files = ["Glue"]
    streams = [PerStream()]
    assumptions = [
        "dev profile (overflow checks, debug assertions); the release profile is not modelled",
        "the Lean mirror Per/Prim.lean is tied to mod.rs only by differential execution (stream `per`)",
        "writers are modelled by the bits they append and readers on the remaining input: the L0 buffer behaviour "
        "underneath (append exactly the source bits / error beyond the declared length) is property C11",
        "argument ranges of the Rust types (u64, i64) are hypotheses of the theorems; slice lengths are at most i64::MAX",
        "write_2s_compliment_binary_integer with a value that does not fit the requested field (not reachable through the "
        "other primitives) is outside the property: the low bits are written",
        "non-negative-binary-integer with one bound missing follows the function's own contract (lower bound 0, upper bound i64::MAX)",
    ]
    trusted_base = [
        "Lean 4.33 kernel; axioms per theorem listed under coverage.theorems (allowed: propext, Classical.choice, Quot.sound)",
        "tools/extract_consts.py (LENGTH_127/16K/64K, MAX_FRAGMENTS, MIN_FRAGMENT_SIZE, SMALL_NON_NEGATIVE_NUMBER)",
        "hand-written mirror Per/Prim.lean of per/unaligned/mod.rs — tied by the correspondence stream `per`",
        "X691/Prim.lean: transcription of X.691 11.5-11.9, 14, 16, 17, 23 (cross-checked by the independent Python transcription in this file)",
        "harness/src/per.rs, Driver/PerStream.lean, tools/checks/c10.py (Python X.691 encoder/decoder as the oracle)",
    ]
