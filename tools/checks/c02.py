import runner
import consts_stream
import uper_streams
from checks import c12
from checks.uper_common import ASSUMPTIONS, TRUSTED


class Spec(runner.Spec):
    prop = "C02"
    # `consts`: the descriptor constants the codec sees, re-derived from the ASN.1 source of the zoo
    streams = [uper_streams.Conformance(), consts_stream.ConstsFromSource("C02"), c12.ResolveWitnesses()]
    assumptions = ASSUMPTIONS + ["the property quantifies over source schemas, the codec sees descriptors: stream `consts` compares every zoo type's descriptor constants with an expectation derived from the ASN.1 text by tools/consts_stream.py (own parser) and with Codegen/ConstsModel.lean; recorded deviations of the generator (findings of C08) are accepted as coded"]
    trusted_base = TRUSTED
