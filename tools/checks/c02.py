import runner
import uper_streams
from checks.uper_common import ASSUMPTIONS, TRUSTED


class Spec(runner.Spec):
    prop = "C02"
    streams = [uper_streams.Conformance()]
    assumptions = ASSUMPTIONS
    trusted_base = TRUSTED
