import runner
import uper_streams
from checks.uper_common import ASSUMPTIONS, TRUSTED


class Spec(runner.Spec):
    prop = "C04"
    streams = [uper_streams.Hostile()]
    assumptions = ASSUMPTIONS
    trusted_base = TRUSTED
