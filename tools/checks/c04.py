import runner
import uper_streams
from checks.uper_common import ASSUMPTIONS, TRUSTED
from checks import c20
import proto_streams


class DerHostile(c20.DerStream):
    """the read ops of the `der` stream (arbitrary / truncated bytes): never a panic"""
    name = "der-hostile"
    prefixes = ["der"]

    def gen(self, rng, tier):
        return [r for r in super().gen(rng, tier) if r.split(" ")[1].startswith("r")]

    def oracle(self, req, ans):
        if ans in ("panic", "abort", "hang") or ans.endswith(" panic"):
            return "DER reader panicked on untrusted bytes"
        return super().oracle(req, ans)


class Spec(runner.Spec):
    prop = "C04"
    streams = [uper_streams.Hostile(), DerHostile(), proto_streams.ProtoHostile()]
    assumptions = ASSUMPTIONS + ["protobuf reader: theorem Props.C17.proto_reader_total_fixed applies to the reader variant selected by the translator flag PROTO_READER_CHECKED (true since the fix: commits ff0cfec, 11b3503, b49d2ea)"]
    # Props/Scope.lean: the faithful model of the Scope state machine (Uper/Scope.lean) refines the
    # compositional mirror; the driver answers every request with both and reports `scope-mismatch`
    extra_prop_files = ["Scope"]
    trusted_base = TRUSTED
