import runner
import uper_streams
from checks.uper_common import ASSUMPTIONS, TRUSTED


class Spec(runner.Spec):
    prop = "C01"
    streams = [uper_streams.RoundTrip()]
    assumptions = ASSUMPTIONS
    # Props/Scope.lean: the faithful model of the Scope state machine (Uper/Scope.lean) refines the
    # compositional mirror; the driver answers every request with both and reports `scope-mismatch`
    extra_prop_files = ["Scope"]
    trusted_base = TRUSTED
