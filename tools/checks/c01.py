import runner
import uper_streams
from checks.uper_common import ASSUMPTIONS, TRUSTED


class Spec(runner.Spec):
    prop = "C01"
    streams = [uper_streams.RoundTrip()]
    assumptions = ASSUMPTIONS
    trusted_base = TRUSTED
