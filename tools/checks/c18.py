"""C18 — protobuf bytes agree with the generated .proto schema."""
import runner
import proto_streams
import vlib


class Spec(runner.Spec):
    prop = "C18"
    streams = [proto_streams.SchemaAgree(), proto_streams.ProtoGen(), proto_streams.ProtoPackage()]
    # the `package` line and the file name, decided by proof (Proto/Package.lean)
    extra_prop_files = ["C18Pkg"]
    assumptions = [
        "one value per writer is what the property speaks of; in addition every `enc` request writes the value twice with ONE ProtobufWriter and compares what the second write appends with the octets of a fresh writer (`reuse:`) — flagged for SEQUENCE/SET/ENUMERATED/list roots; a root CHOICE leaves the writer of the code as it is in the nested state, reuse after it is outside the property",
        "dev profile; types: the zoo harness/zoo/*.asn1 compiled by the real converter to Rust and, by the same Converter object, to .proto files (Converter::to_protobuf in harness/build.rs)",
        "independent decoder: protoc --decode (libprotoc 3.21.12 in the sandbox) on the unmodified generated files copied to .work/proto_c18/orig; when protoc rejects a file, the definitions it points at are removed from a second copy (.work/proto_c18/usable) so that the remaining messages of that module can still be decoded — the rejection itself is reported by the `proto schema` request of the offending definition",
        "if protoc is not installed the check says so (coverage.notes / histogram tag decoder:builtin) and uses the built-in proto3 wire decoder of tools/proto_streams.py alone; with protoc present both decoders run and must agree",
        "field names are matched to components by declaration order (schema) = component order (descriptor); for SET types the descriptor is in canonical tag order, which is the known finding proto.set_field_order",
        "the schema model cannot see the declaration order of a SET or the signedness of a 64-bit Rust integer in the descriptor: `proto wire` is not asked for SET types, and u64/i64 is decided by the converter's rule (negative lower bound) — theorem schema_int_encoding_agree shows that this guess is `definition_type_to_protobuf_type` of the Rust type the converter model of C15 (Codegen/IntType.lean) selects, for every constraint with a non-empty root",
        "INTEGER width/sign: the theorem covers every constraint with i64 bounds and a non-empty root; `INTEGER (5..-3, ...)` (a root that contains no value, accepted by the front end) is declared sint64 and written uint64 (example in Props/C18.lean); the zoo has no such type",
        "stream `proto-gen` (exploration level, protoc as oracle): the real generator writes the .proto files of generated module texts (module names with hyphens/digits/Module suffix, object identifiers, names that are proto3 keywords, two modules with imports, random structures from the generator of C09) and protoc must accept every file; rejections inside the listed finding classes are KNOWN-FINDINGs",
        "`package` line and file name (Props/C18Pkg.lean, stream `proto-package`): names over [A-Za-z0-9_-] (X.680 12.2 plus the underscore; theorem alphabet_is_one_token: each such text without `--` is one tokenizer token); the mirror uses ASCII character predicates, the stream sends ASCII only (the Rust code uses the Unicode predicates; a module name with non-ASCII letters is outside the statement); `FullIdent` is protoc's reading of the proto3 grammar (`_` counts as a letter: theorem strict_reading_differs), the reading the stream `proto-gen` validates files against; an EMPTY package (module `Module`, names of which make_name_nice leaves only `-`/`_`, the empty object identifier `{ }`) is allowed by package_valid / the stream's oracle and refuted as a proto3 line by package_line_valid_false / oid_package_line_valid_false",
        "translation validation, not proof, for the text of the .proto files: the Lean theorem speaks about the schema *model* (Proto/Schema.lean), which is compared with the real files by the `proto wire` requests",
    ]
    def extra_obligations(self, tier):
        """says in the evidence which independent decoder this run used"""
        exe = proto_streams.find_protoc()
        self.assumptions = [a for a in self.assumptions if not a.startswith("THIS RUN:")]
        if exe:
            rc, out, err = vlib.sh([exe, "--version"])
            self.assumptions.append(f"THIS RUN: independent decoder = {exe} ({out.strip()}), cross-checked against the built-in wire decoder on every value")
        else:
            self.assumptions.append("THIS RUN: protoc NOT FOUND — validity of the .proto files was not checked, the octets were decoded by the built-in proto3 wire decoder of tools/proto_streams.py only")

    trusted_base = [
        "Lean 4.33 kernel; axioms per theorem under coverage.theorems",
        "protoc (independent decoder and proto3 validator); tools/proto_streams.py (proto3 subset reader, text-format reader, built-in wire decoder, expected tree from the value)",
        "hand-written mirrors Proto/Codec.lean, Proto/Schema.lean, Codegen/IntType.lean (asn1rs-model/src/rust.rs; tied to the code by ./check C15); harness/src/proto.rs (ops enc, schema, wire, files, package, package-fn, istoken), harness/build.rs (to_protobuf), Driver/ProtoStream.lean",
        "hand-written mirror Proto/Package.lean (generate/protobuf.rs model_name / model_file_name / model_to_package, asn/model.rs make_name_nice, rust.rs rust_module_name via Codegen/Names.lean; tied to the code by the stream proto-package: exact equality on the pipeline of Converter::to_protobuf and on the functions themselves); the proto3 grammar transcribed in Proto/Package.lean (fullIdentGo)",
    ]
