"""C15 — the Rust type chosen for an INTEGER can hold every permitted value.

Stream `inttype`: `INTEGER (a..b[, ...])` through the real front end, `to_rust()` and both code
generators (harness/src/inttype.rs) against the Lean mirror `Codegen/IntType.lean`.

The oracle reads the property off the implementation's answer alone:
  * the generated field type can represent every value the constraint permits inside the 64-bit
    window of the right signedness (signed iff the constraint permits a negative value),
  * no standard integer type with fewer bits could (not extensible),
  * extensible => 64-bit type,
  * `v_min()`/`v_max()` and the `MIN/MIN_T/MAX/MAX_T` constants equal the declared bounds.
"""
import consts_stream
import runner
from checks import c12

I64_MIN, I64_MAX, U64_MAX = -(2 ** 63), 2 ** 63 - 1, 2 ** 64 - 1

TYPES = {
    "i8": (-(2 ** 7), 2 ** 7 - 1, 8), "u8": (0, 2 ** 8 - 1, 8),
    "i16": (-(2 ** 15), 2 ** 15 - 1, 16), "u16": (0, 2 ** 16 - 1, 16),
    "i32": (-(2 ** 31), 2 ** 31 - 1, 32), "u32": (0, 2 ** 32 - 1, 32),
    "i64": (I64_MIN, I64_MAX, 64), "u64": (0, U64_MAX, 64),
}


def boundary_set(small):
    """B = {0, +-1, +-2^k, +-2^k +-1 : k <= 63} U [-small, small]"""
    s = {0, 1, -1}
    for k in range(64):
        for d in (-1, 0, 1):
            s.add(2 ** k + d)
            s.add(-(2 ** k) + d)
    s.update(range(-small, small + 1))
    return sorted(s)


def pb(tok):
    return None if tok == "none" else int(tok)


def parse_req(req):
    t = req.split(" ")
    return pb(t[1]), pb(t[2]), t[3] == "1"


def in_i64(x):
    return x is None or I64_MIN <= x <= I64_MAX


def parse_ans(ans):
    """ok <variant> <smin> <smax> <ext> field=.. fn=ty:min:max attr=.. const=ty:MIN:MIN_T:MAX:MAX_T:EXT"""
    t = ans.split(" ")
    if len(t) != 9 or t[0] != "ok":
        return None
    kv = dict(x.split("=", 1) for x in t[5:])
    fn = kv["fn"].split(":")
    cs = kv["const"].split(":")
    if len(fn) != 3 or len(cs) != 6:
        return None
    return {
        "variant": t[1], "smin": pb(t[2]), "smax": pb(t[3]), "sext": t[4],
        "field": kv["field"], "fn_ty": fn[0], "fn_min": int(fn[1]), "fn_max": int(fn[2]),
        "attr": kv["attr"], "c_ty": cs[0], "c_min": pb(cs[1]), "c_min_t": pb(cs[2]),
        "c_max": pb(cs[3]), "c_max_t": pb(cs[4]), "c_ext": cs[5],
    }


def domain(a, b):
    """which part of the quantifier the request lies in"""
    if not in_i64(a) or not in_i64(b):
        return "beyond-i64"
    if a is not None and b is not None and a > b:
        return "min>max"
    return "valid"


class InttypeStream(runner.Stream):
    name = "inttype"
    prefixes = ["inttype"]
    exhaustive = True

    def gen(self, rng, tier):
        reqs = []

        def add(a, b, e):
            reqs.append(f"inttype {'none' if a is None else a} {'none' if b is None else b} {e}")

        # corpus: witnesses of the known deviations and the boundaries of every cascade arm
        for (a, b, e) in [
            (None, 100, 0), (None, -5, 0), (None, 100, 1), (None, -5, 1), (None, I64_MAX, 0),
            (None, None, 0), (None, None, 1), (0, None, 0), (0, None, 1), (5, None, 0), (5, None, 1),
            (-5, None, 0), (-5, None, 1), (0, I64_MAX, 0), (0, I64_MAX, 1), (I64_MIN, I64_MAX, 0),
            (-1, 200, 0), (0, 255, 0), (0, 256, 0), (-128, 127, 0), (-129, 127, 0), (-128, 128, 0),
            (0, 65535, 0), (0, 65536, 0), (-32768, 32767, 0), (-32769, 0, 0), (0, 4294967295, 0),
            (0, 4294967296, 0), (-2147483648, 2147483647, 0), (-2147483649, 0, 0), (-1, 2147483648, 0),
            (0, 2 ** 63, 0), (-(2 ** 63) - 1, 0, 0), (300, 10, 0), (-1, -200, 0), (1000, 1000000, 1),
        ]:
            add(a, b, e)
        # exhaustive B x B, every bound optionally MIN/MAX, optionally extensible
        bs = [None] + boundary_set(16 if tier == "quick" else 128)
        for a in bs:
            for b in bs:
                add(a, b, 0)
                add(a, b, 1)
        # random i64 pairs, magnitudes spread over all bit lengths
        def rnd():
            k = rng.range(0, 63)
            v = rng.below(1 << k) + ((1 << k) >> 1)
            v = min(v, I64_MAX)
            return -v - (1 if rng.chance(1, 2) else 0) if rng.chance(1, 2) else v
        n = 20000 if tier == "quick" else 300000
        for _ in range(n):
            a, b = rnd(), rnd()
            if a > b and rng.chance(9, 10):
                a, b = b, a
            c = rng.below(20)
            if c == 0:
                a = None
            elif c == 1:
                b = None
            add(a, b, rng.below(2))
        return reqs

    # ------------------------------------------------------------------ oracle (implementation only)
    def oracle(self, req, ans):
        a, b, ext = parse_req(req)
        dom = domain(a, b)
        if ans in ("panic", "abort", "hang"):
            return "the front end / code generator panicked"
        if ans.startswith(("named-differs", "nested-differs")):
            # harness/src/inttype.rs: the same constraint with named numbers outside of the range, and as the
            # element of a SEQUENCE OF / SET OF component or alternative
            return "type / attribute of the same INTEGER constraint depend on where it stands: " + ans[:300]
        if ans.startswith("vconst-differs"):
            # harness/src/inttype.rs: the same constraint on a value assignment `k INTEGER (a..b) ::= ..`
            return "the constant of a value assignment governed by the constraint has another type than a component: " + ans
        if dom == "beyond-i64":
            # a bound that is no i64: no type is generated at all (the property speaks about the
            # generated type); anything but a clean rejection would be a surprise
            return None if ans.startswith("err ") else "a bound outside i64 was not rejected"
        if dom == "min>max":
            return None          # not an ASN.1 value range (X.680: lower endpoint <= upper endpoint)
        if not ans.startswith("ok "):
            return f"no Rust type generated for a valid constraint (`{ans}`)"
        r = parse_ans(ans)
        if r is None:
            return "answer not understood"
        ty = r["field"]
        if ty not in TYPES:
            return f"field type `{ty}` is not a standard integer type"
        if not (r["variant"] == ty == r["fn_ty"] == r["c_ty"]):
            return (f"inconsistent types: RustType {r['variant']}, field {ty}, accessors {r['fn_ty']}, "
                    f"constraint {r['c_ty']}")
        lo, hi, bits = TYPES[ty]
        # every permitted value inside the 64-bit window of the right signedness
        neg = a is None or a < 0
        dlo = a if a is not None else I64_MIN
        dhi = b if b is not None else (I64_MAX if neg else U64_MAX)
        if dlo < lo:
            v = max(dlo, -1) if lo == 0 else dlo
            return f"{ty} cannot hold {v} which the constraint permits"
        if dhi > hi:
            return f"{ty} cannot hold {dhi} which the constraint permits"
        if ext:
            if bits != 64:
                return f"extensible range mapped to the {bits}-bit type {ty}"
            if r["sext"] != "1" or r["c_ext"] != "1":
                return "extensible flag lost"
        else:
            if r["sext"] != "0" or r["c_ext"] != "0":
                return "range became extensible"
            for (n2, (lo2, hi2, bits2)) in TYPES.items():
                if bits2 < bits and lo2 <= dlo and dhi <= hi2:
                    return f"{ty} is not the narrowest type: {n2} holds [{dlo}, {dhi}]"
        # accessors and constants: the declared bounds
        if a is not None:
            if r["fn_min"] != a:
                return f"v_min() returns {r['fn_min']}, declared lower bound {a}"
            for c in ("c_min", "c_min_t"):
                if r[c] is not None and r[c] != a:
                    return f"constant MIN/MIN_T is {r[c]}, declared lower bound {a}"
        if b is not None:
            if r["fn_max"] != b:
                return f"v_max() returns {r['fn_max']}, declared upper bound {b}"
            for c in ("c_max", "c_max_t"):
                if r[c] is not None and r[c] != b:
                    return f"constant MAX/MAX_T is {r[c]}, declared upper bound {b}"
        if r["c_min"] != r["c_min_t"] or r["c_max"] != r["c_max_t"]:
            return "MIN != MIN_T or MAX != MAX_T"
        # an undeclared bound (MIN / MAX) must not be replaced by one that excludes permitted values:
        # accessors and constants have to describe a non-empty range around the declared bound
        if r["fn_min"] > r["fn_max"]:
            return f"v_min() = {r['fn_min']} > v_max() = {r['fn_max']}: the accessors describe an empty range"
        if r["c_min"] is not None and r["c_max"] is not None and r["c_min"] > r["c_max"]:
            return f"constants MIN = {r['c_min']} > MAX = {r['c_max']}: empty range"
        if b is None and a is not None and (r["fn_max"] < a or (r["c_max"] is not None and r["c_max"] < a)):
            return f"upper bound MAX replaced by a bound below the declared lower bound {a}"
        if a is None and b is not None and r["c_min"] is not None and r["c_min"] > b:
            return f"lower bound MIN replaced by a bound above the declared upper bound {b}"
        # whatever the accessors return must be a value of the type
        if not (lo <= r["fn_min"] <= hi and lo <= r["fn_max"] <= hi):
            return f"accessor value outside {ty}"
        return None

    def finding_class(self, req, ans):
        a, b, _ = parse_req(req)
        if domain(a, b) != "valid":
            return None
        if a is None and b is not None:
            return "inttype.min_unbounded"
        if a is None and b is None:
            return "inttype.unconstrained"
        return None

    def tag(self, req, ans):
        a, b, ext = parse_req(req)
        dom = domain(a, b)
        shape = ("MIN" if a is None else "lit") + ".." + ("MAX" if b is None else "lit")
        t = ans.split(" ")
        res = t[1] if t[0] in ("ok", "err") and len(t) > 1 else t[0]
        extra = ""
        if dom == "valid" and t[0] == "ok":
            r = parse_ans(ans)
            if r is not None and ((a is not None and r["c_min"] is None) or (b is not None and r["c_max"] is None)):
                extra = ":declared-bound-without-constant"
            elif r is not None and ((a is None and r["c_min"] is not None) or (b is None and r["c_max"] is not None)):
                extra = ":constant-for-undeclared-bound"
        return f"{dom}:{'ext' if ext else 'fix'}:{shape}:{t[0]}:{res}{extra}"

    def nontrivial(self, req, ans):
        a, b, _ = parse_req(req)
        return domain(a, b) == "valid" and ans.startswith("ok ")


class Spec(runner.Spec):
    prop = "C15"
    # `consts`: the MIN/MAX constants of the COMPILED zoo types (after the macro's re-parse of the
    # attribute) against the bounds the ASN.1 source declares
    streams = [InttypeStream(), consts_stream.ConstsFromSource("C15"), c12.ResolveWitnesses()]
    assumptions = [
        "bounds are i64 literals (what the parser can read); a bound outside i64 is taken for a value reference and the module is rejected (no type generated) - outside the property",
        "a 'constraint' with lower > upper is not an ASN.1 value range; such requests only feed the correspondence (casts), not the oracle",
        "64-bit window: signed [-2^63, 2^63-1] iff the constraint permits a negative value (lower bound MIN or < 0), else unsigned [0, 2^64-1]",
        "the `_` separators that format_number_nicely puts into the accessor bodies carry no meaning (Rust literal syntax); the harness strips them",
        "MIN/MAX/MIN_T/MAX_T are read from AsnDefWriter::stringify applied to the Model<Rust> directly; the detour through the #[asn(integer(..))] attribute text is covered by the stream `consts` for the integer types of the compiled zoo (descriptor constants vs the source text; recorded deviations of the generator, findings of C08, are accepted as coded)",
        "Rust semantics of the mirrored functions is tied to the Lean mirror only by differential execution (stream `inttype`)",
    ]
    trusted_base = [
        "Lean 4.33 kernel; axioms per theorem listed under coverage.theorems (allowed: propext, Classical.choice, Quot.sound)",
        "tools/extract_consts.py (I8_MAX, I16_MAX, I32_MAX, U8_MAX, U16_MAX, U32_MAX)",
        "hand-written mirror Codegen/IntType.lean of asn/integer.rs (range literal), rust.rs (two cascades, integer_range_str, into_asn), generate/rust.rs (min/max fns, attribute), generate/walker.rs (constants) - tied by the correspondence stream",
        "harness/src/inttype.rs (string search in the generated text), Driver/InttypeStream.lean, tools/checks/c15.py (independent oracle in Python)",
    ]
