import runner
import uper_streams
from checks.uper_common import ASSUMPTIONS, TRUSTED


class Spec(runner.Spec):
    prop = "C06"
    streams = [uper_streams.Violations(), uper_streams.CharsetTable()]
    assumptions = ASSUMPTIONS
    trusted_base = TRUSTED
