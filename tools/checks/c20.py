"""C20 — DER primitives round trip: identifier, length, BOOLEAN, INTEGER, ENUMERATED.

Stream `der`.  Round-trip requests (`len id bool i64 u64 number boolean enum genum`) make the real
writer produce bytes, append `<post>` and make the real reader read them back; the answer carries
the written bytes, the value read and the number of bytes consumed.  Hostile-read requests (`r…`)
feed arbitrary bytes to the real reader.

The oracle decides on the implementation's answer alone:
  * round trip: value read == value requested, consumed == number of bytes written (so the
    trailing `<post>` is untouched); for lengths and tags with number < 31 the written bytes are
    additionally decoded by an independent X.690 decoder (8.1.2, 8.1.3) and must denote the value;
  * hostile reads: the answer is `ok`/`err`, never a panic; `ok` consumes at most the input; the
    protocol-level reads (`rlen rid rbool ri64 ru64`) must agree with the Python reference of
    X.690 8.1.2/8.1.3/8.2 and of big-endian zero-extended integers; BOOLEAN with a matching tag and
    length 1 must read any non-zero content octet as true; an ENUMERATED index >= variant count
    must be rejected.
Outside the property's quantifier (never an oracle failure, but counted in the histogram): tag
numbers >= 64 (the writer ORs `number as u8` into the class bits; 31..63 still round-trip in this
code and are checked).
"""
import runner
from vlib import hexs

U64 = 1 << 64
CLASSES = ["u", "a", "c", "p"]
CLASS_BITS = {"u": 0x00, "a": 0x40, "c": 0x80, "p": 0xC0}
TYPE_LEVEL_NUMBERS = [0, 1, 2, 10, 30, 31, 63, 64, 300]
ENUM_COUNTS = [1, 2, 3, 127, 128, 129, 255, 256, 257, 65536, 4294967297, 9223372036854775809,
               18446744073709551615]
ENUM_TAGS = [("u", 10), ("a", 31), ("c", 0), ("p", 63), ("u", 64)]
GENERATED = {"small": (("u", 10), 3), "tagged": (("a", 5), 5), "big": (("u", 10), 260)}
NUM_TYPES = {"u8": (False, 8), "u16": (False, 16), "u32": (False, 32), "u64": (False, 64),
             "i8": (True, 8), "i16": (True, 16), "i32": (True, 32), "i64": (True, 64)}


def unhex(s):
    return b"" if s == "-" else bytes.fromhex(s)


# ------------------------------------------------------------------ independent reference (X.690)

def x690_length(n):
    """8.1.3.4 / 8.1.3.5, minimal (DER 10.1)"""
    if n <= 127:
        return bytes([n])
    body = n.to_bytes((n.bit_length() + 7) // 8, "big")
    return bytes([0x80 | len(body)]) + body


def x690_decode_length(b):
    """definite forms only: (value, consumed) | 'eos' | 'indefinite' | ('too-long', k)"""
    if not b:
        return "eos"
    if b[0] < 0x80:
        return (b[0], 1)
    k = b[0] & 0x7F
    if k == 0:
        return "indefinite"
    if k > 8:
        return ("too-long", k)
    if len(b) < 1 + k:
        return "eos"
    return (int.from_bytes(b[1:1 + k], "big"), 1 + k)


def x690_decode_identifier_low(b):
    """8.1.2.2–8.1.2.4 single octet, primitive, number < 31: (class, number) or None"""
    if not b:
        return None
    o = b[0]
    if o & 0x20 or (o & 0x1F) == 31:
        return None
    return (CLASSES[o >> 6], o & 0x1F)


def type_range(ty):
    signed, bits = NUM_TYPES[ty]
    return (-(1 << (bits - 1)), (1 << (bits - 1)) - 1) if signed else (0, (1 << bits) - 1)


def content_of(v):
    """content octets this implementation uses for an i64 (not X.690: unsigned-minimal bytes of the
    two's complement pattern); used only to *generate* near-valid hostile inputs"""
    u = v % U64
    return u.to_bytes(max(1, (u.bit_length() + 7) // 8), "big")


def tlv(k, n, content):
    return bytes([CLASS_BITS[k] | (n & 0xFF)]) + x690_length(len(content)) + content


# ------------------------------------------------------------------------------------ generators

def len_boundaries():
    s = set(range(0, 300))
    for k in range(0, 10):
        for base in (1 << (7 * k), 1 << (8 * k)):
            for d in range(-2, 3):
                s.add(base + d)
    for k in range(0, 65):
        for d in (-1, 0, 1):
            s.add((1 << k) + d)
    return sorted(x for x in s if 0 <= x < U64)


def int_boundaries(lo, hi):
    s = {lo, lo + 1, lo + 2, hi, hi - 1, hi - 2, 0, 1, -1, 2, -2}
    for k in range(0, 65):
        for d in (-2, -1, 0, 1, 2):
            s.add((1 << k) + d)
            s.add(-(1 << k) + d)
    return sorted(x for x in s if lo <= x <= hi)


def rand_u64(rng):
    bits = rng.range(0, 64)
    return rng.next() & ((1 << bits) - 1) if bits else 0


def rand_in(rng, lo, hi):
    if rng.chance(1, 4):
        return rng.range(lo, hi)
    m = rand_u64(rng)
    v = -m if (lo < 0 and rng.chance(1, 2)) else m
    return min(max(v, lo), hi)


def rand_post(rng):
    c = rng.below(4)
    if c == 0:
        return b""
    if c == 1:
        return rng.bytes(rng.range(1, 4))
    if c == 2:   # another well-formed element: back-to-back composition
        return tlv("u", 2, content_of(rand_in(rng, -(1 << 63), (1 << 63) - 1)))
    return bytes([rng.choice([0x00, 0x80, 0xFF, 0x01])]) * rng.range(1, 9)


def mutate(rng, b):
    """hostile variants of a well-formed encoding"""
    b = bytearray(b)
    c = rng.below(6)
    if c == 0 and b:
        return bytes(b[:rng.below(len(b))])                      # truncation
    if c == 1 and b:
        i = rng.below(len(b))
        b[i] ^= 1 << rng.below(8)                                # bit flip
        return bytes(b)
    if c == 2 and b:
        i = rng.below(len(b))
        b[i] = rng.choice([0x00, 0x7F, 0x80, 0x81, 0x88, 0x89, 0xFF, 0x84, 0x85])
        return bytes(b)
    if c == 3:
        return bytes(b) + rng.bytes(rng.range(1, 5))             # trailing bytes
    if c == 4 and len(b) > 1:
        i = rng.range(1, len(b) - 1)
        return bytes(b[:i]) + rng.bytes(1) + bytes(b[i:])        # insertion
    return rng.bytes(rng.range(0, 12))                           # noise


class DerStream(runner.Stream):
    name = "der"
    prefixes = ["der"]
    exhaustive = True

    def gen(self, rng, tier):
        q = tier == "quick"
        reqs = []
        add = reqs.append
        # -- corpus: pinned vectors of /repo/tests and the interesting corners
        for r in [
            "der ginfo small", "der ginfo tagged", "der ginfo big",
            "der rnumber i64 u 0 800109", "der rnumber i64 u 0 810109",   # tests/der_basic_number.rs
            "der boolean u 1 1 -", "der boolean u 1 0 -",                  # tests/der_basic_boolean.rs
            "der rboolean u 1 0101ff",
            "der rboolean u 2 0101ff",                                     # tag number mismatch
            "der rboolean c 0 4001ff",                                     # class is not compared
            "der rlen 80",                                                 # indefinite form octet
            "der rnumber i64 u 2 0285010000000001ff",                      # `len as u32` truncation
            "der rnumber i64 u 2 028501000000017f",
            "der id u 64 -", "der id p 255 -", "der id a 256 -",
        ]:
            add(r)
        # -- length: exhaustive boundary family, every value with an empty and a non-empty post
        for n in len_boundaries():
            add(f"der len {n} -")
            add(f"der len {n} {hexs(rand_post(rng))}")
        for _ in range(4000 if q else 60000):
            add(f"der len {rand_u64(rng)} {hexs(rand_post(rng))}")
        # -- hostile lengths: every first octet alone and followed by 1..9 bytes; truncations
        for b0 in range(256):
            add(f"der rlen {bytes([b0]).hex()}")
            for extra in (1, 2, 7, 8, 9) if q else range(1, 11):
                add(f"der rlen {(bytes([b0]) + rng.bytes(extra)).hex()}")
        add("der rlen -")
        for n in len_boundaries()[::3 if q else 1]:
            e = x690_length(n)
            for cut in range(1, len(e)):
                add(f"der rlen {e[:cut].hex()}")
        for _ in range(1500 if q else 40000):
            add(f"der rlen {hexs(mutate(rng, x690_length(rand_u64(rng))))}")
        # -- identifier: all classes x numbers 0..63 (+ region outside the quantifier)
        for k in CLASSES:
            for n in list(range(0, 64)):
                add(f"der id {k} {n} -")
                add(f"der id {k} {n} {hexs(rand_post(rng))}")
            for n in list(range(64, 300 if q else 1030)) + [65535, 65536, (1 << 32) - 1, 1 << 32, U64 - 1]:
                add(f"der id {k} {n} -")
        for b0 in range(256):
            add(f"der rid {bytes([b0]).hex()}")
            add(f"der rid {(bytes([b0]) + rng.bytes(rng.range(1, 3))).hex()}")
        add("der rid -")
        # -- boolean octet
        for v in (0, 1):
            add(f"der bool {v} -")
            for _ in range(8):
                add(f"der bool {v} {hexs(rand_post(rng))}")
        for b0 in range(256):
            add(f"der rbool {bytes([b0]).hex()}")
            add(f"der rbool {(bytes([b0]) + rng.bytes(1)).hex()}")
        add("der rbool -")
        # -- integer content octets
        for v in int_boundaries(-(1 << 63), (1 << 63) - 1):
            add(f"der i64 {v} -")
            add(f"der i64 {v} {hexs(rand_post(rng))}")
        for v in int_boundaries(0, U64 - 1):
            add(f"der u64 {v} -")
            add(f"der u64 {v} {hexs(rand_post(rng))}")
        for _ in range(3000 if q else 50000):
            add(f"der i64 {rand_in(rng, -(1 << 63), (1 << 63) - 1)} {hexs(rand_post(rng))}")
            add(f"der u64 {rand_u64(rng)} {hexs(rand_post(rng))}")
        byte_lens = list(range(0, 12)) + [127, 128, 255, 256, 257, 65535, 65536, (1 << 31), (1 << 32) - 2, (1 << 32) - 1]
        for bl in byte_lens:
            for n in range(0, 11):
                for _ in range(1 if q else 4):
                    data = rng.bytes(n)
                    add(f"der ri64 {bl} {hexs(data)}")
                    add(f"der ru64 {bl} {hexs(data)}")
        for _ in range(1200 if q else 20000):
            bl = rng.range(0, 9)
            data = rng.bytes(rng.range(max(bl - 2, 0), bl + 2))
            add(f"der ri64 {bl} {hexs(data)}")
            add(f"der ru64 {bl} {hexs(data)}")
        for bl in range(1, 9):          # sign handling: leading 0x80/0xff/0x7f/0x00
            for lead in (0x00, 0x7F, 0x80, 0xFF):
                data = bytes([lead]) + rng.bytes(bl - 1)
                add(f"der ri64 {bl} {data.hex()}")
                add(f"der ru64 {bl} {data.hex()}")
        # -- INTEGER through BasicWriter/BasicReader: every Rust type, all type-level tags
        for ty in NUM_TYPES:
            lo, hi = type_range(ty)
            bs = int_boundaries(lo, hi)
            for v in bs:
                add(f"der number {ty} u 2 {v} -")
            for k in CLASSES:
                for n in TYPE_LEVEL_NUMBERS:
                    for _ in range(4 if q else 40):
                        v = rng.choice(bs) if rng.chance(1, 2) else rand_in(rng, lo, hi)
                        add(f"der number {ty} {k} {n} {v} {hexs(rand_post(rng))}")
            # values just outside the type: not a request the harness can express (`bad-op` on both sides)
            add(f"der number {ty} u 2 {hi + 1} -")
        for _ in range(4000 if q else 60000):
            ty = rng.choice(list(NUM_TYPES))
            lo, hi = type_range(ty)
            k, n = rng.choice(CLASSES), rng.choice(TYPE_LEVEL_NUMBERS)
            wk = k if rng.chance(3, 4) else rng.choice(CLASSES)
            wn = n if rng.chance(5, 6) else rng.choice(TYPE_LEVEL_NUMBERS + [1, 3, 32, 62, 127, 128, 255])
            c = rng.below(5)
            if c == 0:      # length field variants in front of arbitrary content
                ln = rng.choice([0, 1, 2, 7, 8, 9, 127, 128, 255, 256, (1 << 32) - 1, 1 << 32, (1 << 32) + 1,
                                 (1 << 32) + 8, (1 << 32) + 9, U64 - 1])
                data = bytes([CLASS_BITS[wk] | (wn & 0xFF)]) + x690_length(ln) + rng.bytes(rng.range(0, 10))
            elif c == 1:    # non-minimal long form length
                v = rand_in(rng, -(1 << 63), (1 << 63) - 1)
                ct = content_of(v)
                pad = rng.range(1, 8)
                data = bytes([CLASS_BITS[wk] | (wn & 0xFF), 0x80 | pad]) + len(ct).to_bytes(pad, "big") + ct
            else:
                data = mutate(rng, tlv(wk, wn, content_of(rand_in(rng, -(1 << 63), (1 << 63) - 1))))
            add(f"der rnumber {ty} {k} {n} {hexs(data)}")
        # -- BOOLEAN
        for k in CLASSES:
            for n in TYPE_LEVEL_NUMBERS:
                for v in (0, 1):
                    add(f"der boolean {k} {n} {v} -")
                    add(f"der boolean {k} {n} {v} {hexs(rand_post(rng))}")
        for (k, n) in [("u", 1), ("u", 0), ("c", 30), ("p", 63), ("a", 31)]:
            for c in range(256):        # any non-zero content octet is true
                add(f"der rboolean {k} {n} {tlv(k, n, bytes([c])).hex()}")
            for b0 in range(256):       # every identifier octet in front of a valid body
                add(f"der rboolean {k} {n} {bytes([b0, 0x01, 0xFF]).hex()}")
            for l0 in range(256):       # every first length octet
                add(f"der rboolean {k} {n} {(bytes([CLASS_BITS[k] | n, l0]) + rng.bytes(rng.range(0, 3))).hex()}")
        for _ in range(1500 if q else 30000):
            k, n = rng.choice(CLASSES), rng.choice(TYPE_LEVEL_NUMBERS)
            c = rng.below(3)
            if c == 0:      # non-minimal / long-form length 1
                pad = rng.range(1, 9)
                data = bytes([CLASS_BITS[k] | (n & 0xFF), 0x80 | pad]) + rng.choice([0, 1, 1, 1, 2]).to_bytes(pad, "big") + rng.bytes(rng.range(0, 2))
            else:
                data = mutate(rng, tlv(k, n, bytes([rng.choice([0, 1, 0xFF, rng.below(256)])])))
            add(f"der rboolean {k} {n} {hexs(data)}")
        # -- ENUMERATED: every index of the generated enumerations, boundary indices of the big ones
        for which, (_t, count) in GENERATED.items():
            for i in range(count):
                add(f"der genum {which} {i} -")
                if i % 7 == 0:
                    add(f"der genum {which} {i} {hexs(rand_post(rng))}")
            add(f"der genum {which} {count} -")      # no such variant: not expressible
        for count in ENUM_COUNTS:
            idx = set()
            for b in int_boundaries(0, U64 - 1):
                if b < count:
                    idx.add(b)
            idx |= {count - 1, max(count - 2, 0), 0}
            if count <= 300:
                idx |= set(range(count))
            idx = sorted(idx)
            for ti, (k, n) in enumerate(ENUM_TAGS):
                for i in (idx if (ti == 0 or not q) else idx[::5] + [count - 1]):
                    add(f"der enum {count} {k} {n} {i} {hexs(rand_post(rng)) if i % 3 == 0 else '-'}")
        for _ in range(1500 if q else 30000):
            count = rng.choice(ENUM_COUNTS)
            k, n = rng.choice(ENUM_TAGS)
            c = rng.below(4)
            if c == 0:      # index at / beyond the variant count (wrapped through i64)
                i = rng.choice([count, count + 1, count + 255, U64 - 1, 1 << 63, (1 << 63) + 1, count * 2])
                data = tlv(k, n, content_of(i % U64 if i < U64 else (U64 - 1)))
            elif c == 1:    # valid index
                data = tlv(k, n, content_of(rng.below(count))) + rng.bytes(rng.below(3))
            else:
                data = mutate(rng, tlv(rng.choice(CLASSES), n, content_of(rng.below(count))))
            add(f"der renum {count} {k} {n} {hexs(data)}")
        for _ in range(600 if q else 10000):
            which = rng.choice(list(GENERATED))
            (k, n), count = GENERATED[which]
            c = rng.below(3)
            if c == 0:
                data = tlv(k, n, content_of(rng.choice([count, count + 1, 255, 256, 65535, U64 - 1, 1 << 63])))
            elif c == 1:
                data = tlv(k, n, content_of(rng.below(count))) + rng.bytes(rng.below(3))
            else:
                data = mutate(rng, tlv(k, n, content_of(rng.below(count))))
            add(f"der rgenum {which} {hexs(data)}")
        return reqs

    # ------------------------------------------------------------------ oracle (implementation only)

    @staticmethod
    def _rt(t):
        """(requested value as the answer prints it, post, in_domain) of a round-trip request"""
        op = t[1]
        if op == "len":
            return str(int(t[2])), unhex(t[3]), True
        if op == "id":
            return f"{t[2]}:{int(t[3])}", unhex(t[4]), int(t[3]) < 64
        if op == "bool":
            return str(int(t[2])), unhex(t[3]), True
        if op in ("i64", "u64"):
            return str(int(t[2])), unhex(t[3]), True
        if op == "number":
            return str(int(t[5])), unhex(t[6]), int(t[4]) < 64
        if op == "boolean":
            return str(int(t[4])), unhex(t[5]), int(t[3]) < 64
        if op == "enum":
            return str(int(t[5])), unhex(t[6]), int(t[4]) < 64
        if op == "genum":
            return str(int(t[3])), unhex(t[4]), True
        return None

    @staticmethod
    def _expressible(t):
        """False when the request names a value the Rust type system cannot express"""
        op = t[1]
        if op == "number":
            lo, hi = type_range(t[2])
            return lo <= int(t[5]) <= hi
        if op == "enum":
            return int(t[5]) < int(t[2])
        if op == "genum":
            return int(t[3]) < GENERATED[t[2]][1]
        return True

    def oracle(self, req, ans):
        t = req.split(" ")
        op = t[1]
        if ans in ("panic", "abort", "hang"):
            return "panic instead of Ok/Err"
        if ans.startswith("chunked-differs"):
            # harness/src/der.rs reads everything twice: from the contiguous slice and from a source that
            # hands out one octet per `read` call
            return ("the answer depends on how the std::io::Read source / Write sink chunks the octets (slice, one octet per call, "
                    "one octet per call with ErrorKind::Interrupted in between; Vec, one-octet-per-call sink): " + ans[:200])
        if ans.startswith("bounds-differs"):
            # harness/src/der.rs runs every INTEGER request under four constraint types with the same tag
            return ("the DER octets / the value read depend on the PER-visible bounds of the INTEGER type "
                    "(X.690 8.3 knows no constraints): " + ans[:240])
        a = ans.split(" ")
        if op == "ginfo":
            (k, n), count = GENERATED[t[2]]
            want = f"ok {k}:{n} {count}"
            return None if ans == want else f"generated enumeration constants differ: expected `{want}`"
        rt = self._rt(t)
        if rt is not None:
            want, post, in_domain = rt
            if not self._expressible(t):
                return None if ans == "bad-op" else "value outside the Rust type was accepted by the harness"
            if a[0] != "ok" or len(a) < 3:
                return f"malformed answer to a round-trip request"
            written = unhex(a[1])
            if len(written) == 0:
                return "the writer wrote nothing"
            if not in_domain:
                return None                # tag number >= 64: outside the quantifier
            if len(a) != 4:
                return f"the reader rejected what the writer wrote ({a[2]})"
            if a[2] != want:
                return f"read back {a[2]}, written {want}"
            if int(a[3]) != len(written):
                return f"consumed {a[3]} bytes, {len(written)} were written (post {len(post)} bytes)"
            # independent X.690 decoding of the written bytes where the format is standard
            if op == "len":
                d = x690_decode_length(written)
                if d != (int(t[2]), len(written)) or written != x690_length(int(t[2])):
                    return f"written length octets do not denote {t[2]} under X.690 8.1.3 (minimal form)"
            if op == "id" and int(t[3]) < 31:
                if x690_decode_identifier_low(written) != (t[2], int(t[3])) or len(written) != 1:
                    return "written identifier octet does not denote the tag under X.690 8.1.2"
            if op in ("boolean", "number", "enum", "genum"):
                # TLV frame: identifier, definite length == number of content octets
                d = x690_decode_length(written[1:])
                if not isinstance(d, tuple) or d[0] == "too-long" or 1 + d[1] + d[0] != len(written):
                    return "written length field does not equal the number of content octets"
            return None
        # ---- hostile reads
        data = unhex(t[-1])
        if a[0] == "err" and len(a) == 2:
            got = ("err", a[1])
        elif a[0] == "ok" and len(a) == 3:
            got = ("ok", a[1], int(a[2]))
            if got[2] > len(data):
                return f"consumed {got[2]} of {len(data)} bytes"
        else:
            return "malformed answer to a read request"
        if op == "rlen":
            d = x690_decode_length(data)
            if d == "indefinite":
                return None            # 0x80: the code answers length 0; not part of the property
            want = ("err", "eos") if d == "eos" else ("err", "len-limit") if d[0] == "too-long" else ("ok", str(d[0]), d[1])
            return None if got == want else f"X.690 8.1.3 reference expects {want}"
        if op == "rid":
            want = ("err", "eos") if not data else ("ok", f"{CLASSES[data[0] >> 6]}:{data[0] & 0x3F}", 1)
            return None if got == want else f"reference expects {want}"
        if op == "rbool":
            want = ("err", "eos") if not data else ("ok", "1" if data[0] != 0 else "0", 1)
            return None if got == want else f"X.690 8.2 reference expects {want}"
        if op in ("ri64", "ru64"):
            bl = int(t[2])
            if bl > 8:
                want = ("err", "len-limit")
            elif len(data) < bl:
                want = ("err", "eos")
            else:
                v = int.from_bytes(data[:bl], "big")
                if op == "ri64" and v >= 1 << 63:
                    v -= U64
                want = ("ok", str(v), bl)
            return None if got == want else f"big-endian reference expects {want}"
        if op == "rboolean":
            n = int(t[3])
            if len(data) >= 3 and (data[0] & 0x3F) == n and n < 64 and data[1] == 0x01:
                want = ("ok", "1" if data[2] != 0 else "0", 3)
                return None if got == want else f"BOOLEAN with content {data[2]:#04x} must read as {want}"
            return None
        if op in ("renum", "rgenum"):
            count = int(t[2]) if op == "renum" else GENERATED[t[2]][1]
            if got[0] == "ok" and int(got[1]) >= count:
                return f"index {got[1]} accepted for an enumeration with {count} variants"
            return None
        if op == "rnumber":
            if got[0] == "ok":
                lo, hi = type_range(t[2])
                if not lo <= int(got[1]) <= hi:
                    return f"value {got[1]} outside {t[2]}"
            return None
        return "unknown operation"

    def tag(self, req, ans):
        t = req.split(" ")
        op = t[1]
        a = ans.split(" ")
        if op in ("len", "u64", "i64", "number", "enum", "genum", "boolean", "bool", "id"):
            if a[0] != "ok":
                return f"{op}:{a[0]}"
            n = len(a[1]) // 2
            extra = ""
            if op == "id":
                extra = ":n<31" if int(t[3]) < 31 else ":n<64" if int(t[3]) < 64 else ":n>=64"
                if a[2] != f"{t[2]}:{t[3]}":
                    extra += ":mismatch"
            if op in ("i64", "number") and t[-2].startswith("-"):
                extra = ":neg"
            if op in ("number", "boolean", "enum") and int(t[3] if op == "boolean" else t[4]) >= 64:
                extra += ":tag>=64"
            if len(a) != 4:
                extra += ":unreadable"
            return f"{op}:{n}B{extra}"
        if a[0] == "err":
            return f"{op}:err:{a[1]}"
        if a[0] == "ok":
            return f"{op}:ok:consumed{a[-1]}"
        return f"{op}:{a[0]}"

    def nontrivial(self, req, ans):
        t = req.split(" ")
        if t[1] in ("ginfo",):
            return False
        if t[1].startswith("r"):
            return t[-1] != "-"
        return ans.startswith("ok ") and len(ans.split(" ")) == 4


# corrupted / correct answer lines the oracle must flag / accept (run on every check)
ORACLE_SELF_TEST = [
    ("der len 300 -", "ok 82012c 300 3", None),
    ("der len 300 -", "ok 82012c 300 2", "consumed"),
    ("der len 300 -", "ok 82012c 301 3", "read back"),
    ("der len 300 -", "ok 8300012c 300 4", "minimal"),
    ("der len 300 -", "panic", "panic"),
    ("der id c 30 -", "ok 9e c:30 1", None),
    ("der id c 30 -", "ok 9e u:30 1", "read back"),
    ("der id c 30 -", "ok 1e c:30 1", "X.690 8.1.2"),
    ("der id u 64 -", "ok 40 a:0 1", None),
    ("der i64 -1 aa", "ok ffffffffffffffff -1 8", None),
    ("der i64 -1 aa", "ok ffffffffffffffff -1 9", "consumed"),
    ("der number u64 u 2 18446744073709551615 -", "ok 0208ffffffffffffffff -1 10", "read back"),
    ("der number u64 u 2 5 -", "ok 020105 err:eos", "rejected"),
    ("der number u64 u 2 5 -", "ok 020205 5 3", "length field"),
    ("der rboolean u 2 020102", "ok 0 3", "must read"),
    ("der rboolean u 2 020102", "ok 1 3", None),
    ("der rboolean u 2 020102", "panic", "panic"),
    ("der rlen 8201", "ok 1 3", "consumed"),
    ("der rlen 820100", "ok 256 3", None),
    ("der rlen 820100", "err eos", "reference expects"),
    ("der renum 3 u 10 0a0103", "ok 3 3", "accepted"),
    ("der renum 3 u 10 0a0103", "err choice-index", None),
    ("der enum 3 u 10 2 -", "ok 0a0102 1 3", "read back"),
    ("der rnumber u8 u 2 0202ffff", "ok 65535 4", "outside u8"),
    ("der ginfo small", "ok u:10 4", "constants differ"),
]


class Spec(runner.Spec):
    prop = "C20"
    streams = [DerStream()]
    assumptions = [
        "dev profile (overflow checks, debug assertions); the release profile is not modelled",
        "the model's source is a byte list: a read either delivers all requested bytes or fails with UnexpectedEof; the harness reads every input three times — from an in-memory slice (`&[u8]`), from a `std::io::Read` source that hands out one octet per call, and from one that also reports ErrorKind::Interrupted before every octet — and writes twice — to a `Vec<u8>` and to a sink that takes one octet per call; `chunked-differs` when the answers / octets differ",
        "every INTEGER round trip and hostile read is run under four constraint types with the same tag and different PER-visible bounds (none, -1000..1000, i64::MIN..i64::MAX extensible, 0..255): BER/DER contents do not depend on them (`bounds-differs` otherwise)",
        "Rust semantics of the mirrored functions is tied to the Lean mirror only by differential execution (stream `der`)",
        "an enumeration's `from_choice_index(i)` is `Some` exactly for `i < VARIANT_COUNT` and `to_choice_index` is its inverse (what the generator emits; checked for three generated enumerations)",
        "tag numbers >= 64 are outside the property (the writer ORs `number as u8` into the identifier octet); theorems state the exact domain `number < 64`",
        "round trip only: conformance of the INTEGER content octets to X.690 8.3 (two's complement, minimal) is not part of C20 and does not hold for this code",
    ]
    trusted_base = [
        "Lean 4.33 kernel; axioms per theorem listed under coverage.theorems (allowed: propext, Classical.choice, Quot.sound)",
        "tools/extract_consts.py (DER_CLASS_BITS_*, DER_LENGTH_*)",
        "hand-written mirror Der/Basic.lean of src/protocol/basic/distinguished/mod.rs and src/rw/der.rs — tied by the correspondence stream; `lz64` (Base/Outcome.lean) stands for u64::leading_zeros",
        "harness/src/der.rs, Driver/DerStream.lean, tools/checks/c20.py (independent X.690 length/identifier/boolean reference in Python)",
    ]

    def extra_obligations(self, tier):
        """the oracle must accept the correct and flag the corrupted answer lines above"""
        st = self.streams[0]
        for req, ans, expect in ORACLE_SELF_TEST:
            why = st.oracle(req, ans)
            good = (why is None) if expect is None else (why is not None and expect in why)
            if not good:
                raise runner.Broken("oracle self-test tools/checks/c20.py",
                                    f"request `{req}` answer `{ans}`: oracle said {why!r}, expected {expect!r}")
