"""C09 — every accepted module yields Rust code that rustc accepts.

Two parts:
  * proof level (Lean, Props/C09.lean): the naming logic — legality of every mangled identifier,
    exact keyword gaps, collision characterisation; tied to the real functions by the per-function
    ops of the stream `names`;
  * EXPLORATION level: rustc itself is the oracle for "the generated file compiles".  Per run one
    scratch crate (.work/c09crate, template tools/rustcheck) receives the files written by the real
    RustCodeGenerator for every generated module and is `cargo check`ed; a module accepted by the
    front end whose generated Rust is rejected by rustc is an oracle failure.  Nothing about rustc
    is modelled.
"""
import json
import os
import re
import shutil
import subprocess

import runner
from checks import c12
import vlib
from vlib import hexs

# ------------------------------------------------------------------------------ keyword lists

RUST_KEYWORDS = (
    "as break const continue crate else enum extern false fn for if impl in let loop match mod "
    "move mut pub ref return self Self static struct super trait true type unsafe use where while "
    "async await dyn abstract become box do final macro override priv typeof unsized virtual yield try"
).split()


def generator_keywords():
    """the generator's own list, read from the source under test (class predicates follow it)"""
    src = open(os.path.join(vlib.REPO, "asn1rs-model/src/generate/rust.rs"), encoding="utf-8").read()
    m = re.search(r"const KEYWORDS: \[&str; \d+\] = \[(.*?)\];", src, flags=re.S)
    return re.findall(r'"([^"]*)"', m.group(1)) if m else []


GEN_KEYWORDS = generator_keywords()
IDENT_RE = re.compile(r"[A-Za-z_][A-Za-z0-9_]*\Z")

# -------------------------------------------------- independent re-implementation of the mangling
# (written from the Rust source; used only for finding-class predicates and the identifier
# cross-check of the pipeline op — the Lean model is never called)


def a_module(name, pad):
    out = []
    prev_lowered = prev_alpha = False
    for i, c in enumerate(name):
        nxt = name[i + 1] if i + 1 < len(name) else None
        lowered = False
        alpha = c.isalpha()
        if pad and prev_alpha != alpha and c not in "-_" and out and out[-1] != "_":
            out.append("_")
        if c.isupper():
            if out and prev_alpha:
                if not prev_lowered:
                    out.append("_")
                elif nxt is not None and nxt.islower():
                    out.append("_")
            lowered = True
            out.append(c.lower())
        elif c in "-_":
            out.append("_")
        else:
            out.append(c)
        prev_lowered, prev_alpha = lowered, alpha
    return "".join(out)


def a_variant(name):
    out = []
    next_upper, prev_upper = True, False
    for i, c in enumerate(name):
        nxt = name[i + 1] if i + 1 < len(name) else None
        if c in "-_":
            next_upper, prev_upper = True, False
        elif next_upper and not prev_upper:
            out.append(c.upper() if "a" <= c <= "z" else c)
            next_upper, prev_upper = False, True
        else:
            if prev_upper and not (nxt is not None and nxt.islower()):
                out.append(c.lower() if "A" <= c <= "Z" else c)
            else:
                out.append(c)
            prev_upper = "A" <= c <= "Z"
    return "".join(out)


def b_field(name, check=True):
    n = name.replace("-", "_")
    return n + "_" if check and n in GEN_KEYWORDS else n


def b_variant(name):
    out = []
    up = True
    for c in name:
        if up:
            out.append(c.upper())
            up = False
        elif c in "-_":
            up = True
        else:
            out.append(c)
    return "".join(out)


def b_module(name):
    out = []
    prev_lowered = False
    for i, c in enumerate(name):
        nxt = name[i + 1] if i + 1 < len(name) else None
        lowered = False
        if c.isupper():
            if out:
                if not prev_lowered:
                    out.append("_")
                elif nxt is not None and nxt.islower():
                    out.append("_")
            lowered = True
            out.append(c.lower())
        elif c == "-":
            out.append("_")
        else:
            out.append(c)
        prev_lowered = lowered
    return "".join(out)


def nice(name):
    for suf in ("_Module", "Module"):
        if name.endswith(suf):
            name = name[: len(name) - len(suf)]
    return name


def emit_field(n):
    return b_field(a_module(n, False), True)


def emit_variant(n):
    return b_variant(a_variant(n))


def emit_type(n):
    return a_variant(n)


def emit_const(n):
    return a_module(n, True).upper()


def emit_module(n):
    return b_module(a_module(nice(n), False))


# ------------------------------------------------------------------------------ abstract schema
# module  = {"name": str, "imports": [{"from": str, "what": [str]}], "defs": [[name, type]],
#            "values": [[name, typetext, literaltext]]}
# type    = {"k": "int", "lo": int|None|str, "hi": …, "ext": bool, "named": [[n, v]]}
#         | {"k": "bool"} | {"k": "null"} | {"k": "str", "cs": "UTF8String", "size": size}
#         | {"k": "octets", "size": size} | {"k": "bits", "size": size, "named": [[n, v]]}
#         | {"k": "seq"|"set", "fields": [field], "ext": idx|None}
#         | {"k": "choice", "alts": [field], "ext": idx|None}
#         | {"k": "enum", "items": [str], "ext": idx|None}
#         | {"k": "seqof"|"setof", "of": type, "size": size} | {"k": "ref", "name": str}
#   every type may carry "tag": "[3]" | "[APPLICATION 2]" …
# field   = {"n": str, "t": type, "opt": bool, "def": literaltext|None}
# size    = None | [lo, hi, ext]   (lo == hi prints SIZE(n); bounds may be value-reference names)


def r_size(s):
    if not s:
        return ""
    lo, hi, ext = s
    core = f"{lo}" if lo == hi else f"{lo}..{hi}"
    return f"(SIZE({core}{',...' if ext else ''}))"


def r_type(t):
    k = t["k"]
    tag = (t["tag"] + " ") if t.get("tag") else ""
    if k == "int":
        s = "INTEGER"
        if t.get("named"):
            s += " { " + ", ".join(f"{n}({v})" for n, v in t["named"]) + " }"
        if t.get("lo") is not None or t.get("hi") is not None:
            lo = "MIN" if t.get("lo") is None else t["lo"]
            hi = "MAX" if t.get("hi") is None else t["hi"]
            s += f" ({lo}..{hi}{',...' if t.get('ext') else ''})"
        return tag + s
    if k == "bool":
        return tag + "BOOLEAN"
    if k == "null":
        return tag + "NULL"
    if k == "str":
        return tag + t["cs"] + (" " + r_size(t.get("size")) if t.get("size") else "")
    if k == "octets":
        return tag + "OCTET STRING" + (" " + r_size(t.get("size")) if t.get("size") else "")
    if k == "bits":
        s = "BIT STRING"
        if t.get("named"):
            s += " { " + ", ".join(f"{n}({v})" for n, v in t["named"]) + " }"
        return tag + s + (" " + r_size(t.get("size")) if t.get("size") else "")
    if k in ("seqof", "setof"):
        kw = "SEQUENCE" if k == "seqof" else "SET"
        return tag + kw + (" " + r_size(t.get("size")) if t.get("size") else "") + " OF " + r_type(t["of"])
    if k in ("seq", "set", "choice"):
        kw = {"seq": "SEQUENCE", "set": "SET", "choice": "CHOICE"}[k]
        items = []
        fl = t["fields"] if k != "choice" else t["alts"]
        for i, f in enumerate(fl):
            s = f"{f['n']} {r_type(f['t'])}"
            if f.get("opt"):
                s += " OPTIONAL"
            if f.get("def") is not None:
                s += " DEFAULT " + f["def"]
            items.append(s)
            if t.get("ext") == i:
                items.append("...")
        if t.get("ext") == -1:
            items.insert(0, "...")
        return tag + kw + " { " + ", ".join(items) + " }"
    if k == "enum":
        items = []
        for i, n in enumerate(t["items"]):
            items.append(n)
            if t.get("ext") == i:
                items.append("...")
        return tag + "ENUMERATED { " + ", ".join(items) + " }"
    if k == "ref":
        return tag + t["name"]
    raise ValueError(k)


def r_module(m):
    L = [f"{m['name']} DEFINITIONS AUTOMATIC TAGS ::= BEGIN"]
    if m.get("imports"):
        L.append("IMPORTS " + " ".join(", ".join(i["what"]) + " FROM " + i["from"] for i in m["imports"]) + ";")
    for n, t in m.get("defs", []):
        L.append(f"{n} ::= {r_type(t)}")
    for n, ty, lit in m.get("values", []):
        L.append(f"{n} {ty} ::= {lit}")
    L.append("END")
    return "\n".join(L) + "\n"


def gen_request(modules):
    """`names gen <hex module text>[:<hex>…] <hex of the abstract schema (JSON)>`"""
    texts = [r_module(m) for m in modules]
    js = json.dumps(modules, separators=(",", ":"), sort_keys=True)
    return "names gen " + ":".join(hexs(t.encode()) for t in texts) + " " + hexs(js.encode())


def schema_of(req):
    """(module texts, abstract schema or None) of a pipeline request; the schema is used only
    when it renders to exactly the module texts of the request"""
    t = req.split(" ")
    try:
        texts = [bytes.fromhex(h).decode() for h in t[2].split(":")]
    except ValueError:
        return [], None
    sch = None
    if len(t) > 3:
        try:
            sch = json.loads(bytes.fromhex(t[3]).decode())
            if [r_module(m) for m in sch] != texts:
                sch = None
        except (ValueError, KeyError, TypeError):
            sch = None
    return texts, sch


# ------------------------------------------------------------- class predicates over the schema

def walk_types(t, path):
    """yields (type, generated-definition-name or None) for t and everything nested in it"""
    yield t, path
    k = t["k"]
    if k in ("seq", "set", "choice"):
        for f in (t["fields"] if k != "choice" else t["alts"]):
            sub = emit_type(path + emit_type(f["n"])) if path is not None else None
            yield from walk_types(f["t"], sub)
    elif k in ("seqof", "setof"):
        yield from walk_types(t["of"], path)


def dup(xs):
    seen = set()
    for x in xs:
        if x in seen:
            return x
        seen.add(x)
    return None


PRELUDE_USED = {"Option", "Result", "Some", "None", "Ok", "Err", "Vec", "String", "Default", "Box"}


def unsigned_int(t):
    """the Rust type chosen for this INTEGER is unsigned (rust.rs: asn_*_integer_to_rust*)"""
    lo = t.get("lo")
    return lo is None or (isinstance(lo, int) and lo >= 0) or isinstance(lo, str)


def direct_refs(t):
    """type names a value of t contains inline (not behind a Vec)"""
    k = t["k"]
    if k == "ref":
        yield t["name"]
    elif k in ("seq", "set", "choice"):
        for f in (t["fields"] if k != "choice" else t["alts"]):
            yield from direct_refs(f["t"])


def classes_of(sch):
    """all finding classes the abstract schema lies in (computed from the request only)"""
    out = []

    def add(c):
        if c not in out:
            out.append(c)
    for m in sch:
        type_names = []
        for n, t in m.get("defs", []):
            top = emit_type(n)
            for ty, name in walk_types(t, top):
                k = ty["k"]
                if name is not None and (ty is t or k in ("seq", "set", "choice", "enum")):
                    type_names.append(name)
                    if name in RUST_KEYWORDS:
                        add("names.keyword_unescaped")
                    if name in PRELUDE_USED:
                        add("names.prelude_shadow")
                    if ty is not t and k in ("seq", "set", "choice", "enum") and name == top:
                        add("names.anonymous_inner")
                if k in ("seq", "set", "choice"):
                    fl = ty["fields"] if k != "choice" else ty["alts"]
                    if k == "choice":
                        vs = [emit_variant(f["n"]) for f in fl]
                    else:
                        vs = [emit_field(f["n"]) for f in fl]
                    if any(v in RUST_KEYWORDS for v in vs):
                        add("names.keyword_unescaped")
                    if dup(vs):
                        add("names.collision")
                    elif dup([b_variant(a_module(f["n"], False) if k != "choice" else a_variant(f["n"])) for f in fl]):
                        # distinct fields whose helper types `AsnDef<T>Field<X>` (walker.rs) coincide
                        add("names.helper_collision")
                    consts = []
                    for idx, f in enumerate(fl):
                        ft = f["t"]
                        if k != "choice" and ty.get("ext") is not None and idx > ty["ext"] and not f.get("opt") \
                                and f.get("def") is None and ft["k"] in ("int", "bits") and ft.get("named"):
                            # an extension addition is wrapped in Option<..>; so is the type of its constants
                            add("names.const_optional_type")
                        if ft["k"] in ("int", "bits") and k != "choice":
                            consts += [a_module(f["n"], False).upper() + "_" + emit_const(c) for c, _ in ft.get("named") or []]
                        d = f.get("def")
                        if d is not None and ft["k"] in ("octets", "bits"):
                            add("names.octet_default")
                        if d is not None and ft["k"] == "int" and re.fullmatch(r"-\d+", d) and unsigned_int(ft):
                            add("names.negative_unsigned")
                    if dup(consts):
                        add("names.collision")
                    if ty.get("ext") is not None and not fl and k != "choice":
                        add("names.empty_extensible")
                elif k == "enum":
                    vs = [emit_variant(v) for v in ty["items"]]
                    if any(v in RUST_KEYWORDS for v in vs):
                        add("names.keyword_unescaped")
                    if dup(vs):
                        add("names.collision")
                elif k in ("int", "bits") and ty is t:
                    cs = [emit_const(c) for c, _ in ty.get("named") or []]
                    if dup(cs):
                        add("names.collision")
        if dup(type_names):
            add("names.collision")
        vals = [emit_const(n) for n, _, _ in m.get("values", [])]
        if dup(vals):
            add("names.collision")
        for n, ty, lit in m.get("values", []):
            if ty in ("OCTET STRING", "BIT STRING"):
                add("names.valueref_bytes")
            if ty == "INTEGER" and re.fullmatch(r"-\d+", lit):
                add("names.negative_unsigned")
        imported = [emit_type(w) for i in m.get("imports", []) for w in i["what"]]
        if dup(type_names + imported):
            add("names.collision")
        for i in m.get("imports", []):
            if any(w[:1].islower() for w in i["what"]):
                add("names.import_valueref")
            stem = emit_module(i["from"])
            if stem in RUST_KEYWORDS or not IDENT_RE.match(stem):
                add("names.module_path")
        # a type that contains itself without indirection
        graph = {n: set(direct_refs(t)) for n, t in m.get("defs", [])}
        for n in graph:
            seen, todo = set(), list(graph[n])
            while todo:
                x = todo.pop()
                if x == n:
                    add("names.recursive_type")
                    break
                if x in seen or x not in graph:
                    continue
                seen.add(x)
                todo += list(graph[x])
    return out


# ---------------------------------------------------------------------------------- rustc oracle

class Rustc:
    """batch `cargo check` of the generated files of many requests (exploration-level oracle)"""

    def __init__(self):
        self.crate = os.path.join(vlib.WORK, "c09crate")
        self.target = os.path.join(vlib.WORK, "c09target")
        self.verdict = {}      # request -> None (compiles) | first error line
        self.rounds = 0
        self.wall = 0.0

    def prepare(self):
        os.makedirs(self.crate, exist_ok=True)
        tpl = os.path.join(vlib.VERIF, "tools", "rustcheck")
        toml = open(os.path.join(tpl, "Cargo.toml")).read().replace("@REPO@", vlib.REPO)
        path = os.path.join(self.crate, "Cargo.toml")
        if not os.path.exists(path) or open(path).read() != toml:
            open(path, "w").write(toml)
        os.makedirs(os.path.join(self.crate, ".cargo"), exist_ok=True)
        shutil.copy(os.path.join(tpl, ".cargo", "config.toml"), os.path.join(self.crate, ".cargo", "config.toml"))
        shutil.copy(os.path.join(vlib.REPO, "Cargo.lock"), os.path.join(self.crate, "Cargo.lock"))
        src = os.path.join(self.crate, "src")
        if os.path.exists(src):
            shutil.rmtree(src)
        os.makedirs(src)
        return src

    @staticmethod
    def mod_decl(file, i):
        """declaration of one generated file inside its request's inline module; the *declaration*
        is ours, so every file is named by #[path] and a stem that is a keyword or no identifier
        gets a raw / synthetic module name: only the generated code itself can fail"""
        stem = file[:-3] if file.endswith(".rs") else file
        if IDENT_RE.match(stem) and stem not in RUST_KEYWORDS and stem != "_":
            name = stem
        elif IDENT_RE.match(stem) and stem not in ("self", "Self", "super", "crate", "_"):
            name = "r#" + stem
        else:
            name = f"odd{i}"
        return f'#[path = "{file}"] pub mod {name};'

    def check(self, reqs):
        """fills self.verdict for every request (pipeline requests the front end accepted)"""
        import time
        t0 = time.time()
        todo = [r for r in reqs if r not in self.verdict]
        if not todo:
            return
        harness = os.path.join(vlib.HARNESS, "target", "debug", "h")
        src = self.prepare()
        emit = []
        for i, r in enumerate(todo):
            d = os.path.join(src, f"r{i}")
            emit.append(f"names emit {r.split(' ')[2]} {hexs(d.encode())}")
        ans = vlib.run_lines(harness, emit)
        live = {}
        for i, (r, a) in enumerate(zip(todo, ans)):
            if not a.startswith("ok "):
                self.verdict[r] = None       # nothing was generated; nothing for rustc to reject
                continue
            files = [bytes.fromhex(h).decode() for h in a[3:].split(",")]
            decls = [self.mod_decl(f, j) for j, f in enumerate(files)]
            if len(set(files)) != len(files):
                self.verdict[r] = "two modules of the request are written to the same file"
                continue
            live[i] = (r, "pub mod r%d { %s }" % (i, " ".join(decls)))
        for rounds in range(1, 12):
            order = sorted(live)
            with open(os.path.join(src, "lib.rs"), "w") as fh:
                # line k+2 of lib.rs declares request order[k]
                fh.write("#![allow(warnings)]\n" + "".join(live[i][1] + "\n" for i in order))
            p = subprocess.run(
                ["cargo", "check", "--offline", "--message-format=short", "--target-dir", self.target],
                cwd=self.crate, capture_output=True, text=True, timeout=3000,
                env=dict(os.environ, CARGO_NET_OFFLINE="true"))
            self.rounds += 1
            bad = {}
            stray = []
            for line in p.stderr.splitlines():
                m = re.match(r"(?:src/)?r(\d+)/[^:]*:\d+:\d+: error(.*)", line)
                m2 = re.match(r"(?:src/)?lib\.rs:(\d+):\d+: error(.*)", line)
                if m:
                    bad.setdefault(int(m.group(1)), line.strip()[:240])
                elif m2 and 2 <= int(m2.group(1)) < 2 + len(order):
                    bad.setdefault(order[int(m2.group(1)) - 2], line.strip()[:240])
                elif re.match(r"\S+:\d+:\d+: error", line):
                    stray.append(line)
            if p.returncode == 0:
                break
            if not bad or stray:
                raise vlib.Broken("C09 rustc oracle: cargo check failed without an attributable error",
                                  "\n".join(stray) + (p.stderr or "")[-3000:])
            for i, why in bad.items():
                if i in live:
                    self.verdict[live.pop(i)[0]] = why
        else:
            raise vlib.Broken("C09 rustc oracle: no clean round after 11 rounds")
        for r, _ in live.values():
            self.verdict[r] = None
        self.wall += time.time() - t0


# ---------------------------------------------------------------------------------- identifier pool

POOL_VARIANTS = [
    "foo-bar", "fooBar", "foo_bar", "foo-Bar", "fooBAR", "fooB", "foo-b", "foo-bar1", "foo-1bar",
    "foo1bar", "foo1Bar", "ab-c", "abC", "aBC", "aBc", "a-b-c", "a-bC", "x", "xY", "x-y", "xy",
    "id", "iD", "i-d", "hTTPServer", "http-server", "httpServer", "httpSERVER", "type-x", "r1", "r-1",
    "someImportantValue60degree", "a1", "a-1", "aA", "a-a", "aa", "value", "values", "variant", "index",
    "new", "default", "min", "max", "value-min", "clone", "eq", "hash", "fmt", "read", "write",
    "str", "string", "vec", "option", "some", "none", "ok", "err", "result", "u8", "i64", "bool", "usize",
]
TYPE_POOL = ["Foo-Bar", "FooBar", "Foo-bar", "FOOBar", "Self", "String", "Vec", "Option", "Box", "Result",
             "Default", "Clone", "T", "T1", "T-1", "U8", "Bool", "Type", "Match", "Some", "None", "Ok", "Err",
             "Reader", "Writer", "Constraint", "Readable", "Writable", "Copy", "Hash", "Debug", "Eq"]
MODULE_POOL = ["M", "My-Mod", "MyMod", "My-Module", "MyModule", "Match", "Type", "Self", "Super", "Crate",
               "Mod", "Use", "Module", "A-Module", "HTTPServer", "Std", "Core", "Asn1rs"]


def field(n, t, opt=False, dflt=None):
    return {"n": n, "t": t, "opt": opt, "def": dflt}


BOOL = {"k": "bool"}
U8 = {"k": "int", "lo": 0, "hi": 255}
INT = {"k": "int"}
UTF8 = {"k": "str", "cs": "UTF8String"}
OCT = {"k": "octets"}
BITS = {"k": "bits"}
NUL = {"k": "null"}


def mod(name, defs=(), values=(), imports=()):
    return {"name": name, "imports": list(imports), "defs": [list(d) for d in defs],
            "values": [list(v) for v in values]}


def corpus_modules(tier):
    """the fixed families; every entry is a list of modules (one request)"""
    out = []
    lower_kw = [k for k in RUST_KEYWORDS if k[0].islower()]
    # F1: every Rust keyword as a SEQUENCE component
    for k in lower_kw:
        out.append([mod("M", [("T", {"k": "seq", "fields": [field(k, BOOL)]})])])
    # … as ENUMERATED item / CHOICE alternative (capitalised by the generator: only `self` matters),
    # as value reference, named number, and with a hyphen/case variant that mangles onto it
    kw_some = lower_kw if tier == "thorough" else ["self", "match", "type", "fn", "use", "super", "crate", "try", "async", "box"]
    for k in kw_some:
        out.append([mod("M", [("E", {"k": "enum", "items": [k, "other"]})])])
        out.append([mod("M", [("C", {"k": "choice", "alts": [field(k, BOOL), field("other", U8)]})])])
        out.append([mod("M", [], [(k, "INTEGER", "5")])])
        out.append([mod("M", [("I", {"k": "int", "lo": 0, "hi": 7, "named": [[k, 1]]})])])
        out.append([mod("M", [("T", {"k": "seq", "fields": [field(k, {"k": "seq", "fields": [field("x", BOOL)]})]})])])
    for n in ["Self", "mAtch", "fN", "tYpe", "sElf", "sUper", "uSe", "use-", "type_", "iF", "lOop", "wHile"]:
        out.append([mod("M", [("T", {"k": "seq", "fields": [field(n, BOOL)]})])])
    # type names
    for n in TYPE_POOL:
        out.append([mod("M", [(n, {"k": "seq", "fields": [field("x", BOOL)]})])])
        if tier == "thorough":
            out.append([mod("M", [(n, U8)])])
            out.append([mod("M", [(n, {"k": "enum", "items": ["a", "b"]})])])
    for n in sorted(PRELUDE_USED):
        out.append([mod("M", [(n, {"k": "choice", "alts": [field("x", BOOL)]})])])
        out.append([mod("M", [(n, {"k": "enum", "items": ["a", "b"]})])])
        out.append([mod("M", [(n, {"k": "seq", "fields": [field("x", BOOL)]}),
                              ("User", {"k": "seq", "fields": [field("l", {"k": "seqof", "of": U8}), field("s", UTF8, opt=True),
                                                                 field("d", BOOL, dflt="TRUE")]})])])
    # module names, alone and imported from
    for n in MODULE_POOL:
        out.append([mod(n, [("T", BOOL)])])
        out.append([mod("Importer", [("U", {"k": "seq", "fields": [field("t", {"k": "ref", "name": "T"})]})],
                        imports=[{"from": n, "what": ["T"]}]),
                    mod(n, [("T", BOOL)])])
    # F2: names differing only in case or separators inside one scope
    groups = [["foo-bar", "fooBar", "foo_bar"], ["foo-bar", "fooBar"], ["foo-bar", "foo_bar"], ["ab-c", "abC"],
              ["a-b", "aB"], ["x1", "x-1"], ["hTTPServer", "httpServer"], ["aBC", "aBc"], ["foo", "foo"],
              ["use", "use-"], ["use", "use_"], ["a", "b", "c"], ["foo-bar", "foo-baz"], ["fooBar", "foobar"]]
    for g in groups:
        out.append([mod("M", [("T", {"k": "seq", "fields": [field(n, BOOL) for n in g]})])])
        out.append([mod("M", [("T", {"k": "set", "fields": [field(n, U8) for n in g]})])])
        out.append([mod("M", [("C", {"k": "choice", "alts": [field(n, BOOL) for n in g]})])])
        out.append([mod("M", [("E", {"k": "enum", "items": list(g)})])])
        out.append([mod("M", [("I", {"k": "int", "lo": 0, "hi": 9, "named": [[n, i] for i, n in enumerate(g)]})])])
        out.append([mod("M", [], [(n, "INTEGER", str(i)) for i, n in enumerate(g)])])
    tgroups = [["Foo-Bar", "FooBar"], ["FooBar", "Foobar"], ["FOOBar", "FooBar"], ["A-B", "AB"], ["Ab", "AB"], ["T1", "T-1"]]
    for g in tgroups:
        out.append([mod("M", [(n, {"k": "seq", "fields": [field("x", BOOL)]}) for n in g])])
    # inline definition colliding with a declared one; two inline ones colliding
    out.append([mod("M", [("T", {"k": "seq", "fields": [field("a", {"k": "seq", "fields": [field("x", BOOL)]})]}),
                          ("TA", {"k": "seq", "fields": [field("y", BOOL)]})])])
    out.append([mod("M", [("T", {"k": "seq", "fields": [field("a-b", {"k": "enum", "items": ["p", "q"]}),
                                                          field("aB", {"k": "enum", "items": ["r", "s"]})]})])])
    out.append([mod("M", [("T", {"k": "seq", "fields": [field("in", {"k": "choice", "alts": [field("p", BOOL)]})]})])])
    # field names equal to type names / to names the generated impls use
    out.append([mod("M", [("Foo", {"k": "seq", "fields": [field("foo", {"k": "ref", "name": "Bar"}), field("bar", U8)]}),
                          ("Bar", {"k": "seq", "fields": [field("bar", BOOL)]})])])
    out.append([mod("M", [("T", {"k": "seq", "fields": [field("t", U8), field("t-min", U8), field("value", U8), field("new", BOOL)]})])])
    out.append([mod("M", [("E", {"k": "enum", "items": ["variant", "variants", "value-index", "default"]})])])
    out.append([mod("M", [("C", {"k": "choice", "alts": [field("variants", U8), field("value-index", U8), field("default", BOOL)]})])])
    out.append([mod("M", [("T", {"k": "seq", "fields": [field("x", {"k": "int", "lo": 0, "hi": 3, "named": [["one", 1]]}),
                                                          field("x-one", U8)]})])])
    # F3: value references of every kind, used locally and imported
    vals = [("int-val", "INTEGER", "42"), ("neg-val", "INTEGER", "-7"), ("bool-val", "BOOLEAN", "TRUE"),
            ("str-val", "UTF8String", '"hi there"'), ("ia5-val", "IA5String", '"abc"'),
            ("oct-val", "OCTET STRING", "'ABCD'H"), ("bit-val", "BIT STRING", "'0101'B"), ("hexbit-val", "BIT STRING", "'A5'H")]
    for v in vals:
        out.append([mod("M", [], [v])])
    out.append([mod("M", [], vals)])
    out.append([mod("M", [("W", U8)], [("wrapped-one", "W", "1"), ("WrappedTwo", "W", "2")])])
    out.append([mod("M", [("T", {"k": "seq", "fields": [field("a", {"k": "int", "lo": 0, "hi": "upper"}),
                                                          field("b", {"k": "str", "cs": "UTF8String", "size": [1, "upper", False]}),
                                                          field("c", INT, dflt="upper")]})], [("upper", "INTEGER", "12")])])
    out.append([mod("M", [("T", {"k": "seq", "fields": [field("s", UTF8, dflt="dflt-s"), field("b", BOOL, dflt="dflt-b")]})],
                    [("dflt-s", "UTF8String", '"x y"'), ("dflt-b", "BOOLEAN", "FALSE")])])
    lib = mod("Lib", [("Shared", U8)], [("limit", "INTEGER", "9"), ("flag", "BOOLEAN", "TRUE"), ("name", "UTF8String", '"n"')])
    out.append([mod("User", [("T", {"k": "seq", "fields": [field("s", {"k": "ref", "name": "Shared"})]})],
                    imports=[{"from": "Lib", "what": ["Shared"]}]), lib])
    out.append([mod("User", [("T", {"k": "seq", "fields": [field("a", {"k": "int", "lo": 0, "hi": "limit"})]})],
                    imports=[{"from": "Lib", "what": ["limit"]}]), lib])
    out.append([mod("User", [("T", {"k": "seq", "fields": [field("a", INT, dflt="limit"), field("b", BOOL, dflt="flag"),
                                                             field("c", UTF8, dflt="name")]})],
                    imports=[{"from": "Lib", "what": ["limit", "flag", "name"]}]), lib])
    out.append([mod("User", [("T", {"k": "seq", "fields": [field("s", {"k": "ref", "name": "Shared"}),
                                                             field("a", {"k": "int", "lo": 0, "hi": "limit"})]})],
                    imports=[{"from": "Lib", "what": ["Shared", "limit"]}]), lib])
    # F4: DEFAULT of every literal kind
    dfl = [(INT, "5"), (INT, "-3"), ({"k": "int", "lo": -10, "hi": 10}, "-3"), (U8, "200"), (BOOL, "TRUE"), (BOOL, "FALSE"),
           (UTF8, '"some text"'), ({"k": "str", "cs": "IA5String"}, '"abc"'), ({"k": "str", "cs": "PrintableString"}, '"abc"'),
           ({"k": "str", "cs": "NumericString"}, '"123"'), ({"k": "str", "cs": "VisibleString"}, '"abc"'),
           (OCT, "'AB'H"), (OCT, "''H"), ({"k": "octets", "size": [2, 2, False]}, "'ABCD'H"),
           (BITS, "'0101'B"), (BITS, "'A5'H"), (UTF8, '""'), ({"k": "int", "lo": 0, "hi": None}, "7"),
           ({"k": "int", "lo": 0, "hi": 255, "ext": True}, "7")]
    for t, lit in dfl:
        out.append([mod("M", [("T", {"k": "seq", "fields": [field("a", BOOL), field("d", t, dflt=lit)]})])])
    out.append([mod("M", [("E", {"k": "enum", "items": ["abc", "def-g"]}),
                          ("T", {"k": "seq", "fields": [field("e", {"k": "ref", "name": "E"}, dflt="def-g")]})])])
    out.append([mod("M", [("T", {"k": "seq", "fields": [field("e", {"k": "enum", "items": ["abc", "def-g"]}, dflt="abc")]})])])
    out.append([mod("M", [("W", U8), ("T", {"k": "seq", "fields": [field("w", {"k": "ref", "name": "W"}, dflt="3")]})])])
    # DEFAULT of a component whose type is a reference to a type assignment of every leaf kind (the
    # constant has the newtype's type, not the literal's)
    for nm, t, lit in (("Flag", BOOL, "TRUE"), ("Flag", BOOL, "FALSE"), ("Lvl", {"k": "int", "lo": -10, "hi": 10}, "-3"),
                       ("Big", INT, "70000"), ("Ext", {"k": "int", "lo": 0, "hi": 255, "ext": True}, "7")):
        out.append([mod("M", [(nm, t), ("T", {"k": "seq", "fields": [field("a", BOOL), field("d", {"k": "ref", "name": nm}, dflt=lit)]})])])
        out.append([mod("M", [(nm, t), ("T", {"k": "seq", "ext": 0, "fields": [field("a", BOOL), field("d", {"k": "ref", "name": nm}, dflt=lit)]})])])
    # value assignments governed by an extensible INTEGER: inside the root (also below zero with MIN) and outside of it
    out.append([mod("M", [("T", BOOL)], values=[("below-zero", "INTEGER (MIN..-1, ...)", "-5"), ("beyond-root", "INTEGER (0..7, ...)", "300"),
                                                  ("beyond-signed", "INTEGER (-8..7, ...)", "200"), ("within-root", "INTEGER (0..7, ...)", "3"),
                                                  ("neg-root", "INTEGER (-8..7, ...)", "-8"), ("far-below", "INTEGER (-8..7, ...)", "-70000")])])
    out.append([mod("M", [("T", {"k": "seq", "fields": [field("level", {"k": "int", "lo": 0, "hi": 7, "ext": True}, dflt="300")]})],
                    values=[("wide", "INTEGER (0..255, ...)", "70000")])])
    # a named CHOICE, used as a component, whose alternatives reference the same (explicitly tagged / untagged)
    # type assignment more than once: the tag of the CHOICE is looked up through each of them
    for ctag in ({"tag": "[APPLICATION 3]"}, {}):
        coord = dict({"k": "int", "lo": -1800, "hi": 1800}, **ctag)
        pos = {"k": "choice", "alts": [field("latitude", {"k": "ref", "name": "Coordinate"}), field("longitude", {"k": "ref", "name": "Coordinate"}),
                                       field("height", {"k": "ref", "name": "Coordinate"})]}
        out.append([mod("M", [("Coordinate", coord), ("Position", pos),
                              ("Waypoint", {"k": "seq", "fields": [field("name", UTF8), field("at", {"k": "ref", "name": "Position"}),
                                                                   field("via", {"k": "ref", "name": "Position"}, opt=True)]}),
                              ("Track", {"k": "seqof", "of": {"k": "ref", "name": "Position"}})])])
    # ENUMERATED DEFAULT whose variant name exercises every rule of the variant mangling (runs of
    # capitals, capital at the end, digits, hyphens): the DEFAULT constant must name the declared variant
    odd = ["plain", "unknownID", "aB", "abCD", "x9Y", "some-THING", "aBC-d", "a-b-c", "iPv6", "uRL", "x2"]
    for v in odd:
        out.append([mod("M", [("E", {"k": "enum", "items": odd}),
                              ("T", {"k": "seq", "fields": [field("e", {"k": "ref", "name": "E"}, dflt=v)]})])])
    out.append([mod("M", [("T", {"k": "seq", "fields": [field("e" + str(i), {"k": "enum", "items": odd}, dflt=v) for i, v in enumerate(odd)]})])])
    # named numbers together with a DEFAULT (constants must have the component's plain type)
    out.append([mod("M", [("T", {"k": "seq", "fields": [
        field("kind", {"k": "int", "lo": 0, "hi": 255, "named": [["apple", 1], ["pear", 2]]}, dflt="2"),
        field("wide", {"k": "int", "lo": -5, "hi": 300, "named": [["low", -5], ["high", 300]]}, dflt="-5"),
        field("plain", {"k": "int", "lo": 0, "hi": 7, "named": [["one", 1]]})]})])])
    out.append([mod("M", [("T", {"k": "seq", "ext": 0, "fields": [
        field("a", BOOL), field("kind", {"k": "int", "lo": 0, "hi": 255, "named": [["apple", 1], ["pear", 2]]}, dflt="2")]})])])
    # DEFAULT components after the extension marker, of every literal kind
    out.append([mod("M", [("E", {"k": "enum", "items": ["abc", "def-g"]}),
                          ("T", {"k": "seq", "ext": 0, "fields": [field("a", BOOL), field("i", U8, dflt="7"), field("b", BOOL, dflt="TRUE"),
                                                                 field("s", UTF8, dflt='"none"'), field("e", {"k": "ref", "name": "E"}, dflt="def-g")]})])])
    # shapes at the edge of what the generator supports
    out.append([mod("M", [("T", {"k": "seq", "fields": []})])])
    out.append([mod("M", [("T", {"k": "seq", "fields": [], "ext": -1})])])
    out.append([mod("M", [("T", {"k": "seq", "fields": [field("a", BOOL)], "ext": 0})])])
    out.append([mod("M", [("T", {"k": "seq", "fields": [field("a", BOOL), field("b", U8)], "ext": 0})])])
    out.append([mod("M", [("C", {"k": "choice", "alts": []})])])
    out.append([mod("M", [("E", {"k": "enum", "items": ["a"], "ext": 0})])])
    out.append([mod("M", [("T", NUL), ("U", OCT), ("V", BITS), ("W", UTF8), ("X", BOOL), ("Y", INT),
                          ("Z", {"k": "seqof", "of": U8}), ("Z2", {"k": "setof", "of": {"k": "seqof", "of": BOOL}})])])
    out.append([mod("M", [("T", {"k": "seq", "fields": [field("a", BOOL), field("n", {"k": "int", "lo": 0, "hi": 7, "named": [["one", 1]]})], "ext": 0})])])
    out.append([mod("M", [("T", {"k": "seq", "fields": [field("a", BOOL), field("b", {"k": "bits", "named": [["flag", 0]]})], "ext": 0})])])
    out.append([mod("M", [("T", {"k": "seq", "fields": [field("a", BOOL), field("n", {"k": "int", "lo": 0, "hi": 7, "named": [["one", 1]]}, opt=True)], "ext": 0})])])
    out.append([mod("M", [("B", {"k": "bits", "named": [["first", 0], ["second-bit", 1]], "size": [2, 8, False]})])])
    out.append([mod("M", [("T", {"k": "seq", "fields": [field("b", {"k": "bits", "named": [["first", 0], ["second-bit", 1]]})]})])])
    out.append([mod("M", [("T", {"k": "seq", "fields": [field("l", {"k": "seqof", "of": {"k": "seq", "fields": [field("x", BOOL)]}})]})])])
    out.append([mod("M", [("T", {"k": "seq", "fields": [field("l", {"k": "seqof", "of": {"k": "choice", "alts": [field("x", BOOL)]}}, opt=True)]})])])
    out.append([mod("M", [("T", {"k": "seq", "fields": [field("big", {"k": "int", "lo": -9223372036854775808, "hi": 9223372036854775807}),
                                                          field("neg", {"k": "int", "lo": -5, "hi": -1}),
                                                          field("wide", {"k": "int", "lo": 0, "hi": 18446744073709551615})]})])])
    out.append([mod("M", [("R", {"k": "seq", "fields": [field("next", {"k": "ref", "name": "R"}, opt=True)]})])])
    out.append([mod("M", [("R", {"k": "seq", "fields": [field("kids", {"k": "seqof", "of": {"k": "ref", "name": "R"}})]})])])
    out.append([mod("M", [("A", {"k": "seq", "fields": [field("b", {"k": "ref", "name": "B"})]}),
                          ("B", {"k": "choice", "alts": [field("a", {"k": "ref", "name": "A"}), field("n", NUL)]})])])
    out.append([mod("M", [("Z", {"k": "seqof", "of": {"k": "seq", "fields": [field("x", BOOL)]}})])])
    out.append([mod("M", [("Z", {"k": "setof", "of": {"k": "enum", "items": ["p", "q"]}})])])
    out.append([mod("M", [("W", {"k": "int", "lo": -5, "hi": 5})], [("w-neg", "W", "-1"), ("i8-neg", "INTEGER (-5..5)", "-3")])])
    out.append([mod("M", [("T", {"k": "seq", "tag": "[APPLICATION 3]", "fields": [field("a", dict(BOOL, tag="[7]")), field("b", dict(U8, tag="[PRIVATE 1]"))]})])])
    return out


CLEAN = [False]    # rnd_ident mode: identifiers that cannot be keywords or mangle onto each other


def rnd_ident(rng, upper=False):
    if CLEAN[0]:
        n = rng.choice(["alpha", "beta", "gamma", "delta", "eps", "zeta", "eta", "theta", "iota", "kappa", "lam", "mu"])
        n += rng.choice(["", "-x", "-y", "Z", "-item", "Value", "2", "-3"]) + rng.choice(["", "", "q", "w", "k", "j"])
        return n[0].upper() + n[1:] if upper else n
    if rng.chance(1, 3):
        n = rng.choice(POOL_VARIANTS + [k for k in RUST_KEYWORDS if k[0].islower()])
    else:
        ln = rng.range(1, 8)
        n = rng.choice("abcxyz")
        for _ in range(ln - 1):
            c = rng.choice("abcdeXYZ019-")
            if c == "-" and n.endswith("-"):
                c = "q"
            n += c
        n = n.rstrip("-") or "q"
    if upper:
        n = n[0].upper() + n[1:]
    return n


ASN_RESERVED = {"END", "BEGIN", "INTEGER", "BOOLEAN", "NULL", "SEQUENCE", "SET", "CHOICE", "OF", "SIZE", "OPTIONAL",
                "DEFAULT", "IMPORTS", "FROM", "TRUE", "FALSE", "MIN", "MAX", "ENUMERATED", "OCTET", "BIT", "STRING"}


def rnd_type(rng, depth, typenames):
    c = rng.below(16 if depth < 2 else 10)
    if c == 0:
        return dict(BOOL)
    if c == 1:
        lo = rng.choice([0, 0, 1, -5, -128, 0, None])
        hi = rng.choice([1, 7, 255, 256, 65535, 65536, 4294967295, 4294967296, 9223372036854775807, None])
        if lo is not None and hi is not None and lo > hi:
            lo = 0
        t = {"k": "int", "lo": lo, "hi": hi, "ext": rng.chance(1, 5) and (lo is not None or hi is not None)}
        if rng.chance(1, 4):
            t["named"] = [[rnd_ident(rng), i] for i in range(rng.range(1, 3))]
        return t
    if c == 2:
        return dict(INT)
    if c == 3:
        t = {"k": "str", "cs": rng.choice(["UTF8String", "IA5String", "NumericString", "PrintableString", "VisibleString"])}
        if rng.chance(1, 2):
            lo = rng.range(0, 3)
            t["size"] = [lo, lo + rng.range(0, 5), rng.chance(1, 4)]
        return t
    if c == 4:
        t = {"k": "octets"}
        if rng.chance(1, 2):
            lo = rng.range(0, 3)
            t["size"] = [lo, lo + rng.range(0, 5), rng.chance(1, 4)]
        return t
    if c == 5:
        t = {"k": "bits"}
        if rng.chance(1, 2):
            lo = rng.range(1, 3)
            t["size"] = [lo, lo + rng.range(0, 9), rng.chance(1, 4)]
        if rng.chance(1, 3):
            t["named"] = [[rnd_ident(rng), i] for i in range(rng.range(1, 3))]
        return t
    if c == 6:
        return dict(NUL)
    if c in (7, 8) and typenames:
        return {"k": "ref", "name": rng.choice(typenames)}
    if c in (7, 8, 9):
        return {"k": "enum", "items": uniq([rnd_ident(rng) for _ in range(rng.range(1, 4))]),
                "ext": None}
    if c in (10, 11):
        t = {"k": rng.choice(["seqof", "setof"]), "of": rnd_type(rng, depth + 1, typenames)}
        if rng.chance(1, 3):
            lo = rng.range(0, 2)
            t["size"] = [lo, lo + rng.range(1, 5), rng.chance(1, 4)]
        return t
    if c in (12, 13):
        return rnd_struct(rng, depth + 1, typenames, rng.choice(["seq", "seq", "set"]))
    return rnd_struct(rng, depth + 1, typenames, "choice")


def uniq(xs):
    return list(dict.fromkeys(xs))


def rnd_struct(rng, depth, typenames, kind):
    n = rng.range(1, 4)
    names = uniq([rnd_ident(rng) for _ in range(n)])
    fl = []
    for nm in names:
        t = rnd_type(rng, depth, typenames)
        f = field(nm, t)
        if kind != "choice":
            r = rng.below(6)
            if r == 0:
                f["opt"] = True
            elif r == 1:
                k = t["k"]
                if k == "bool":
                    f["def"] = rng.choice(["TRUE", "FALSE"])
                elif k == "int":
                    lo = t.get("lo") if t.get("lo") is not None else 0
                    f["def"] = str(lo)
                elif k == "enum" and t.get("items"):
                    f["def"] = rng.choice(t["items"])
                elif k == "str":
                    f["def"] = '"1"' if t["cs"] == "NumericString" else '"ab"'
                    if t.get("size"):
                        f["def"] = None
        if rng.chance(1, 8):
            t["tag"] = rng.choice(["[%d]" % rng.range(0, 40), "[APPLICATION %d]" % rng.range(0, 9), "[PRIVATE 2]"])
        fl.append(f)
    t = {"k": kind, ("alts" if kind == "choice" else "fields"): fl, "ext": None}
    if rng.chance(1, 4) and len(fl) >= 1:
        t["ext"] = rng.range(0, len(fl) - 1)
    return t


def rnd_module(rng, name="Rnd-Mod"):
    ndefs = rng.range(1, 4)
    typenames = uniq([rnd_ident(rng, upper=True) for _ in range(ndefs)])
    typenames = [t for t in typenames if t.upper() not in ASN_RESERVED]
    defs = []
    for i, tn in enumerate(typenames):
        defs.append([tn, rnd_type(rng, 0, typenames[:i])])
    values = []
    if rng.chance(1, 3):
        values.append([rnd_ident(rng), "INTEGER", str(rng.range(0, 99))])
    return mod(name, defs, values)


# ---------------------------------------------------------------------------------------- stream

FN_OPS = ["a.field", "a.variant", "a.type", "a.const", "a.module0", "a.module1", "a.nice",
          "b.field0", "b.field1", "b.variant", "b.module"]
EMIT_OPS = ["emit.field", "emit.variant", "emit.type", "emit.const", "emit.module"]


def fn_req(op, name):
    h = hexs(name.encode())
    if op in ("a.module0", "a.module1", "b.field0", "b.field1"):
        return f"names {op[:-1]} {h} {op[-1]}"
    return f"names {op} {h}"


class NamesStream(runner.Stream):
    name = "names"
    prefixes = ["names"]
    exhaustive = True

    def __init__(self):
        self.rustc = Rustc()
        self.batch = []

    def gen(self, rng, tier):
        reqs = []
        pool = list(dict.fromkeys(RUST_KEYWORDS + GEN_KEYWORDS + POOL_VARIANTS + TYPE_POOL + MODULE_POOL + [
            "some-importantValue60degreeOffset-30-other10-more_42", "EEWaffle", "ee-waffle", "e-waffle",
            "some-thingy-ThingWithID", "SIMPLE_Test", "DRY_Module", "DRYModule", "Module", "_Module", "XModule_Module",
            "", "-", "_", "--", "-a", "_a", "a-", "a_", "a--b", "a__b", "a-_b", "1a", "A", "AB", "ABc", "ABC", "aBCd", "A1B", "a1B2c"]))
        for n in pool:
            for op in FN_OPS:
                reqs.append(fn_req(op, n))
            if IDENT_RE.match(n) and n != "_":
                reqs.append("names iskw " + hexs(n.encode()))
        # exhaustive short strings over an alphabet with one member of every character class
        alpha = "aBc1-_"
        maxlen = 4 if tier == "quick" else 5
        words = [""]
        frontier = [""]
        for _ in range(maxlen):
            frontier = [w + c for w in frontier for c in alpha]
            words += frontier
        for w in words:
            for op in FN_OPS:
                reqs.append(fn_req(op, w))
        # the compositions through the real pipeline: identifiers the tokenizer keeps as one token
        # (no `--`: that starts a comment), starting with a letter
        emit_names = [n for n in pool if re.fullmatch(r"[A-Za-z][A-Za-z0-9_-]*", n) and "--" not in n and n.upper() not in ASN_RESERVED]
        emit_names += [w for w in words if re.fullmatch(r"[A-Za-z][A-Za-z0-9_-]*", w) and "--" not in w]
        for n in dict.fromkeys(emit_names):
            for op in EMIT_OPS:
                reqs.append(fn_req(op, n))
        for p in ["T", "Foo-Bar", "fooBar", "ParentID", "HTTP"]:
            for f in ["a", "the-field", "theField", "iD", "x1", "self", "hTTP"]:
                reqs.append(f"names emit.inline {hexs(p.encode())} {hexs(f.encode())}")
        # random longer ASCII strings (printable, every class), and random identifiers
        k = 1500 if tier == "quick" else 30000
        for _ in range(k):
            ln = rng.range(1, 24)
            if rng.chance(1, 2):
                w = "".join(rng.choice("abcdefgXYZABC0189-_") for _ in range(ln))
            else:
                w = "".join(chr(rng.range(0x20, 0x7E)) for _ in range(ln))
            for op in FN_OPS:
                reqs.append(fn_req(op, w))
        for _ in range(k // 3):
            n = rnd_ident(rng, upper=rng.chance(1, 3))
            if n.upper() in ASN_RESERVED:
                continue
            for op in EMIT_OPS:
                reqs.append(fn_req(op, n))
        # whole-pipeline requests (rustc oracle): fixed families, then random modules
        self.batch = []
        for mods in corpus_modules(tier):
            self.batch.append(gen_request(mods))
        nrand = 40 if tier == "quick" else 400
        for i in range(nrand):
            self.batch.append(gen_request([rnd_module(rng)]))
        CLEAN[0] = True      # identifiers outside every known class: these are expected to compile
        for i in range(nrand * 2):
            self.batch.append(gen_request([rnd_module(rng, "Clean-Mod")]))
        CLEAN[0] = False
        reqs += self.batch
        return reqs

    def rustc_verdict(self, req):
        """None = compiles, else the first rustc error; the first call of a run checks the whole
        batch at once, a replayed request is checked alone"""
        if req not in self.rustc.verdict:
            todo = [r for r in self.batch if r not in self.rustc.verdict] if req in self.batch else [req]
            self.rustc.check(todo)
        return self.rustc.verdict.get(req)

    # ------------------------------------------------------------------------------------ oracle
    def oracle(self, req, ans):
        t = req.split(" ")
        op = t[1]
        if op.startswith("emit."):
            # the identifier that reached the generated file must be a legal Rust identifier
            if not ans.startswith("ok "):
                if ans == "panic gen":
                    return "the generator panicked on an accepted module"
                return None   # rejected by the front end (or a front-end panic: C14's business)
            name = bytes.fromhex(ans[3:]).decode() if ans[3:] != "-" else ""
            if not IDENT_RE.match(name):
                return f"emitted identifier `{name}` is not of the form [A-Za-z_][A-Za-z0-9_]*"
            if name in RUST_KEYWORDS and op != "emit.module":
                return f"emitted identifier `{name}` is a Rust keyword"
            return None
        if op == "gen":
            if ans == "panic gen":
                return "accepted by the front end, but the generator panicked instead of producing code or an error"
            if not ans.startswith("ok "):
                return None
            why = self.rustc_verdict(req)
            if why is not None:
                return "accepted by the front end, rejected by rustc: " + why
            # identifier cross-check of the answer against the independent mangling
            _, sch = schema_of(req)
            if sch is not None:
                ids = ans.split(" ")[2].split(",") if len(ans.split(" ")) > 2 else []
                have = set(ids)
                for m in sch:
                    for n, ty in m.get("defs", []):
                        kind = "e:" if ty["k"] in ("enum", "choice") else "s:"
                        if kind + emit_type(n) not in have:
                            return f"definition {n}: expected `{kind}{emit_type(n)}` among the emitted identifiers"
                        if ty["k"] in ("seq", "set"):
                            for f in ty["fields"]:
                                if "f:" + emit_field(f["n"]) not in have:
                                    return f"component {f['n']}: expected field `{emit_field(f['n'])}`"
                        if ty["k"] == "choice":
                            for f in ty["alts"]:
                                if "v:" + emit_variant(f["n"]) not in have:
                                    return f"alternative {f['n']}: expected variant `{emit_variant(f['n'])}`"
                        if ty["k"] == "enum":
                            for v in ty["items"]:
                                if "v:" + emit_variant(v) not in have:
                                    return f"item {v}: expected variant `{emit_variant(v)}`"
                    for n, _, _ in m.get("values", []):
                        if "c:" + emit_const(n) not in have:
                            return f"value {n}: expected constant `{emit_const(n)}`"
            return None
        return None

    def finding_class(self, req, ans):
        t = req.split(" ")
        op = t[1]
        if op.startswith("emit.") and len(t) >= 3:
            try:
                n = bytes.fromhex(t[2]).decode() if t[2] != "-" else ""
            except ValueError:
                return None
            f = {"emit.field": emit_field, "emit.variant": emit_variant, "emit.type": emit_type,
                 "emit.const": emit_const, "emit.module": emit_module, "emit.inline": None}[op]
            if f is None:
                try:
                    fld = bytes.fromhex(t[3]).decode()
                except (ValueError, IndexError):
                    return None
                m = emit_type(emit_type(n) + emit_type(fld))
            else:
                m = f(n)
            if m in RUST_KEYWORDS:
                return "names.keyword_unescaped"
            if op == "emit.module" and not IDENT_RE.match(m):
                return "names.module_path"
            return None
        if op == "gen":
            _, sch = schema_of(req)
            if sch is None:
                return None
            cl = classes_of(sch)
            return cl[0] if cl else None
        return None

    def compare(self, req, impl, model):
        if model == "skip":
            return True
        return impl == model

    def tag(self, req, ans):
        t = req.split(" ")
        op = t[1]
        if op == "gen":
            if not ans.startswith("ok"):
                return "gen:" + ans.replace(" ", "-")
            v = self.rustc_verdict(req)
            _, sch = schema_of(req)
            cl = classes_of(sch) if sch else []
            return "gen:" + ("rustc-ok" if v is None else "rustc-rejects") + (":" + cl[0].split(".")[1] if cl else "")
        if op.startswith("emit."):
            return op + ":" + ans.split(" ")[0]
        return op

    def nontrivial(self, req, ans):
        return ans.startswith("ok")


class Spec(runner.Spec):
    prop = "C09"
    streams = [NamesStream(), c12.ResolveWitnesses()]
    assumptions = [
        "rustc acceptance is NOT modelled: `cargo check` of the files written by the real generator is the oracle (exploration level); derives, trait coherence and type checking are rustc's",
        "identifiers are ASCII (X.680 12.2/12.3); the Lean mirror uses ASCII character predicates where the Rust code uses Unicode ones",
        "the rustc oracle runs the default generator configuration (RustCodeGenerator::default(), no supplements, no protobuf/sql features)",
        "dev profile as used by the project's tests",
    ]
    trusted_base = [
        "Lean 4.33 kernel; axioms per theorem listed under coverage.theorems (allowed: propext, Classical.choice, Quot.sound)",
        "tools/extract_consts.py (KEYWORDS)",
        "hand-written mirror Codegen/Names.lean of rust.rs / generate/rust.rs naming functions — tied by the per-function ops of stream `names`",
        "RustKeywords2021 (Lean constant) — cross-checked against syn's identifier parser (op `iskw`) and against rustc (every keyword is compiled as a field)",
        "harness/src/names.rs, Driver/NamesStream.lean, tools/checks/c09.py (Python re-implementation of the mangling for class predicates), tools/rustcheck, cargo/rustc 1.95",
    ]
