import runner
import consts_stream
import uper_streams
from checks.uper_common import ASSUMPTIONS, TRUSTED


class Spec(runner.Spec):
    prop = "C03"
    # `consts`: the descriptor constants the codec sees, re-derived from the ASN.1 source of the zoo
    streams = [uper_streams.Shapes(), uper_streams.SpecDecode(), uper_streams.DescConsistency(), consts_stream.ConstsFromSource("C03")]
    assumptions = ASSUMPTIONS + ["the property quantifies over source schemas, the codec sees descriptors: stream `consts` compares every zoo type's descriptor constants with an expectation derived from the ASN.1 text by tools/consts_stream.py (own parser) and with Codegen/ConstsModel.lean; recorded deviations of the generator (findings of C08) are accepted as coded"]
    # Props/Scope.lean: the faithful model of the Scope state machine (Uper/Scope.lean) refines the
    # compositional mirror; the driver answers every request with both and reports `scope-mismatch`
    extra_prop_files = ["Scope"]
    trusted_base = TRUSTED
