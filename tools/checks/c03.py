import runner
import uper_streams
from checks.uper_common import ASSUMPTIONS, TRUSTED


class Spec(runner.Spec):
    prop = "C03"
    streams = [uper_streams.Shapes(), uper_streams.DescConsistency()]
    assumptions = ASSUMPTIONS
    trusted_base = TRUSTED
