"""C12 — value references and imports resolve exactly like the literals they name.

Stream `resolve`:
  resolve subst <modules with references> <the same modules, uses replaced by literals> <family>:<quirk>:<expect>
      → `<answer A> || <answer B>`; oracle: expect=eq: both `ok` and equal; expect=unresolved /
        illtyped: answer A is `err resolve-reference` / `err resolve-literal`; expect=refused: both
        answers are `err resolve-reference` (a use that has no valid literal form either)
  resolve perm <modules> <family>:<quirk>:<expect>
      → the answers for every load order; oracle: all `ok` and equal (dumps are reported in
        request order), or expect=err: all `err`
  resolve mods <modules> <expected dump>…
      → oracle: the dumps equal the resolved dumps computed by tools/front_gen.py from the
        abstract schemas
"""
import itertools

import front_gen as G
import runner
import vlib

# (repaired, no longer finding classes: size_negative — was resolve.size_negative_wraps —,
#  cyclic_import — was resolve.cyclic_import_overflow; their witnesses stay as family `regress`)
QUIRK_CLASS = {
    "name_oid_conflict": "resolve.import_name_oid_conflict",
    "literal_widened": "resolve.literal_variant_widened",
}

INT = ("int", None, None, False, [])


def hx(text):
    return vlib.hexs(text.encode("utf-8"))


def texts(mods, rng=None, printer=None):
    p = printer or G.Printer()
    return ",".join(hx(G.render(p.module(m), rng)) for m in mods)


def has_quirk_literal(m):
    """literal forms that the parser itself changes or refuses (C07 findings / unsupported)"""
    for it in m["items"]:
        ty = it[2] if it[0] == "vr" else it[3]
        for t in G.walk_ty(ty):
            if t[0] == "int":
                if (t[1] == 0 and t[2] is None) or (t[1] is None and t[2] == G.I64_MAX):
                    return True
            k = {"str": 2, "oct": 1, "bit": 1, "seqof": 1, "setof": 1}.get(t[0])
            if k is not None:
                s = t[k]
                for x in s[1:-1]:
                    if isinstance(x, int) and x < 0:
                        return True
    return False


class Case:
    """one substitution scenario: module A uses value references whose definitions live in A or in
    siblings reached through A's imports (by name / by object identifier / through a chain)"""

    def __init__(self, r, topo):
        self.r = r
        self.topo = topo
        g = G.Gen(r, max_depth=r.range(0, 2), p_ref=2)
        self.g = g
        # pool of value references
        pool = []
        for _ in range(r.range(1, 5)):
            kind = r.choice(["i", "i", "i", "i", "b", "s", "o"])
            lit = g.lit(kind)
            if kind == "i" and r.chance(1, 2):
                lit = ("i", r.choice([0, 1, 2, 7, 8, 255, 256, 65535, 2 ** 32, r.range(0, 1000)]))
            pool.append((g.fresh("value"), lit))
        self.pool = pool
        self.values = dict(pool)
        self.typed = {nm: g.fresh("type") for nm, lit in pool if lit[0] == "i" and r.chance(1, 4)}
        for nm, lit in pool:
            if lit[0] == "i":
                g.int_refs.append((nm, lit[1]))
                if 0 <= lit[1] <= 2 ** 40:
                    g.size_refs.append((nm, lit[1]))
            g.any_refs.append((nm, lit))
        a = g.module(with_refs=False, imports=False)
        used = [n for n in dict.fromkeys(G.refs_used(a)) if n in self.values]
        if not used:
            # make sure at least one reference is used
            nm, lit = pool[0]
            if lit[0] == "i":
                a["items"].append(("def", g.fresh("type"), None, ("int", None, ("ref", nm), False, [])))
            else:
                a["items"].append(("def", g.fresh("type"), None, ("seq", [("d", None, ("bool",), ("dflt", ("ref", nm)))], None, None)))
            used = [nm]
        self.used = used
        self.a = a
        self.mods = [a]
        self.sib_oids = []
        self.place()

    def vr_item(self, nm):
        lit = self.values[nm]
        ty = {"i": INT, "b": ("bool",), "s": ("str", "utf8", ("any",)), "o": ("oct", ("any",))}[lit[0]]
        if lit[0] == "i" and nm in self.typed:
            # `Count ::= INTEGER (..)`, `nm Count ::= 40`: declared with a user-defined integer type
            # (the type name is not defined in the module: the resolver never looks at it)
            ty = ("ref", self.typed[nm])
        return ("vr", nm, ty, lit)

    def decoy(self, nm):
        lit = self.values[nm]
        other = {"i": ("i", (lit[1] - 1 if lit[1] > 0 else lit[1] + 1) if lit[0] == "i" else 0), "b": ("b", not lit[1]) if lit[0] == "b" else ("b", True),
                 "s": ("s", ["decoy"]), "o": ("o", "DEC0")}[lit[0]]
        ty = {"i": INT, "b": ("bool",), "s": ("str", "utf8", ("any",)), "o": ("oct", ("any",))}[lit[0]]
        return ("vr", nm, ty, other)

    def sibling(self, with_oid):
        g = self.g
        m = {"name": g.fresh("module"), "oid": None, "imports": [], "items": []}
        if with_oid:
            # object identifiers are unique (X.680): no two modules of a case carry the same one (the
            # generator draws them from a small pool), so an import by identifier names exactly one
            taken = [x["oid"] for x in self.mods] + self.sib_oids
            oid = g.oid() or [("u", 1), ("u", self.r.range(0, 999))]
            while oid in taken:
                oid = list(oid) + [("u", 7000 + len(taken))]
            self.sib_oids.append(oid)
            m["oid"] = oid
        if self.r.chance(1, 2):
            keep, g.p_ref = g.p_ref, 10 ** 9      # the sibling itself uses no references
            m["items"].append(("def", g.fresh("type"), None, g.leaf()))
            g.p_ref = keep
        return m

    def place(self):
        r, a, topo = self.r, self.a, self.topo
        if topo == "local":
            a["items"] = [self.vr_item(n) for n in self.used] + a["items"]
            if r.chance(1, 2):
                r_items = list(a["items"])
                keyed = sorted((r.below(1000), i, it) for i, it in enumerate(r_items))
                a["items"] = [it for _, _, it in keyed]
            return
        if topo in ("byname", "byoid", "byoid_othername", "byname_oidmismatch", "byname_modoid"):
            b = self.sibling(with_oid=topo != "byname")
            b["items"] += [self.vr_item(n) for n in self.used]
            if topo == "byname":
                imp = (list(self.used), b["name"], None)
            elif topo == "byoid":
                imp = (list(self.used), b["name"], b["oid"])
            elif topo == "byoid_othername":
                imp = (list(self.used), self.g.fresh("module"), b["oid"])
            elif topo == "byname_oidmismatch":
                imp = (list(self.used), b["name"], [("u", 9), ("u", 9), ("u", 9)])
            else:
                imp = (list(self.used), b["name"], None)
            a["imports"].append(imp)
            self.mods.append(b)
            return
        if topo == "split":
            # some local, some from B by name, some from C by oid
            b = self.sibling(False)
            c = self.sibling(True)
            fb, fc = [], []
            for n in self.used:
                k = r.below(3)
                if k == 0:
                    a["items"].insert(0, self.vr_item(n))
                elif k == 1:
                    b["items"].append(self.vr_item(n))
                    fb.append(n)
                else:
                    c["items"].append(self.vr_item(n))
                    fc.append(n)
            if fb:
                a["imports"].append((fb, b["name"], None))
            if fc:
                a["imports"].append((fc, c["name"] if r.chance(1, 2) else self.g.fresh("module"), c["oid"]))
            # either clause may come first: a FROM clause by name after one by object identifier
            if r.chance(1, 2):
                a["imports"].reverse()
            # decoys: the module that is NOT imported from may define the same name with another value
            if r.chance(1, 3):
                for n in fb:
                    c["items"].append(self.decoy(n))
                for n in fc:
                    b["items"].append(self.decoy(n))
            self.mods += [b, c]
            return
        if topo == "chain":
            # A imports from B, B imports from C, the values live in C
            b = self.sibling(r.chance(1, 2))
            c = self.sibling(r.chance(1, 2))
            c["items"] += [self.vr_item(n) for n in self.used]
            b["imports"].append((list(self.used), c["name"], c["oid"] if r.chance(1, 2) else None))
            a["imports"].append((list(self.used), b["name"], b["oid"] if r.chance(1, 2) else None))
            self.mods += [b, c]
            return
        raise ValueError(topo)

    def literal_mods(self):
        return [G.subst_module(self.a, self.values)] + self.mods[1:]


TOPOS = ["local", "byname", "byoid", "byoid_othername", "byname_oidmismatch", "byname_modoid", "split", "chain"]


class ResolveStream(runner.Stream):
    name = "resolve"
    prefixes = ["resolve"]
    exhaustive = False

    def gen(self, rng, tier):
        reqs = []
        scale = 1 if tier == "quick" else 10
        reqs += self.witnesses()
        r = rng.fork("subst")
        n = 2400 * scale
        made = 0
        while made < n:
            topo = TOPOS[made % len(TOPOS)]
            c = Case(r, topo)
            lit = c.literal_mods()
            if has_quirk_literal(lit[0]):
                continue
            made += 1
            layout = None if made % 2 else r
            k = len(c.mods)
            reqs.append(f"resolve perm {texts(c.mods, layout)} subst:{topo}:ok")
            for perm in itertools.permutations(range(k)):
                ma = [c.mods[i] for i in perm]
                mb = [lit[i] for i in perm]
                reqs.append(f"resolve subst {texts(ma, layout)} {texts(mb, layout)} subst:{topo}:eq")
            if made % 3 == 0:
                exp = " ".join(G.dump_r(m, c.mods) for m in c.mods)
                reqs.append(f"resolve mods {texts(c.mods, layout)} {exp}")
            # negative variants of the same case
            if made % 2 == 0:
                reqs += self.negatives(c, r)
        return reqs

    # ------------------------------------------------------------------ families
    def negatives(self, c, r):
        out = []
        victim = r.choice(c.used)
        home = None
        for m in c.mods:
            if any(it[0] == "vr" and it[1] == victim for it in m["items"]):
                home = m
        # make sure the victim is used where an integer is needed, first in module A
        use = ("def", "ZzUse", None, r.choice([("int", 1, ("ref", victim), False, []),
                                               ("oct", ("fix", ("ref", victim), False)),
                                               ("seqof", ("range", 1, ("ref", victim), True), ("bool",))]))

        def clone(mods):
            return [dict(m, items=list(m["items"]), imports=list(m["imports"])) for m in mods]

        # (1) the definition is missing
        mods = clone(c.mods)
        for m in mods:
            m["items"] = [it for it in m["items"] if not (it[0] == "vr" and it[1] == victim)]
        mods[0]["items"] = [use] + mods[0]["items"]
        out.append(self.neg(mods, "missing_definition", "unresolved", r))
        # (2) the import does not list the name / the imported module is not loaded
        if home is not c.mods[0]:
            mods = clone(c.mods)
            mods[0]["imports"] = [([w for w in what if w != victim], frm, oid) for what, frm, oid in mods[0]["imports"]]
            mods[0]["imports"] = [i for i in mods[0]["imports"] if i[0]]
            mods[0]["items"] = [use] + mods[0]["items"]
            out.append(self.neg(mods, "not_imported", "unresolved", r))
            mods = clone(c.mods)
            mods[0]["items"] = [use] + mods[0]["items"]
            mods = [m for m in mods if m is mods[0] or not any(it[0] == "vr" and it[1] == victim for it in m["items"])]
            out.append(self.neg(mods, "module_not_loaded", "unresolved", r))
        # (3) the reference names a value that is not an integer
        mods = clone(c.mods)
        bad = r.choice([("b", True), ("s", ["text"]), ("o", "0A"), ("s", ["10"]), ("s", [str(r.range(0, 300))]), ("o", "10")])
        for m in mods:
            m["items"] = [(("vr", it[1], {"b": ("bool",), "s": ("str", "utf8", ("any",)), "o": ("oct", ("any",))}[bad[0]], bad)
                           if (it[0] == "vr" and it[1] == victim) else it) for it in m["items"]]
        mods[0]["items"] = [use] + mods[0]["items"]
        out.append(self.neg(mods, "not_an_integer", "illtyped", r))
        return out

    def neg(self, mods, quirk, expect, r):
        order = list(range(len(mods)))
        if r.chance(1, 2):
            order.reverse()
        ms = [mods[i] for i in order]
        return f"resolve subst {texts(ms)} - neg:{quirk}:{expect}"

    def witnesses(self):
        out = []
        # the exporting module's name ends in `Module` / `_Module` (trimmed by the parser in the header AND after
        # FROM): an import by name still finds it, in every load order
        for lib_name in ("SharedLimitsModule", "Shared_Module", "LimitsModule"):
            lib = f"{lib_name} DEFINITIONS AUTOMATIC TAGS ::= BEGIN\nlowest INTEGER ::= 3\nhighest INTEGER ::= 9\nEND"
            a = (f"Gauge DEFINITIONS AUTOMATIC TAGS ::= BEGIN\nIMPORTS lowest, highest FROM {lib_name};\nLevel ::= INTEGER (lowest..highest)\n"
                 "Blob ::= OCTET STRING (SIZE(lowest..highest))\nCfg ::= SEQUENCE { d INTEGER DEFAULT highest }\nEND")
            b = (f"Gauge DEFINITIONS AUTOMATIC TAGS ::= BEGIN\nIMPORTS lowest, highest FROM {lib_name};\nLevel ::= INTEGER (3..9)\n"
                 "Blob ::= OCTET STRING (SIZE(3..9))\nCfg ::= SEQUENCE { d INTEGER DEFAULT 9 }\nEND")
            out.append(f"resolve subst {hx(a)},{hx(lib)} {hx(b)},{hx(lib)} regress:module_suffix_import:eq")
            out.append(f"resolve subst {hx(lib)},{hx(a)} {hx(lib)},{hx(b)} regress:module_suffix_import:eq")
        # a value re-exported through intermediate modules while the importer has a single FROM clause
        base = "Base DEFINITIONS AUTOMATIC TAGS ::= BEGIN\nfirst-id INTEGER ::= 5\nEND"
        mid = "Middle DEFINITIONS AUTOMATIC TAGS ::= BEGIN\nIMPORTS first-id FROM Base;\nEND"
        mid2 = "Middle2 DEFINITIONS AUTOMATIC TAGS ::= BEGIN\nIMPORTS first-id FROM Middle;\nEND"
        top = "Top DEFINITIONS AUTOMATIC TAGS ::= BEGIN\nIMPORTS first-id FROM Middle2;\nA ::= INTEGER (0..first-id)\nB ::= OCTET STRING (SIZE(first-id))\nEND"
        topl = "Top DEFINITIONS AUTOMATIC TAGS ::= BEGIN\nIMPORTS first-id FROM Middle2;\nA ::= INTEGER (0..5)\nB ::= OCTET STRING (SIZE(5))\nEND"
        for order in ((0, 1, 2, 3), (3, 2, 1, 0), (2, 0, 3, 1)):
            ms, ml = [base, mid, mid2, top], [base, mid, mid2, topl]
            out.append("resolve subst " + ",".join(hx(ms[i]) for i in order) + " " + ",".join(hx(ml[i]) for i in order) + " regress:reexport_chain:eq")
        # two value assignments whose names differ only in the case of a letter: each use resolves to its own
        for n1, n2 in (("maxLen", "maxlen"), ("lowerBound", "lowerbound"), ("aB", "ab")):
            vals = f"{n1} INTEGER ::= 4\n{n2} INTEGER ::= 8"
            body = ("Blob ::= OCTET STRING (SIZE(1..%s))\nSpan ::= INTEGER (%s..%s)\nLst ::= SEQUENCE (SIZE(%s..%s, ...)) OF BOOLEAN\n"
                    "Cfg ::= SEQUENCE { d INTEGER DEFAULT %s, e INTEGER DEFAULT %s }")
            a = f"Main DEFINITIONS AUTOMATIC TAGS ::= BEGIN\n{vals}\n{body % (n2, n1, n2, n1, n2, n2, n1)}\nEND"
            b = f"Main DEFINITIONS AUTOMATIC TAGS ::= BEGIN\n{vals}\n{body % (8, 4, 8, 4, 8, 8, 4)}\nEND"
            out.append(f"resolve subst {hx(a)} {hx(b)} regress:names_differ_in_case:eq")
            a = a.replace(vals, f"{n2} INTEGER ::= 8\n{n1} INTEGER ::= 4")
            b = b.replace(vals, f"{n2} INTEGER ::= 8\n{n1} INTEGER ::= 4")
            out.append(f"resolve subst {hx(a)} {hx(b)} regress:names_differ_in_case:eq")
        # value references called min / max / Max (legal names; the keywords are upper case): as INTEGER
        # and SIZE bounds they resolve like any other reference
        for lo, hi in (("min", "max"), ("mIN", "Max"), ("min", "maX")):
            vals = f"{lo} INTEGER ::= 5\n{hi} INTEGER ::= 10"
            a = (f"Main DEFINITIONS AUTOMATIC TAGS ::= BEGIN\n{vals}\nLevel ::= INTEGER ({lo}..{hi})\nOpen ::= INTEGER ({lo}..{hi}, ...)\n"
                 f"Blob ::= OCTET STRING (SIZE({lo}..{hi}))\nLst ::= SEQUENCE (SIZE(1..{hi})) OF BOOLEAN\nHalf ::= INTEGER (0..{hi})\nEND")
            b = (f"Main DEFINITIONS AUTOMATIC TAGS ::= BEGIN\n{vals}\nLevel ::= INTEGER (5..10)\nOpen ::= INTEGER (5..10, ...)\n"
                 f"Blob ::= OCTET STRING (SIZE(5..10))\nLst ::= SEQUENCE (SIZE(1..10)) OF BOOLEAN\nHalf ::= INTEGER (0..10)\nEND")
            out.append(f"resolve subst {hx(a)} {hx(b)} regress:ref_named_min_max:eq")
            lib = f"Lib DEFINITIONS AUTOMATIC TAGS ::= BEGIN\n{vals}\nEND"
            a2 = a.replace(vals, f"IMPORTS {lo}, {hi} FROM Lib;")
            b2 = b.replace(vals, f"IMPORTS {lo}, {hi} FROM Lib;")
            out.append(f"resolve subst {hx(a2)},{hx(lib)} {hx(b2)},{hx(lib)} regress:ref_named_min_max:eq")
            out.append(f"resolve subst {hx(lib)},{hx(a2)} {hx(lib)},{hx(b2)} regress:ref_named_min_max:eq")
        # a value assignment whose GOVERNING type is constrained by a reference — local, imported by name, imported
        # by object identifier: resolves like the literal module
        caps = "Caps%s DEFINITIONS AUTOMATIC TAGS ::= BEGIN\ncap INTEGER ::= 100\nklen INTEGER ::= 2\nEND"
        body = ("limit INTEGER (0..%s) ::= 40\nfloor INTEGER (-5..%s, ...) ::= -1\nkey OCTET STRING (SIZE(%s)) ::= 'AABB'H\n"
                "tag-text UTF8String (SIZE(1..%s)) ::= \"ab\"\nUse ::= SEQUENCE { n INTEGER (0..%s) DEFAULT limit }")
        for where in ("local", "byname", "byoid"):
            if where == "local":
                pre = "cap INTEGER ::= 100\nklen INTEGER ::= 2\n"
                mods_a = [f"Limits DEFINITIONS AUTOMATIC TAGS ::= BEGIN\n{pre}{body % ('cap', 'cap', 'klen', 'klen', 'cap')}\nEND"]
                mods_b = [f"Limits DEFINITIONS AUTOMATIC TAGS ::= BEGIN\n{pre}{body % (100, 100, 2, 2, 100)}\nEND"]
            else:
                frm = "Caps" if where == "byname" else "Elsewhere { 1 2 55 }"
                lib = caps % ("" if where == "byname" else " { 1 2 55 }")
                pre = f"IMPORTS cap, klen FROM {frm};\n"
                mods_a = [f"Limits DEFINITIONS AUTOMATIC TAGS ::= BEGIN\n{pre}{body % ('cap', 'cap', 'klen', 'klen', 'cap')}\nEND", lib]
                mods_b = [f"Limits DEFINITIONS AUTOMATIC TAGS ::= BEGIN\n{pre}{body % (100, 100, 2, 2, 100)}\nEND", lib]
            for order in ([0, 1], [1, 0]) if len(mods_a) == 2 else ([0],):
                out.append("resolve subst " + ",".join(hx(mods_a[i]) for i in order) + " " + ",".join(hx(mods_b[i]) for i in order)
                           + " regress:governing_type_ref:eq")
        # a name imported FROM a module that is not loaded, while an unrelated loaded module defines a value of
        # that name: an unresolved reference, never the other module's value
        tele = ("Telemetry DEFINITIONS AUTOMATIC TAGS ::= BEGIN\nIMPORTS frame-limit FROM Telemetry-Limits;\n"
                "Frame ::= SEQUENCE { n INTEGER (0..frame-limit), b OCTET STRING (SIZE(1..frame-limit)), d INTEGER DEFAULT frame-limit }\nEND")
        video = "Video-Codec DEFINITIONS AUTOMATIC TAGS ::= BEGIN\nframe-limit INTEGER ::= 25\nRate ::= INTEGER (0..frame-limit)\nEND"
        video_oid = video.replace("Video-Codec DEFINITIONS", "Video-Codec { 1 2 99 } DEFINITIONS")
        for other in (video, video_oid):
            out.append(f"resolve subst {hx(tele)},{hx(other)} - regress:import_from_unloaded:unresolved")
            out.append(f"resolve subst {hx(other)},{hx(tele)} - regress:import_from_unloaded:unresolved")
        tele2 = tele.replace("FROM Telemetry-Limits;", "FROM Telemetry-Limits { 1 2 98 };")
        out.append(f"resolve subst {hx(video_oid)},{hx(tele2)} - regress:import_from_unloaded:unresolved")
        out.append(f"resolve subst {hx(tele2)},{hx(video_oid)} - regress:import_from_unloaded:unresolved")
        # bounds that only after the resolution have a shape the front end normalises (equal bounds -> fixed
        # size, 0..MAX -> no constraint): extensibility and bounds are those of the literal module, however
        # the two bounds are spelled
        kinds = ("OCTET STRING (SIZE(%s))", "BIT STRING (SIZE(%s))", "UTF8String (SIZE(%s))", "IA5String (SIZE(%s))",
                 "SEQUENCE (SIZE(%s)) OF BOOLEAN", "SET (SIZE(%s)) OF BOOLEAN")
        for lo, hi in ((4, 4), (0, 0), (1, 1), (0, "MAX"), (4, "MAX"), (0, 9), (16, 16)):
            spellings = [("blk-min", "blk-max")] if hi != "MAX" else []
            spellings += [("blk-min", str(hi)), (str(lo), "blk-max")] if hi != "MAX" else [("blk-min", "MAX")]
            if lo == hi:
                spellings.append(("blk-min", "blk-min"))
            for slo, shi in spellings:
                defs_ref, defs_lit = [], []
                for i, kd in enumerate(kinds):
                    for j, ext in enumerate(("", ", ...")):
                        defs_ref.append(f"T{i}x{j} ::= " + kd % f"{slo}..{shi}{ext}")
                        defs_lit.append(f"T{i}x{j} ::= " + kd % f"{lo}..{hi}{ext}")
                vals = f"blk-min INTEGER ::= {lo}" + (f"\nblk-max INTEGER ::= {hi}" if hi != "MAX" else "")
                a = f"Main DEFINITIONS AUTOMATIC TAGS ::= BEGIN\n{vals}\n" + "\n".join(defs_ref) + "\nEND"
                b = f"Main DEFINITIONS AUTOMATIC TAGS ::= BEGIN\n{vals}\n" + "\n".join(defs_lit) + "\nEND"
                out.append(f"resolve subst {hx(a)} {hx(b)} regress:norm_after_resolve:eq")
                lib = f"Lib {{ 1 2 88 }} DEFINITIONS AUTOMATIC TAGS ::= BEGIN\n{vals}\nEND"
                imp = "IMPORTS blk-min" + (", blk-max" if hi != "MAX" else "") + " FROM Elsewhere { 1 2 88 };"
                a2, b2 = a.replace(vals, imp), b.replace(vals, imp)
                out.append(f"resolve subst {hx(a2)},{hx(lib)} {hx(b2)},{hx(lib)} regress:norm_after_resolve:eq")
                out.append(f"resolve subst {hx(lib)},{hx(a2)} {hx(lib)},{hx(b2)} regress:norm_after_resolve:eq")
        # a value assignment that has the name of an enumeration item: `DEFAULT item` of a component
        # typed by (a reference to) the ENUMERATED is the item, an INTEGER component's `DEFAULT item` /
        # bound is the value — same module, imported by name, imported by object identifier
        for kind, lit in (("INTEGER", "30"), ("BOOLEAN", "TRUE"), ("UTF8String", '"x"')):
            vdef = f"standby {kind} ::= {lit}"
            enum = "Mode ::= ENUMERATED { off, standby, active, ..., boost }"
            use_i = "timeout INTEGER (0..standby) DEFAULT standby" if kind == "INTEGER" else "timeout INTEGER (0..9) DEFAULT 3"
            lit_i = "timeout INTEGER (0..30) DEFAULT 30" if kind == "INTEGER" else use_i
            cfg = "Config ::= SEQUENCE { mode Mode DEFAULT standby, fallback Mode DEFAULT active, %s, ..., turbo [7] Mode DEFAULT boost }"
            for where in ("local", "byname", "byoid"):
                if where == "local":
                    a = [f"Main DEFINITIONS AUTOMATIC TAGS ::= BEGIN\n{vdef}\n{enum}\n{cfg % use_i}\nEND"]
                    b = [f"Main DEFINITIONS AUTOMATIC TAGS ::= BEGIN\n{vdef}\n{enum}\n{cfg % lit_i}\nEND"]
                else:
                    oid = " { 1 2 77 }" if where == "byoid" else ""
                    lib = f"Lib{oid} DEFINITIONS AUTOMATIC TAGS ::= BEGIN\n{vdef}\nEND"
                    frm = "Other { 1 2 77 }" if where == "byoid" else "Lib"
                    a = [f"Main DEFINITIONS AUTOMATIC TAGS ::= BEGIN\nIMPORTS standby FROM {frm};\n{enum}\n{cfg % use_i}\nEND", lib]
                    b = [f"Main DEFINITIONS AUTOMATIC TAGS ::= BEGIN\nIMPORTS standby FROM {frm};\n{enum}\n{cfg % lit_i}\nEND", lib]
                for order in ([0, 1], [1, 0]) if len(a) == 2 else ([0],):
                    ta = ",".join(hx(a[i]) for i in order)
                    tb = ",".join(hx(b[i]) for i in order)
                    out.append(f"resolve subst {ta} {tb} regress:enum_item_vs_value:eq")

        def mod(name, items, oid=None, imports=None):
            return {"name": name, "oid": oid, "imports": imports or [], "items": items}

        # a name imported in a cycle that never defines it (regression corpus: the real resolver
        # recursed until the stack overflowed; repaired — at most scope.len() imports are followed —,
        # the use is an unresolved reference).  A module that imports an undefined name from itself:
        a = mod("Selfish", [("def", "A", None, ("int", 0, ("ref", "ghost"), False, []))], imports=[(["ghost"], "Selfish", None)])
        out.append(f"resolve subst {texts([a])} - regress:cyclic_import:unresolved")
        a = mod("Selfish", [("def", "A", None, ("oct", ("fix", ("ref", "ghost"), False)))], imports=[(["ghost"], "Selfish", None)])
        out.append(f"resolve subst {texts([a])} - regress:cyclic_import:unresolved")
        a = mod("Selfish", [("def", "A", None, ("seq", [("d", None, INT, ("dflt", ("ref", "ghost")))], None, None))],
                imports=[(["ghost"], "Selfish", None)])
        out.append(f"resolve subst {texts([a])} - regress:cyclic_import:unresolved")
        # two and three modules in a circle, every load order
        a = mod("Ping", [("def", "A", None, ("int", 0, ("ref", "ghost"), False, []))], imports=[(["ghost"], "Pong", None)])
        b = mod("Pong", [("def", "B", None, INT)], imports=[(["ghost"], "Ping", None)])
        out.append(f"resolve subst {texts([a, b])} - regress:cyclic_import:unresolved")
        out.append(f"resolve subst {texts([b, a])} - regress:cyclic_import:unresolved")
        out.append(f"resolve perm {texts([a, b])} regress:cyclic_import:err")
        b3 = mod("Pong", [("def", "B", None, INT)], imports=[(["ghost"], "Pang", [("u", 3), ("u", 3)])])
        c3 = mod("Pang", [("def", "C", None, INT)], oid=[("u", 3), ("u", 3)], imports=[(["ghost"], "Ping", None)])
        out.append(f"resolve perm {texts([a, b3, c3])} regress:cyclic_import:err")
        # … and a circle that does define the name on the way is no circle for the chase
        c3d = mod("Pang", [("vr", "ghost", INT, ("i", 5)), ("def", "C", None, INT)], oid=[("u", 3), ("u", 3)],
                  imports=[(["ghost"], "Ping", None)])
        out.append(f"resolve perm {texts([a, b3, c3d])} regress:cyclic_import:ok")
        # the bound of scope.len() imports does not cut a chase through every loaded module short
        m1 = mod("Ma", [("def", "A", None, ("int", 0, ("ref", "deep"), False, []))], imports=[(["deep"], "Mb", None)])
        m2 = mod("Mb", [], imports=[(["deep"], "Mc", None)])
        m3 = mod("Mc", [], imports=[(["deep"], "Md", None)])
        m4 = mod("Md", [("vr", "deep", INT, ("i", 77))])
        out.append(f"resolve perm {texts([m1, m2, m3, m4])} regress:long_chain:ok")
        lit = G.subst_module(m1, {"deep": ("i", 77)})
        out.append(f"resolve subst {texts([m1, m2, m3, m4])} {texts([lit, m2, m3, m4])} regress:long_chain:eq")
        # the example of the crate's own tests: references in range and size
        a = mod("Main", [("vr", "lo", INT, ("i", 3)), ("vr", "hi", INT, ("i", 9)),
                         ("def", "R", None, ("int", ("ref", "lo"), ("ref", "hi"), True, [])),
                         ("def", "S", None, ("str", "utf8", ("range", ("ref", "lo"), ("ref", "hi"), False))),
                         ("def", "D", None, ("seq", [("d", None, INT, ("dflt", ("ref", "lo")))], None, None))])
        out.append(f"resolve subst {texts([a])} {texts([G.subst_module(a, {'lo': ('i', 3), 'hi': ('i', 9)})])} witness:local:eq")
        # negative SIZE through a reference (regression corpus: it wrapped to 2^64-1; repaired —
        # usize::try_from —): refused like the literal SIZE(-1)
        a = mod("Neg", [("vr", "n", INT, ("i", -1)), ("def", "A", None, ("oct", ("fix", ("ref", "n"), False)))])
        out.append(f"resolve subst {texts([a])} {texts([G.subst_module(a, {'n': ('i', -1)})])} regress:size_negative:refused")
        a = mod("Neg", [("vr", "n", INT, ("i", -5)), ("def", "A", None, ("seqof", ("range", ("ref", "n"), 4, False), INT))])
        out.append(f"resolve subst {texts([a])} {texts([G.subst_module(a, {'n': ('i', -5)})])} regress:size_negative:refused")
        a = mod("Neg", [("vr", "n", INT, ("i", -(2 ** 63))), ("def", "A", None, ("str", "utf8", ("range", 0, ("ref", "n"), True)))])
        out.append(f"resolve subst {texts([a])} {texts([G.subst_module(a, {'n': ('i', -(2 ** 63))})])} regress:size_negative:refused")
        # … the largest i64 still resolves like its literal
        a = mod("Big", [("vr", "n", INT, ("i", 2 ** 63 - 2)), ("def", "A", None, ("oct", ("fix", ("ref", "n"), False)))])
        out.append(f"resolve subst {texts([a])} {texts([G.subst_module(a, {'n': ('i', 2 ** 63 - 2)})])} regress:size_large:eq")
        # the literal variant runs into the parser's widening of (0..MAX)
        a = mod("Wide", [("vr", "zero", INT, ("i", 0)), ("def", "A", None, ("int", ("ref", "zero"), None, False, []))])
        out.append(f"resolve subst {texts([a])} {texts([G.subst_module(a, {'zero': ('i', 0)})])} quirk:literal_widened:eq")
        # the import's name says X, its object identifier says Y: the first loaded of the two wins
        x = mod("Xx", [("vr", "v", INT, ("i", 1))], oid=[("u", 1), ("u", 1)])
        y = mod("Yy", [("vr", "v", INT, ("i", 2))], oid=[("u", 2), ("u", 2)])
        a = mod("Main", [("def", "A", None, ("int", 0, ("ref", "v"), False, []))], imports=[(["v"], "Xx", [("u", 2), ("u", 2)])])
        out.append(f"resolve perm {texts([a, x, y])} quirk:name_oid_conflict:ok")
        return out

    # ------------------------------------------------------------------ oracle
    def oracle(self, req, ans):
        t = req.split(" ")
        if "abort" in ans.split(" ") or "panic" in ans.split(" "):
            return "the resolver does not return (stack overflow / panic)"
        if t[1] == "mods":
            want = "ok " + " ".join(t[3:])
            return None if ans == want else "resolved models differ from the declared schemas: " + first_diff(want, ans)
        fam, quirk, expect = t[-1].split(":")
        parts = ans.split(" || ")
        if t[1] == "subst":
            if len(parts) != 2:
                return "malformed answer"
            a, b = parts
            if expect == "refused":
                if a != "err resolve-reference":
                    return f"a use without valid literal form must be refused with `err resolve-reference`, got `{a[:160]}`"
                if b != a:
                    return f"the literal variant answers `{b[:160]}`, the module with references `{a[:160]}`"
                return None
            if expect == "eq":
                if not a.startswith("ok "):
                    return f"module with value references does not resolve: {a[:120]}"
                if a != b:
                    return "module with references resolves differently from its literal variant: " + first_diff(b, a)
                if quirk == "norm_after_resolve":
                    # what the literal module says, read off its text: no constraint for 0..MAX without a marker,
                    # a fixed size for equal bounds, else the range — each with the extensibility as written
                    fmt = ["(oct,%s)", "(bit,%s,", "(str,utf8,%s)", "(str,ia5,%s)", "(seqof,%s,", "(setof,%s,"]
                    lit = next(bytes.fromhex(h).decode() for h in t[3].split(",") if b"T0x0" in bytes.fromhex(h))
                    import re
                    for m in re.finditer(r"T(\d)x(\d) ::= [^\n]*SIZE\((\d+)\.\.(\w+)(, \.\.\.)?\)", lit):
                        lo, hi, e = int(m.group(3)), m.group(4), 1 if m.group(5) else 0
                        hi = G.SIZE_MAX if hi == "MAX" else int(hi)
                        size = "any" if (lo == 0 and hi == G.SIZE_MAX and not e) else \
                            f"(fix,{lo},{e})" if lo == hi else f"(range,{lo},{hi},{e})"
                        want = f"(def,T{m.group(1)}x{m.group(2)},-," + fmt[int(m.group(1))] % size
                        if want not in a:
                            return f"T{m.group(1)}x{m.group(2)} does not resolve to the SIZE constraint of the text: expected …{want}…"
                if quirk == "enum_item_vs_value":
                    # both variants keep `DEFAULT standby` on the ENUMERATED-typed components: they must be the items
                    for item in ("standby", "active", "boost"):
                        if f"(e,Mode,{item})" not in a:
                            return f"DEFAULT {item} of a component typed by Mode is not the enumeration item (e,Mode,{item})"
                return None
            want = "err resolve-reference" if expect == "unresolved" else "err resolve-literal"
            if a != want:
                return f"expected `{want}`, got `{a[:160]}`"
            return None
        if t[1] == "perm":
            if expect == "ok":
                if not all(p.startswith("ok ") for p in parts):
                    return "some load order does not resolve: " + " || ".join(p[:40] for p in parts)
                if any(p != parts[0] for p in parts):
                    k = next(i for i, p in enumerate(parts) if p != parts[0])
                    return f"load order {k} resolves differently from load order 0: " + first_diff(parts[0], parts[k])
                return None
            if not all(p.startswith("err ") for p in parts):
                return "some load order resolves although an error is expected"
            return None
        return None

    def finding_class(self, req, ans):
        t = req.split(" ")
        if t[1] == "mods":
            return None
        return QUIRK_CLASS.get(t[-1].split(":")[1])

    def tag(self, req, ans):
        t = req.split(" ")
        if t[1] == "mods":
            return "mods:" + ans.split(" ")[0]
        fam, quirk, expect = t[-1].split(":")
        first = ans.split(" || ")[0]
        res = "ok" if first.startswith("ok ") else first.replace(" ", ":")[:40]
        n = len(t[2].split(","))
        return f"{t[1]}:{fam}/{quirk}:{n}mod:{res}"

    def nontrivial(self, req, ans):
        return True

def first_diff(exp, got):
    i = 0
    while i < min(len(exp), len(got)) and exp[i] == got[i]:
        i += 1
    lo = max(0, i - 40)
    return f"expected …{exp[lo:i + 60]}… got …{got[lo:i + 60]}…"


class ResolveWitnesses(ResolveStream):
    """the corpus families of the `resolve` stream only (no random cases, no open finding class): included
    by the checks of properties that quantify over schemas WITH value references and imports (C06, C09, C15)
    — a resolver that substitutes a wrong bound breaks them as well"""
    name = "resolve-corpus"

    def gen(self, rng, tier):
        return [r for r in self.witnesses() if " quirk:" not in r and not r.rsplit(" ", 1)[1].startswith("quirk")]


class Spec(runner.Spec):
    prop = "C12"
    streams = [ResolveStream()]
    assumptions = [
        "the literal variant keeps the value reference definitions and the imports; only the uses (INTEGER range bounds, SIZE bounds, DEFAULT values) are replaced",
        "sibling modules are found by equal object identifier (when the loaded module has one) or by equal name; scenarios in which name and identifier point to different loaded modules are a separate (finding) family",
        "cyclic imports (a name imported in a cycle that never defines it) are unresolved references (repaired; the real resolver used to overflow the stack); not part of the generated scenarios, pinned as regression witnesses incl. every load order",
        "Rust semantics of the mirrored resolver is tied to the Lean mirror only by differential execution (stream `resolve`)",
    ]
    trusted_base = [
        "Lean 4.33 kernel; axioms per theorem listed under coverage.theorems (allowed: propext, Classical.choice, Quot.sound)",
        "hand-written mirror Front/Resolve.lean of asn1rs-model/src/asn/resolve_scope.rs and the try_resolve functions — tied by the correspondence stream",
        "harness/src/resolve.rs, harness/src/parse.rs (dump), Driver/ResolveStream.lean, Driver/ParseStream.lean",
        "tools/front_gen.py (generator, substitution, expected resolved dumps), tools/checks/c12.py",
    ]
