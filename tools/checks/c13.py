"""C13 — the token sequence and the token locations are invariant under whitespace and comment layout.

Stream `tok`:
  tok layout <hex text> <items> <locs>   a token-level rendering of an item list under one layout;
                                         <items> = `T:<hex>;S:<hex>;…` (expected stripped tokens),
                                         <locs>  = `<line>:<col>;…` (where the renderer put each item);
                                         the request is self-contained: the answer alone decides it
  tok lex <hex text>                     arbitrary text (character soup, mutated renderings)
answers: `ok <n> T:<line>:<col>:<hex>;S:<line>:<col>:<hex>;…` | `panic`
"""
import runner
from vlib import hexs

SEPARATORS = ":;=(){}.,[]'\""
WS = " \t\r\n"

KEYWORDS = ["DEFINITIONS", "AUTOMATIC", "EXPLICIT", "IMPLICIT", "TAGS", "BEGIN", "END", "SEQUENCE", "SET", "OF",
            "INTEGER", "OPTIONAL", "DEFAULT", "ENUMERATED", "CHOICE", "BOOLEAN", "UTF8String", "IA5String",
            "OCTET", "STRING", "BIT", "NULL", "SIZE", "MIN", "MAX", "IMPORTS", "FROM", "EXPORTS", "ALL", "TRUE",
            "FALSE", "WITH", "COMPONENTS", "PRESENT", "ABSENT", "UNIVERSAL", "APPLICATION", "PRIVATE"]
IDENTS = ["a", "x1", "my-field", "Some-Type-2", "value", "MyModule", "r-g-b", "Z", "id-at-commonName", "b64"]
NUMBERS = ["0", "1", "42", "-5", "65535", "-9223372036854775808", "18446744073709551615", "3-4"]
UNICODE = ["Gr\u00f6\u00dfe", "\u540d\u524d", "\U0001d11ex", "na\u00efve", "a\u00a0b", "\u3000", "\u03c0", "\u03a9-1", "\ufeffBOM", "x\u200by"]
ODD = ["*", "/", "-", "a-", "a/b", "@x", "<", "|", "!", "^", "&", "#", "a*b", "*/", "-/", "/-", "\\", "`", "~", "+1",
       "a-/", "/a", "*a", "%", "?", "a_b", "-a-", "/ /".replace(" ", "")]


def text_ok(s):
    return (len(s) > 0 and all(c not in SEPARATORS and c != " " and not is_control(c) for c in s)
            and "--" not in s and "/*" not in s)


def is_control(c):
    o = ord(c)
    return o < 32 or 127 <= o <= 159


def close_scan(n, s):
    """X.680 12.6.4 counting, left to right: text after the `*/` that closes depth n, or None"""
    i = 0
    while i + 1 < len(s):
        two = s[i:i + 2]
        if two == "*/":
            n -= 1
            i += 2
            if n == 0:
                return s[i:]
        elif two == "/*":
            n += 1
            i += 2
        else:
            i += 1
    return None


def ends_in_block_comment(text):
    """independent reading of the text: is the end of the text inside a `/* … */` comment?"""
    nest = 0
    for line in text.split("\n"):
        i = 0
        while i < len(line):
            two = line[i:i + 2]
            if nest > 0:
                if two == "*/":
                    nest -= 1
                    i += 2
                elif two == "/*":
                    nest += 1
                    i += 2
                else:
                    i += 1
            elif two == "--":
                break
            elif two == "/*":
                nest += 1
                i += 2
            else:
                i += 1
    return nest > 0


def only_oneline_block_comments(g):
    """the gap is a non-empty sequence of complete block comments and contains no line feed"""
    if not g or "\n" in g:
        return False
    while g:
        if not g.startswith("/*"):
            return False
        g = close_scan(1, g[2:])
        if g is None:
            return False
    return True


# ------------------------------------------------------------------------------------------ items

def T(s):
    return ("T", s)


def S(c):
    return ("S", c)


def seps(s):
    return [S(c) for c in s]


def fixed_item_lists():
    out = [[]]
    out.append([T("abc"), T("def")])
    out.append([T("a")])
    out.append([S("{")])
    out.append([T("x")] + seps("::=") + [T("INTEGER")])
    # a small module
    m = [T("My-Module"), T("DEFINITIONS"), T("AUTOMATIC"), T("TAGS")] + seps("::=") + [T("BEGIN")]
    m += [T("Rec")] + seps("::=") + [T("SEQUENCE"), S("{"), T("id"), T("INTEGER"), S("("), T("0")] + seps("..")
    m += [T("255"), S(")"), S(","), T("name"), T("UTF8String"), T("OPTIONAL"), S(","), T("more"), T("SEQUENCE"),
          T("OF"), T("Rec"), S(","), T("neg"), T("INTEGER"), S("("), T("-5")] + seps("..") + [T("MAX"), S(","), ]
    m += seps("...") + [S(")"), T("DEFAULT"), T("-1"), S("}"), T("END")]
    out.append(m)
    # string literal pieces, tags, value assignment
    v = [T("greeting"), T("UTF8String")] + seps("::=") + [S('"'), T("hello"), T("w\u00f6rld"), S('"')]
    v += [T("T"), seps("::=")[0], S(":"), S("="), S("["), T("APPLICATION"), T("3"), S("]"), T("IMPLICIT"), T("OCTET"),
          T("STRING"), S("("), T("SIZE"), S("("), T("1"), S("."), S("."), T("8"), S(")"), S(")")]
    v += [T("h"), T("OCTET"), T("STRING")] + seps("::=") + [S("'"), T("0AFF"), S("'"), T("H")]
    out.append(v)
    out.append([T("IMPORTS"), T("A"), S(","), T("B-c"), T("FROM"), T("Other"), S("{"), T("iso"), S("("), T("1"), S(")"),
                T("2"), S("}"), S(";")])
    out.append([T(x) for x in ODD if text_ok(x)])
    out.append([T(x) for x in UNICODE if text_ok(x)])
    out.append(seps(SEPARATORS))
    return out


def random_item_list(rng, maxlen):
    n = rng.range(1, maxlen)
    out = []
    while len(out) < n:
        k = rng.below(20)
        if k < 5:
            out.append(T(rng.choice(KEYWORDS)))
        elif k < 8:
            out.append(T(rng.choice(IDENTS)))
        elif k < 10:
            out.append(T(rng.choice(NUMBERS)))
        elif k < 12:
            out.append(T(rng.choice(UNICODE)))
        elif k < 14:
            out.append(T(rng.choice(ODD)))
        elif k == 14:
            out += seps("::=")
        elif k == 15:
            out += seps(rng.choice(["..", "...", "{", "}", "()", "[[", "]]"]))
        elif k == 16:
            out += [S('"'), T(rng.choice(IDENTS + UNICODE)), S('"')]
        else:
            out.append(S(rng.choice(SEPARATORS)))
    return [it for it in out if it[0] == "S" or text_ok(it[1])]


# ---------------------------------------------------------------------------------------- layouts

PLAIN = list("abc XYZ 09 -*/ :{}=,.;\t@\u00e9\u540d") + ["--", "* /", "/ *", "**", "//", "END", "\u00a0", "\x01"]


def plain_text(rng, allow_dashes=True):
    s = "".join(rng.choice(PLAIN) for _ in range(rng.range(0, 6)))
    if not allow_dashes:
        while "--" in s:
            s = s.replace("--", "-")
    return s


def block_body(rng, depth, allow_nl):
    parts = []
    for _ in range(rng.range(0, 4)):
        k = rng.below(10)
        if k < 6:
            parts.append(plain_text(rng))
        elif k < 8 and depth < 3:
            parts.append("/*" + block_body(rng, depth + 1, allow_nl) + "*/")
        elif allow_nl:
            parts.append(rng.choice(["\n", "\r\n", "\n\n"]))
    return "".join(parts)


def block_comment(rng, allow_nl):
    for _ in range(8):
        b = block_body(rng, 1, allow_nl)
        if close_scan(1, b + "*/") == "":
            return "/*" + b + "*/"
    return "/* c */"


def line_comment(rng):
    b = plain_text(rng, allow_dashes=False).replace("\x01", "")
    return "--" + b + rng.choice(["\n", "\n", "\r\n"])


def piece(rng, mode):
    """modes: ws | lc (ws + line comments) | all | block1 (one-line block comments only);
    `allsafe` (see render) = all, but never only one-line block comments between two text items"""
    if mode == "block1":
        return block_comment(rng, False)
    k = rng.below(10)
    if k < 3 or mode == "ws" and k < 6:
        return " "
    if k < 4 or mode == "ws" and k < 7:
        return "\t"
    if k < 5 or mode == "ws" and k < 8:
        return "\r\n"
    if k < 6 or mode == "ws":
        return "\n"
    if k < 8 or mode == "lc":
        return line_comment(rng)
    return block_comment(rng, rng.chance(1, 3))


def gap(rng, mode, required, dense):
    n = rng.range(1 if required else 0, 1 if dense else 3)
    if not required and dense and rng.chance(3, 4):
        n = 0
    return [piece(rng, mode) for _ in range(n)]


def render(rng, items, mode, dense):
    """-> (text, [(line, col)]) ; every gap between two text items is non-empty (the property's
    notion of a valid layout), a text ending in `-` is not directly followed by `--`"""
    out = []
    locs = []
    line, col = 1, 1

    def emit(s):
        nonlocal line, col
        out.append(s)
        for ch in s:
            if ch == "\n":
                line += 1
                col = 1
            else:
                col += 1

    lead_mode = "all" if mode in ("block1", "allsafe") else mode
    for p in gap(rng, lead_mode, False, dense):
        emit(p)
    for i, (k, s) in enumerate(items):
        locs.append((line, col))
        emit(s)
        nxt = items[i + 1] if i + 1 < len(items) else None
        required = k == "T" and nxt is not None and nxt[0] == "T"
        m = mode
        if mode == "block1" and not required:
            m = "all"
        g = gap(rng, "all" if m == "allsafe" else m, required, dense)
        if m == "allsafe" and required and only_oneline_block_comments("".join(g)):
            g.insert(rng.below(len(g) + 1), rng.choice([" ", "\t", "\n", "\r\n", "--\n", "/*\n*/"]))
        if k == "T" and s.endswith("-") and g and g[0].startswith("--"):
            g.insert(0, " ")
        for p in g:
            emit(p)
    return "".join(out), locs


def items_str(items):
    if not items:
        return "-"
    return ";".join(f"{k}:{hexs(s.encode('utf-8'))}" for k, s in items)


def locs_str(locs):
    if not locs:
        return "-"
    return ";".join(f"{l}:{c}" for l, c in locs)


def layout_req(text, items, locs):
    return f"tok layout {hexs(text.encode('utf-8'))} {items_str(items)} {locs_str(locs)}"


def lex_req(text):
    return f"tok lex {hexs(text.encode('utf-8'))}"


def unhex_text(h):
    return "" if h == "-" else bytes.fromhex(h).decode("utf-8")


def parse_items(s):
    if s == "-":
        return []
    out = []
    for t in s.split(";"):
        k, h = t.split(":")
        out.append((k, unhex_text(h)))
    return out


def parse_locs(s):
    if s == "-":
        return []
    return [tuple(int(x) for x in t.split(":")) for t in s.split(";")]


def offsets_by_pos(text):
    """(line, col) -> code point offset, with the renderer's position rule"""
    m = {}
    line, col = 1, 1
    for i, ch in enumerate(text):
        m[(line, col)] = i
        if ch == "\n":
            line += 1
            col = 1
        else:
            col += 1
    m[(line, col)] = len(text)
    return m


SOUP = list("abzAZ09 _") + list(" \t\r\n" * 3) + list("-/*" * 4) + list(SEPARATORS) + \
    ["\x00", "\x01", "\x0b", "\x0c", "\x1b", "\x7f", "\x85", "\x9f", "\u00e9", "\u00df", "\u00a0", "\u2028", "\u3000", "\u540d", "\U0001d11e",
     "\ufeff", "\u200b", "--", "--", "/*", "/*", "*/", "*/", "\r\n", "\r\n", "/**/", "-- c\n", "/* c */"]


class TokStream(runner.Stream):
    name = "tok"
    prefixes = ["tok"]

    # ------------------------------------------------------------------------------------ generator
    def gen(self, rng, tier):
        reqs = []
        # pinned corpus: the known quirk, documented behaviour, panic boundary cases, UTF-8
        for t in ["abc/* c */def", "abc/* c */ def", "abc /* c */def", "abc/* c\n */def", "a -- c -- b", "a--c\nb",
                  "a---c\nb", "a\rb", "a\r\nb", "a\r", "/*\r", "/*\r\n", "/* a\r\n", "/* a\n\n", "/*", "/* *", "/* /",
                  "/* x", "/* x\n", "/*x*/\n", "a\x01b", "a\x0bb", "a\x0cb", "a\u00a0b", "a\u0085b", "", "\n", "\n\n",
                  "a\n\nb", "x ::= {y}", "a\r\r\nb", "/*/", "/*/*/", "/**/", "/***/", "a/b", "a/*b", "*/a", "a-",
                  "a- --c", "/*a\r\r", "-", "--", "---", "/", "*", "\r", "\r\r", "\r\n\r\n", "a/**/b", "{/**/}",
                  "a/**/{", "}/**/a", "a/*\n*/b", "a/*\r\n*/b", "a/*\r*/b", "-- /*\nb", "/* -- */ a", "/* --\n */ a"]:
            reqs.append(lex_req(t))
        reqs.append("tok lex c080")       # not UTF-8: no request on either side
        reqs.append("tok lex eda080")
        reqs.append("tok lex f4908080")
        reqs.append("tok lex ff")
        quick = tier == "quick"
        # (0) very long lines: a token far to the right (columns around 2^16 and 2^17), pushed there by
        # blanks, by a block comment, or by many short tokens; a second line checks that the line count is
        # not disturbed
        for n in ([65533, 65534, 65535, 65536, 65537, 131071, 131072, 131073] + ([] if quick else [200000, 262144, 262145])):
            for pad in ("blank", "comment", "tabs"):
                filler = {"blank": " " * n, "tabs": "\t" * n, "comment": "/*" + "c" * (n - 4) + "*/"}[pad]
                text = "ab" + filler + "cd {e}\nf g"
                items = [("T", "ab"), ("T", "cd"), ("S", "{"), ("T", "e"), ("S", "}"), ("T", "f"), ("T", "g")]
                c = 3 + len(filler)
                locs = [(1, 1), (1, c), (1, c + 3), (1, c + 4), (1, c + 5), (2, 1), (2, 3)]
                reqs.append(layout_req(text, items, locs))
        # (i) item lists under K layouts each
        pool = fixed_item_lists()
        n_lists = 330 if quick else 3000
        for i in range(n_lists):
            pool.append(random_item_list(rng, 6 if i % 3 == 0 else 30))
        K = 40 if quick else 60
        modes = ["ws"] * 8 + ["lc"] * 8 + ["allsafe"] * 14 + ["all"] * 4 + ["block1"] * 6
        self._rendered = []
        for items in pool:
            for k in range(K):
                mode = modes[k % len(modes)]
                text, locs = render(rng, items, mode, dense=(k % 4 == 3))
                reqs.append(layout_req(text, items, locs))
                if k % 8 == 0:
                    self._rendered.append(text)
        # (ii) character soup and mutated renderings: correspondence, panic only inside a comment
        n_soup = 14000 if quick else 300000
        for _ in range(n_soup):
            n = rng.range(0, 4) if rng.chance(1, 5) else rng.range(0, 40)
            reqs.append(lex_req("".join(rng.choice(SOUP) for _ in range(n))))
        n_mut = 6000 if quick else 100000
        for _ in range(n_mut):
            t = rng.choice(self._rendered)
            if not t:
                continue
            k = rng.below(4)
            p = rng.below(len(t))
            if k == 0:
                t = t[:p]                                   # truncation: unterminated comments
            elif k == 1:
                t = t[:p] + t[p + 1:]                       # deletion
            elif k == 2:
                t = t[:p] + rng.choice(SOUP) + t[p:]        # insertion
            else:
                q = rng.below(len(t))
                t = t[:min(p, q)] + t[max(p, q):]           # cut
            reqs.append(lex_req(t))
        return reqs

    # --------------------------------------------------------------------- oracle (implementation only)
    def oracle(self, req, ans):
        t = req.split(" ")
        if ans == "bad-op":
            return None
        if ans == "abort":
            return "the process died"
        try:
            text = unhex_text(t[2])
        except (ValueError, UnicodeDecodeError):
            return None
        if t[1] == "layout":
            items, locs = parse_items(t[3]), parse_locs(t[4])
            if items:
                want = f"ok {len(items)} " + ";".join(
                    f"{k}:{l}:{c}:{hexs(s.encode('utf-8'))}" for (k, s), (l, c) in zip(items, locs))
            else:
                want = "ok 0 -"
            if ans == want:
                return None
            if ans == "panic":
                return "panic on a well-formed layout"
            got = ans.split(" ")
            gi = [] if got[2] == "-" else [x.split(":") for x in got[2].split(";")]
            stripped = [(x[0], x[3]) for x in gi]
            exp = [(k, hexs(s.encode("utf-8"))) for k, s in items]
            if stripped != exp:
                return f"token sequence differs from the items that were laid out: expected {len(exp)} tokens, got {len(stripped)}"
            return "token sequence as expected but a location differs from where the item was printed"
        if t[1] == "lex":
            if ans == "panic":
                return None if ends_in_block_comment(text) else "panic although the text does not end inside a block comment"
            # every reported location points at the first character of its token
            got = ans.split(" ")
            if got[2] == "-":
                return None
            lines = text.split("\n")
            for x in got[2].split(";"):
                k, l, c, h = x.split(":")
                l, c = int(l), int(c)
                s = unhex_text(h)
                if not (1 <= l <= len(lines) and 1 <= c <= len(lines[l - 1]) and lines[l - 1][c - 1] == s[0]):
                    return f"token {x}: no such character at line {l} column {c}"
            return None
        return None

    def finding_class(self, req, ans):
        """tok.block_comment_glues_text: two adjacent text items with nothing but block comments
        that stay on one line between them (blanks inside the comments do not count)"""
        t = req.split(" ")
        if t[1] != "layout":
            return None
        text = unhex_text(t[2])
        items, locs = parse_items(t[3]), parse_locs(t[4])
        off = offsets_by_pos(text)
        for i in range(len(items) - 1):
            if items[i][0] == "T" and items[i + 1][0] == "T":
                a = off[locs[i]] + len(items[i][1])
                b = off[locs[i + 1]]
                if only_oneline_block_comments(text[a:b]):
                    return "tok.block_comment_glues_text"
        return None

    def tag(self, req, ans):
        t = req.split(" ")
        res = ans.split(" ")[0]
        try:
            text = unhex_text(t[2])
        except (ValueError, UnicodeDecodeError):
            return f"{t[1]}:not-utf8:{res}"
        if t[1] == "layout":
            kind = "bc-multiline" if ("/*" in text and "\n" in text) else "bc" if "/*" in text else \
                "lc" if "--" in text else "ws"
            q = ":glue" if self.finding_class(req, ans) else ""
            n = len(parse_items(t[3]))
            size = "0" if n == 0 else "1-5" if n <= 5 else "6+"
            if res == "ok":
                res = "as-expected" if self.oracle(req, ans) is None else "differs"
            return f"layout:{kind}{q}:items={size}:{res}"
        feats = []
        if "/*" in text:
            feats.append("open")
        if "--" in text:
            feats.append("dashes")
        if any(is_control(c) and c not in WS for c in text):
            feats.append("ctl")
        if any(ord(c) > 127 for c in text):
            feats.append("uni")
        if res == "ok":
            res = "ok0" if ans.startswith("ok 0 ") else "ok"
        return f"lex:{'+'.join(feats) or 'plain'}:{res}"

    def nontrivial(self, req, ans):
        return ans == "panic" or (ans.startswith("ok ") and not ans.startswith("ok 0 "))


class Spec(runner.Spec):
    prop = "C13"
    streams = [TokStream()]
    assumptions = [
        "dev profile (overflow checks on); the release profile is not modelled",
        "nest_lvl is an i32: its overflow (2^31 unclosed `/*`, an input of at least 4 GiB) is modelled as a panic but cannot be exercised by a request",
        "Rust semantics of Tokenizer::parse (str::lines, char::is_control, Peekable) is tied to the Lean mirror only by differential execution (stream `tok`)",
        "layouts range over {space, tab, CR LF, LF, `--` body LF, `/*` body `*/` nested}; a lone CR, VT, FF, `-- c --` closed on the same line and other X.680 white-space are outside the property's quantifier (behaviour recorded as examples in Props/C13.lean)",
        "the parsed model is a function of the token sequence (Model::try_from consumes Vec<Token>), so token-sequence invariance carries over to the model; string literals are rebuilt from token columns and are therefore not layout-invariant inside the quotes (the layout generator does not touch their inside)",
    ]
    trusted_base = [
        "Lean 4.33 kernel; axioms per theorem listed under coverage.theorems (allowed: propext, Classical.choice, Quot.sound)",
        "tools/extract_consts.py (TOKENIZER_SEPARATORS, TOKENIZER_FLUSH from the match arms of tokenizer.rs)",
        "hand-written mirror Front/Tokenizer.lean of parse/tokenizer.rs, token.rs, location.rs — tied by the correspondence stream; Front/TokenizerFlat.lean proves the single-pass presentation used in the proofs equal to it",
        "specification Front/TokenizerLayout.lean (LexItem, Piece, Layout, render, layoutOk, posAfter, expectedTokens) and Front/TokenizerPanic.lean (panicScan)",
        "harness/src/tok.rs, Driver/TokStream.lean (String.fromUTF8? vs String::from_utf8), tools/checks/c13.py (independent Python renderer, position rule and comment reader)",
    ]
