"""C14 — the front end is total: malformed text gives an error, not a panic or hang.

Two streams over the same generator (different seeds), both answered by the REAL tokenizer →
Model::try_from → try_resolve → to_rust() → to_protobuf(), every stage under catch_unwind; a request
that kills the process — stack overflow — is answered `abort` by vlib.run_lines:

  frontfuzz   `parse fuzz <hex text>`  → ok | err parse:<class> | err resolve:<class> | panic <stage>
              driver side: blank/separator splitter + parser + resolver models (`skip` on comments,
              control characters, non-ASCII, `'` literals in multi-line texts)
  fronttotal  `front total <hex text>` → the same, a parse error followed by the token the error
              value carries (`-` | `T:<line>:<col>:<hex>` | `S:<line>:<col>:<hex>`)
              driver side: `frontEnd` of Front/TotalFront.lean — the function the theorems of
              Props/C14.lean are about: tokenizer MODEL (comments, control characters, Unicode),
              `bridge`, parser model, resolver model (`skip` only on a `'` literal that spans lines
              and on non-ASCII numeric characters)

Quantifier (generator): printed valid modules (tools/front_gen.py: all construct kinds, random
nesting; plus every ASN.1 text of the project's own tests) under 1..4 mutations at CHARACTER level
(delete, insert from the ASN.1 punctuation/alphabet, swap adjacent, truncate) or at TOKEN level
(delete, duplicate, swap, insert a token of the ASN.1 vocabulary: keywords, `::=`, brackets, `...`,
numbers incl. 99999999999999999999999 and -9223372036854775809, MIN/MAX, identifiers incl. the
module's own names, literals opened and not closed, tags, `/*` `*/` `--`), random token soups with
and without a module frame, and three structured families around the defects found (reference
graphs and self-imports — repaired, the families stay as regression corpus —, nesting depth).

Oracle (on the implementation's answer alone): `ok` and `err …` are fine; `panic tokenizer` is fine
only if an independent reading of the text (checks/c13.py `ends_in_block_comment`) says that the
text ends inside a block comment; every other `panic <stage>` and every `abort` fails.  Stream
`fronttotal` also checks "an error value carrying the offending token": every parse error class
except `eof` and `missing-module-name` carries a token, the token's location points into the text
at a character that is the first character of the token, and the token is one of the text's
tokens (independent lexer `lex`; for `invalid-literal` the carried token is the rebuilt literal and
only its location is checked).

Correspondence: the driver's `parse fuzz` models tokenizer (blank/separator splitter, `skip` on
comments and control characters) + parser + single-module resolver.  `compare` accepts `skip`;
otherwise the classes must agree, except where the driver has no model:
  * to_rust / to_protobuf are not modelled by this driver op: driver `ok` vs implementation
    `panic to_rust` / `panic to_protobuf` / `abort` is tolerated (the oracle judges those);
  * the model has no call stack: implementation `abort` on a text nested deeper than
    NEST_LIMIT is tolerated whatever the model says.
"""
import glob
import os
import re

import front_gen as G
import runner
import vlib
from checks.c13 import ends_in_block_comment

SEPARATORS = ":;=(){}.,[]'\""
NEST_LIMIT = 1000

KEYWORDS = ["DEFINITIONS", "AUTOMATIC", "EXPLICIT", "IMPLICIT", "TAGS", "BEGIN", "END", "SEQUENCE", "SET", "OF",
            "INTEGER", "OPTIONAL", "DEFAULT", "ENUMERATED", "CHOICE", "BOOLEAN", "UTF8String", "IA5String",
            "NumericString", "PrintableString", "VisibleString", "OCTET", "STRING", "BIT", "NULL", "SIZE", "MIN",
            "MAX", "IMPORTS", "FROM", "EXPORTS", "ALL", "TRUE", "FALSE", "WITH", "COMPONENTS", "PRESENT", "ABSENT",
            "UNIVERSAL", "APPLICATION", "PRIVATE", "H", "B", "sequence", "Choice", "integer"]
PUNCT = ["::=", "{", "}", "(", ")", "[", "]", ",", ";", ".", "..", "...", ":", "=", "\"", "'"]
NUMBERS = ["0", "1", "-1", "7", "255", "65536", "99999999999999999999999", "-9223372036854775809",
           "9223372036854775807", "-9223372036854775808", "9223372036854775808", "18446744073709551615",
           "18446744073709551616", "+5", "00", "-0", "-", "1.5", "1e3", "0x10", "١"]
IDENTS = ["a", "b", "x", "Foo", "bar-baz", "T1", "value", "Foo-Module", "FooModule", "_Module", "Module", "min", "max",
          "Größe", "名"]
LITERALS = ["\"abc", "abc\"", "\"", "\"\"", "\"a b\"", "'AB", "AB'", "'AB'H", "'0101'B", "'XY'H", "''H", "''B", "'",
            "'AB'", "'AB'X", "'012'B", "'A'H", "'1'B", "\"--\"", "'AB' H"]
TAGS = ["[0]", "[5]", "[APPLICATION 3]", "[UNIVERSAL 2]", "[PRIVATE 9]", "[UNIVERSAL", "[5", "[]", "[x]", "[-1]",
        "[99999999999999999999]"]
COMMENTS = ["/*", "*/", "--", "/* c */", "-- c\n", "/* /* */", "/**/", "*", "/"]
CONSTRAINTS = ["(0..7)", "(MIN..MAX)", "(0..MAX)", "(SIZE(1..4))", "SIZE(3)", "(SIZE(0..MAX,...))", "(1..2,...)",
               "(WITH COMPONENTS {a PRESENT})", "(WITH COMPONENTS {..., a (0..1) ABSENT})", "{a(1),b(2)}",
               "(WITH COMPONENTS {a ((1)) })", "(WITH COMPONENTS {..., a (\":)\") })", "(WITH COMPONENTS {a (\"a(b)\") })",
               "(WITH COMPONENTS {a (\"ab)\") PRESENT, b (\")(\") })"]
CHAR_ALPHABET = list(SEPARATORS) + list("-/*- \n\t\r") + list("aZ09_+") + ["\x00", "\x0b", "\x7f", " ", "é"]


def hx(text):
    return vlib.hexs(text.encode("utf-8"))


def unhex_text(h):
    return "" if h == "-" else bytes.fromhex(h).decode("utf-8")


def is_control(c):
    o = ord(c)
    return o < 32 or 127 <= o <= 159


def lex(text):
    """independent re-implementation of the token *sequence* of `Tokenizer::parse` (no locations,
    no panic): separators are single-character tokens, blanks / line ends / comment openers end a
    text token, other control characters are dropped, `--` drops the rest of the line, `/* */`
    nest"""
    toks = []
    cur = []
    nest = 0

    def flush():
        if cur:
            toks.append("".join(cur))
            cur.clear()

    lines = text.split("\n")
    if lines and lines[-1] == "":
        lines.pop()
    for line in lines:
        if line.endswith("\r"):
            line = line[:-1]
        i, n = 0, len(line)
        while i < n:
            c = line[i]
            nx = line[i + 1] if i + 1 < n else ""
            if nest > 0:
                if c == "*" and nx == "/":
                    nest -= 1
                    i += 2
                elif c == "/" and nx == "*":
                    nest += 1
                    i += 2
                else:
                    i += 1
                continue
            if c == "-" and nx == "-":
                break
            if c == "/" and nx == "*":
                nest += 1
                flush()
                i += 2
                continue
            if c in SEPARATORS:
                flush()
                toks.append(c)
            elif not is_control(c) and c != " ":
                cur.append(c)
            elif c in " \r\n\t":
                flush()
            i += 1
        flush()
    return toks


# ------------------------------------------------------------------ detectors (request text only)

TYPE_KW = {"integer", "boolean", "null", "utf8string", "ia5string", "numericstring", "printablestring",
           "visiblestring", "octet", "bit", "enumerated", "choice", "sequence", "set"}


def nice(name):
    for suf in ("_Module", "Module"):
        if name.endswith(suf):
            name = name[:len(name) - len(suf)]
    return name


def _skip_tag(t, i):
    """position after an optional `[ … ]`; second result: was there a tag"""
    if i < len(t) and t[i] == "[":
        j = i + 1
        while j < len(t) and t[j] != "]":
            j += 1
        return j + 1, True
    return i, False


def _skip_balanced(t, i):
    """skip the rest of a type up to the `,` or `}` that ends the alternative (depth 0)"""
    depth = 0
    while i < len(t):
        c = t[i]
        if c in "({[":
            depth += 1
        elif c in ")]":
            depth -= 1
        elif c == "}":
            if depth == 0:
                return i
            depth -= 1
        elif c == "," and depth == 0:
            return i
        i += 1
    return i


def _choice_alts(t, i):
    """`i` at the `{` of a CHOICE: its root alternatives as `(tagged, type)` in textual order
    (type: `("ref", name)` | `("choice", alts)` | `("builtin",)`), position after the closing brace"""
    alts = []
    if i >= len(t) or t[i] != "{":
        return alts, i
    i += 1
    root = True
    while i < len(t):
        if t[i] == "}":
            return alts, i + 1
        if t[i] == ".":
            root = False
            while i < len(t) and t[i] == ".":
                i += 1
        else:
            i += 1                                   # alternative name
            i, tagged = _skip_tag(t, i)
            if i < len(t):
                ty = t[i]
                if ty.lower() == "choice":
                    inner, i = _choice_alts(t, i + 1)
                    node = ("choice", inner)
                elif ty.lower() in TYPE_KW:
                    i = _skip_balanced(t, i + 1)
                    node = ("builtin",)
                else:
                    i = _skip_balanced(t, i + 1)
                    node = ("ref", ty)
                if root:
                    alts.append((tagged, node))
        if i < len(t) and t[i] == ",":
            i += 1
    return alts, i


def _depth0(t):
    """indices of the tokens at bracket depth 0.  The header up to the first `BEGIN` is skipped
    by the real parser whatever it contains (depth restarts there); a string / hex literal is read
    as: opening delimiter, one token whatever it is, then everything up to the next delimiter"""
    depth = 0
    out = []
    i = 0
    begun = False
    while i < len(t):
        c = t[i]
        if begun and c in "\"'":
            j = i + 2
            while j < len(t) and t[j] != c:
                j += 1
            i = j + 1
            continue
        if not begun and c.upper() == "BEGIN":
            begun = True
            depth = 0
        elif begun and depth == 0 and c.upper() == "IMPORTS":
            # `read_imports` swallows everything up to the `;` (brackets need not balance there)
            while i < len(t) and t[i] != ";":
                i += 1
            continue
        if c in ")}]":
            depth = max(0, depth - 1)
        if depth == 0:
            out.append(i)
        if c in "({[":
            depth += 1
        i += 1
    return out


def definitions(t):
    """(index of the name, name) of every `Name ::=` at bracket depth 0 whose name is not the end
    of the type of a value reference (`x INTEGER ::= 5`)"""
    out = []
    for i in _depth0(t):
        if 0 < i < len(t) - 2 and t[i] == ":" and t[i + 1] == ":" and t[i + 2] == "=":
            name = t[i - 1]
            if name in SEPARATORS or name.lower() in TYPE_KW or name.upper() in ("STRING", "DEFINITIONS", "TAGS"):
                continue
            out.append((i - 1, name))
    return out


def tag_defs(t):
    """definition name → `(tagged, type)` as far as TagResolver looks at it; the first definition
    of a name wins (`definitions.iter().find(..)`)"""
    g = {}
    for k, name in definitions(t):
        j, tagged = _skip_tag(t, k + 4)
        if name in g or j >= len(t):
            continue
        if t[j].lower() == "choice":
            g[name] = (tagged, ("choice", _choice_alts(t, j + 1)[0]))
        elif t[j].lower() in TYPE_KW or t[j] in SEPARATORS:
            g[name] = (tagged, ("builtin",))
        else:
            g[name] = (tagged, ("ref", t[j]))
    return g


class _Overflow(Exception):
    pass


def tag_cycle(t):
    """independent re-run of `TagResolver::resolve_tag` on every definition, with the recursion
    stack made explicit: does it come back to a name it is still resolving?  (`resolve_type_tag` of
    a CHOICE stops at the first root alternative whose tag is `None`, so a cycle behind an
    undefined reference is not followed.)  Every definition on such a cycle contains a reference
    into it, and `to_rust` resolves every reference of every definition."""
    defs = tag_defs(t)

    def resolve_tag(name, stack):
        d = defs.get(name)
        if d is None:
            return False
        if d[0]:
            return True
        if name in stack:
            raise _Overflow()
        return resolve_type(d[1], stack + [name])

    def resolve_type(ty, stack):
        if ty[0] == "builtin":
            return True
        if ty[0] == "ref":
            return resolve_tag(ty[1], stack)
        some = False
        for tagged, alt in ty[1]:
            if not (tagged or resolve_type(alt, stack)):
                return False
            some = True
        return some

    try:
        for n in defs:
            resolve_tag(n, [])
    except _Overflow:
        return True
    except RecursionError:
        return True
    return False


def self_import_symbols(t):
    """symbols whose first import clause designates the module itself (by name after
    `make_name_nice`, or by an equal object identifier)"""
    if not t or t[0] in SEPARATORS:
        return set()
    me = nice(t[0])
    my_oid = None
    if len(t) > 1 and t[1] == "{":
        try:
            my_oid = tuple(t[2:t.index("}", 2)])
        except ValueError:
            pass
    out, seen = set(), set()
    for k, tok in enumerate(t):
        if tok.upper() != "IMPORTS":
            continue
        i = k + 1
        what = []
        while i < len(t) and t[i] != ";":
            if t[i].upper() == "FROM" and i + 1 < len(t):
                frm = t[i + 1]
                oid = None
                if i + 2 < len(t) and t[i + 2] == "{":
                    try:
                        e = t.index("}", i + 3)
                        oid = tuple(t[i + 3:e])
                        nxt = e + 1
                    except ValueError:
                        nxt = i + 2
                else:
                    nxt = i + 2
                is_self = nice(frm) == me or (my_oid is not None and oid == my_oid)
                for w in what:
                    if w not in seen:
                        seen.add(w)
                        if is_self:
                            out.add(w)
                what = []
                i = nxt
                continue
            if t[i] != ",":
                what.append(t[i])
            i += 1
    return out


def import_cycle(t):
    """a symbol whose first import clause designates the module itself, which has no local
    definition of the kind that is looked up, and which is looked up: as a value (after `(`, `.`,
    `DEFAULT`) or as the type of a component with a named DEFAULT"""
    syms = self_import_symbols(t)
    if not syms:
        return False
    local_defs = {n for _, n in definitions(t)}
    # value references: `name Type … ::=` — a depth-0 name of the module body (not of the header,
    # not of the import list) that is followed by a text token
    local_vals = set()
    body = in_imp = False
    for i in _depth0(t):
        u = t[i].upper()
        if u == "BEGIN":
            body = True
        elif u == "IMPORTS":
            in_imp = True
        elif in_imp:
            in_imp = t[i] != ";"
        elif body and i + 1 < len(t) and t[i] not in SEPARATORS and t[i + 1] not in SEPARATORS:
            local_vals.add(t[i])
    in_imports = False
    for i, tok in enumerate(t):
        if tok.upper() == "IMPORTS":
            in_imports = True
        elif in_imports and tok == ";":
            in_imports = False
        elif not in_imports and tok in syms and i > 0:
            prev = t[i - 1]
            if tok not in local_vals and (prev in ("(", ".") or prev.upper() == "DEFAULT"):
                return True
            if tok not in local_defs and i + 2 < len(t) and t[i + 1].upper() == "DEFAULT" and t[i + 2] not in SEPARATORS:
                return True
    return False


def nesting_depth(t):
    depth = best = 0
    for tok in t:
        if tok == "{" or tok.upper() == "OF":
            depth += 1
            best = max(best, depth)
        elif tok == "}":
            depth = max(0, depth - 1)
    return best


# ------------------------------------------------------------------ the stream

HDR = "M DEFINITIONS AUTOMATIC TAGS ::= BEGIN\n"


class FuzzStream(runner.Stream):
    exhaustive = False

    def __init__(self, name, op, scale_num, scale_den):
        self.name = name
        self.op = op                       # "parse fuzz" | "front total"
        self.prefixes = [op.split(" ")[0]]
        self.scale = (scale_num, scale_den)
        self._family = {}

    def n(self, quick, thorough, tier):
        return (quick if tier == "quick" else thorough) * self.scale[0] // self.scale[1]

    def req(self, text, family):
        r = f"{self.op} {hx(text)}"
        self._family.setdefault(r, family)
        return r

    # ------------------------------------------------------------------------------ generator
    def witnesses(self):
        out = []
        for text in [
            # reference cycles followed by TagResolver (to_rust): were a stack overflow (repaired:
            # stack of the names being resolved), must answer `ok`
            HDR + "A ::= A\nEND",
            HDR + "A ::= CHOICE { x INTEGER, y CHOICE { z A } }\nEND",
            HDR + "A ::= B\nB ::= A\nEND",
            HDR + "A ::= CHOICE { x A }\nEND",
            HDR + "R ::= CHOICE { x R, y INTEGER }\nS ::= SET { a R, b [APPLICATION 1] BOOLEAN }\nEND",
            # import cycle followed by ResolveScope::value_reference / definition: were a stack
            # overflow (repaired: at most scope.len() imports are followed), must answer `err resolve:…`
            HDR + "IMPORTS x FROM M;\nA ::= INTEGER (0..x)\nEND",
            "Selfish DEFINITIONS ::= BEGIN IMPORTS ghost FROM Selfish; A ::= INTEGER (0..ghost) END",
            "Foo_Module DEFINITIONS ::= BEGIN IMPORTS n FROM FooModule; A ::= OCTET STRING (SIZE(n)) END",
            "M { 1 2 } DEFINITIONS ::= BEGIN IMPORTS n FROM Other { 1 2 }; A ::= SEQUENCE { a INTEGER DEFAULT n } END",
            HDR + "IMPORTS E FROM M;\nA ::= SEQUENCE { e E DEFAULT red }\nEND",
            # not cycles: tagged / constructed in between, imported but defined locally, not used
            HDR + "A ::= [5] A\nEND",
            HDR + "A ::= SEQUENCE { a A OPTIONAL }\nEND",
            HDR + "A ::= SEQUENCE OF A\nEND",
            HDR + "A ::= CHOICE { x [0] A, y INTEGER }\nEND",
            HDR + "A ::= CHOICE { y INTEGER, ..., x A }\nEND",
            HDR + "IMPORTS x FROM M;\nx INTEGER ::= 5\nA ::= INTEGER (0..x)\nEND",
            HDR + "IMPORTS x FROM M;\nA ::= INTEGER (0..7)\nEND",
            HDR + "IMPORTS x FROM Other;\nA ::= INTEGER (0..x)\nEND",
            # numbers out of range: references / error classes, no overflow panic
            HDR + "A ::= INTEGER (0..99999999999999999999999)\nEND",
            HDR + "A ::= INTEGER (-9223372036854775809..5)\nEND",
            HDR + "A ::= INTEGER { a(99999999999999999999999) }\nEND",
            HDR + "A ::= ENUMERATED { a(99999999999999999999999) }\nEND",
            HDR + "A ::= SEQUENCE { a [99999999999999999999] INTEGER }\nEND",
            HDR + "A ::= OCTET STRING (SIZE(99999999999999999999999))\nEND",
            HDR + "A ::= BIT STRING { a(18446744073709551616) }\nEND",
            "M { iso(99999999999999999999) } DEFINITIONS ::= BEGIN END",
            # literal corners of try_from_asn_str
            HDR + "A ::= SEQUENCE { a OCTET STRING DEFAULT ''H, b BIT STRING DEFAULT ''B }\nEND",
            HDR + "A ::= SEQUENCE { a OCTET STRING DEFAULT '''H }\nEND",
            HDR + "A ::= SEQUENCE { a UTF8String DEFAULT \"\"\" }\nEND",
            HDR + "A ::= SEQUENCE { a UTF8String DEFAULT \" }\nEND",
            HDR + "A ::= SEQUENCE { a OCTET STRING DEFAULT 'H }\nEND",
            HDR + "A ::= SEQUENCE { a OCTET STRING DEFAULT ' ' H }\nEND",
            HDR + "A ::= SEQUENCE { a BIT STRING DEFAULT 'ééééééééé1'B }\nEND",
            HDR + "A ::= SEQUENCE { a OCTET STRING DEFAULT 'é'H }\nEND",
            HDR + "v OCTET STRING ::= 'ABC'H\nw BIT STRING ::= '111100001'B\nEND",
            # markers, WITH COMPONENTS, names
            HDR + "A ::= SEQUENCE { ... }\nB ::= SET { ... }\nEND",
            HDR + "A ::= SEQUENCE { ..., ... }\nEND",
            HDR + "A ::= B (WITH COMPONENTS { ..., a ((((1)))) PRESENT, b ABSENT })\nEND",
            HDR + "A ::= B (WITH COMPONENTS { a ())) })\nEND",
            # quoted strings with parentheses as component value constraints
            HDR + "A ::= B (WITH COMPONENTS { ..., abc (\":)\") })\nEND",
            HDR + "A ::= B (WITH COMPONENTS { abc (\"ab)\"), d (\"a(b)\") PRESENT })\nEND",
            HDR + "A ::= B (WITH COMPONENTS { abc (\")\"), d (\")(\"), e (\"((\") })\nEND",
            HDR + "A ::= SEQUENCE { x B (WITH COMPONENTS { ..., abc (\"))\") }) OPTIONAL }\nEND",
            "Module DEFINITIONS ::= BEGIN END", "_Module DEFINITIONS ::= BEGIN END",
            "éModule DEFINITIONS ::= BEGIN IMPORTS a FROM 名Module; END",
            "CaféModule DEFINITIONS ::= BEGIN A ::= INTEGER END", "Größe_Module DEFINITIONS ::= BEGIN A ::= INTEGER END",
            "€aModule DEFINITIONS ::= BEGIN A ::= INTEGER END", "𝄞Module DEFINITIONS ::= BEGIN END",
            "M DEFINITIONS ::= BEGIN IMPORTS a FROM CaféModule b FROM Größe_Module c FROM aéModule; END",
            "M DEFINITIONS ::= BEGIN A ::= INTEGER END /* end */", "M DEFINITIONS ::= BEGIN A ::= INTEGER END /* end */\n",
            "M DEFINITIONS ::= BEGIN A ::= INTEGER END\n/* a /* nested */ comment */",
            "", " ", "\n", "M", "BEGIN", "END", "M BEGIN", "M BEGIN END", "{", "M {", "M { 1", "M { a (", "M { a ( 1",
            # the sanctioned panic and its neighbours
            "M BEGIN /* x", "M BEGIN /* x\n", "M BEGIN /* x */ END", "M BEGIN /*", "M BEGIN /* *", "M BEGIN END /* /* */ x",
        ]:
            out.append(self.req(text, "witness"))
        # recursion depth: nested constructs, closed and unclosed, below and above the stack limit
        for n in (10, 100, 400):
            out.append(self.req(HDR + "A ::= " + "SEQUENCE OF " * n + "INTEGER\nEND", "deep"))
            out.append(self.req(HDR + "A ::= " + "SEQUENCE { a " * n + "INTEGER" + " }" * n + "\nEND", "deep"))
            out.append(self.req(HDR + "A ::= " + "CHOICE { a " * n, "deep"))
            out.append(self.req(HDR + "A ::= " + "SET { a [1] " * n + "NULL", "deep"))
        if self.op == "parse fuzz":
            # (the tokenizer model behind `front total` appends to the end of a list: 36 k tokens take
            # 15 s there; the blank/separator splitter of `parse fuzz` is linear)
            out.append(self.req(HDR + "A ::= " + "SEQUENCE { a " * 12000, "deep"))
            out.append(self.req(HDR + "A ::= " + "SEQUENCE OF " * 30000 + "INTEGER\nEND", "deep"))
        return out

    def bases(self, rng, n_modules):
        """printed valid modules: (text, own names)"""
        bases = []
        for f in sorted(glob.glob(os.path.join(vlib.REPO, "tests", "*.rs"))):
            src = open(f, encoding="utf-8").read()
            for mt in re.finditer(r'asn_to_rust!\(\s*r(#*)"(.*?)"\1\s*,?\s*\)', src, flags=re.S):
                bases.append(mt.group(2))
        kinds = set()
        for i in range(n_modules):
            g = G.Gen(rng, max_depth=rng.range(0, 3))
            m = g.module()
            kinds |= G.kinds_of(m)
            p = G.Printer(kwstyle=rng.choice([0, 0, 0, 1, 2]), paren_size=rng.chance(2, 3),
                          min_max_explicit=rng.chance(1, 10))
            bases.append(G.render(p.module(m), None if i % 3 == 0 else rng))
        self._kinds = kinds
        # front_gen lets a definition refer to itself (`Zave ::= Zave`): before the repair of
        # TagResolver such a base made every mutant abort the harness process; they come last
        cyclic = [b for b in bases if tag_cycle(lex(b))]
        return [b for b in bases if not tag_cycle(lex(b))] + cyclic

    def vocab_token(self, rng, own):
        c = rng.below(16)
        if c < 4:
            return rng.choice(KEYWORDS)
        if c < 7:
            return rng.choice(PUNCT)
        if c < 9:
            return rng.choice(NUMBERS)
        if c < 11 and own:
            return rng.choice(own)
        if c < 12:
            return rng.choice(IDENTS)
        if c < 13:
            return rng.choice(LITERALS)
        if c < 14:
            return rng.choice(TAGS)
        if c < 15:
            return rng.choice(COMMENTS)
        return rng.choice(CONSTRAINTS)

    def join(self, rng, toks):
        out = []
        for i, t in enumerate(toks):
            if i:
                out.append("\n" if rng.chance(1, 6) else " ")
            out.append(t)
        return "".join(out)

    def mutate_chars(self, rng, text, k):
        for _ in range(k):
            if not text:
                text = rng.choice(CHAR_ALPHABET)
                continue
            op = rng.below(4)
            p = rng.below(len(text))
            if op == 0:
                text = text[:p] + text[p + 1:]
            elif op == 1:
                text = text[:p] + rng.choice(CHAR_ALPHABET) + text[p:]
            elif op == 2:
                if p + 1 < len(text):
                    text = text[:p] + text[p + 1] + text[p] + text[p + 2:]
            else:
                text = text[:max(1, p)] if rng.chance(1, 2) else text[:len(text) - rng.range(1, min(12, len(text)))]
        return text

    def mutate_tokens(self, rng, toks, k, own):
        toks = list(toks)
        for _ in range(k):
            if not toks:
                toks = [self.vocab_token(rng, own)]
                continue
            op = rng.below(6)
            p = rng.below(len(toks))
            if op == 0:
                del toks[p]
            elif op == 1:
                toks.insert(p, toks[p])
            elif op == 2:
                q = p + 1 if rng.chance(2, 3) else rng.below(len(toks))
                if q < len(toks):
                    toks[p], toks[q] = toks[q], toks[p]
            elif op in (3, 4):
                toks.insert(p, self.vocab_token(rng, own))
            else:
                toks = toks[:max(1, p)]
        return toks

    def ref_graph_module(self, rng):
        """small modules whose definitions refer to each other in every way TagResolver treats
        differently (plain / tagged reference, CHOICE alternative root / extension / tagged /
        nested, inside SEQUENCE, SEQUENCE OF, OPTIONAL)"""
        k = rng.range(1, 4)
        names = [f"T{i}" for i in range(k)]
        if rng.chance(1, 6):
            names[rng.below(k)] = names[0]         # duplicate definition: the first one wins
        lines = []
        for nm in names:
            def ref():
                return rng.choice(names + ["Undefined"]) if rng.chance(9, 10) else "INTEGER"

            def alt(depth=0):
                c = rng.below(8)
                nm2 = rng.choice("abcdefgh") + str(rng.below(100))
                if c < 3:
                    return f"{nm2} {ref()}"
                if c < 4:
                    return f"{nm2} [{rng.below(9)}] {ref()}"
                if c < 5 and depth < 2:
                    return f"{nm2} CHOICE {{ {alts(depth + 1)} }}"
                if c < 6:
                    return f"{nm2} SEQUENCE {{ q {ref()} OPTIONAL }}"
                if c < 7:
                    return f"{nm2} SEQUENCE OF {ref()}"
                return f"{nm2} BOOLEAN"

            def alts(depth=0):
                items = [alt(depth) for _ in range(rng.range(1, 3))]
                if rng.chance(1, 4):
                    items.insert(rng.range(1, len(items)), "...")
                return ", ".join(items)

            c = rng.below(9)
            if c < 2:
                rhs = ref()
            elif c < 3:
                rhs = f"[{rng.choice(['', 'APPLICATION ', 'PRIVATE '])}{rng.below(9)}] {ref()}"
            elif c < 6:
                rhs = f"CHOICE {{ {alts()} }}"
            elif c < 7:
                rhs = f"SEQUENCE {{ a {ref()}{rng.choice(['', ' OPTIONAL'])}, b {ref()} }}"
            elif c < 8:
                rhs = f"{rng.choice(['SEQUENCE', 'SET'])} OF {ref()}"
            else:
                rhs = f"SET {{ a {ref()}, b [APPLICATION 1] BOOLEAN }}"
            lines.append(f"{nm} ::= {rhs}")
        return HDR + "\n".join(lines) + "\nEND"

    def self_import_module(self, rng):
        me = rng.choice(["M", "Foo", "FooModule", "Foo_Module"])
        frm = rng.choice([me, me, nice(me), nice(me) + "Module", "Other"])
        oid = rng.choice(["", "", " { 1 2 }", " { iso 3 }"])
        ioid = rng.choice(["", "", " { 1 2 }", " { iso 3 }"])
        syms = rng.choice([["x"], ["x", "y"], ["E"], ["x", "E"]])
        first = rng.choice(["", "", f"x FROM Elsewhere "])
        body = []
        if rng.chance(1, 4):
            body.append("x INTEGER ::= 5")
        if rng.chance(1, 4):
            body.append("E ::= ENUMERATED { red, green }")
        use = rng.below(7)
        body.append([
            "A ::= INTEGER (0..x)", "A ::= OCTET STRING (SIZE(x))", "A ::= SEQUENCE { a INTEGER DEFAULT x }",
            "A ::= SEQUENCE { e E DEFAULT red }", "A ::= SEQUENCE { e E }", "A ::= INTEGER (0..7)",
            "A ::= SEQUENCE OF UTF8String (SIZE(1..y))"][use])
        return f"{me}{oid} DEFINITIONS AUTOMATIC TAGS ::= BEGIN\nIMPORTS {first}{', '.join(syms)} FROM {frm}{ioid};\n" + \
            "\n".join(body) + "\nEND"

    def gen(self, rng, tier):
        self._family = {}
        reqs = self.witnesses()
        bases = self.bases(rng.fork("bases"), self.n(300, 3000, tier))
        lexed = [lex(b) for b in bases]
        kwset = {k.upper() for k in KEYWORDS}
        owns = [sorted({t for t in toks if t not in SEPARATORS and t.upper() not in kwset
                        and not re.fullmatch(r"-?\d+", t)})[:40] for toks in lexed]
        # the unmutated bases (valid modules must be accepted or refused, never crash)
        for b in bases:
            reqs.append(self.req(b, "valid"))
        r = rng.fork("mut")
        n_mut = self.n(14000, 200000, tier)
        for i in range(n_mut):
            j = r.below(len(bases))
            k = r.range(1, 4)
            reqs.append(self.req(self.mutate_chars(r, bases[j], k), f"char{k}"))
        for i in range(n_mut):
            j = r.below(len(bases))
            k = r.range(1, 4)
            toks = self.mutate_tokens(r, lexed[j], k, owns[j])
            reqs.append(self.req(self.join(r, toks), f"tok{k}"))
        r = rng.fork("soup")
        for i in range(self.n(6000, 100000, tier)):
            n = r.range(0, 6) if r.chance(1, 4) else r.range(0, 40)
            own = ["M", "A", "B", "x"]
            toks = [self.vocab_token(r, own) for _ in range(n)]
            fam = "soup"
            if r.chance(1, 2):
                # inside a module frame, half of the time as the right-hand side of a definition
                pre = ["M", "DEFINITIONS", "::=", "BEGIN"] + (["A", "::="] if r.chance(1, 2) else [])
                toks = pre + toks + (["END"] if r.chance(2, 3) else [])
                fam = "soup-framed"
            reqs.append(self.req(self.join(r, toks), fam))
        # INTEGER ranges at the corners of i64 / the Rust integer types (to_rust picks the type)
        corners = ["MIN", "MAX", "0", "1", "-1", "127", "128", "-128", "-129", "255", "256", "65535", "65536",
                   "2147483647", "2147483648", "-2147483648", "-2147483649", "4294967295", "4294967296",
                   "9223372036854775807", "-9223372036854775808", "9223372036854775808", "-9223372036854775809", "x"]
        r = rng.fork("ranges")
        for lo in corners:
            for hi in corners:
                ext = ", ..." if r.chance(1, 2) else ""
                wrap = r.choice(["A ::= INTEGER ({lo}..{hi}{ext})", "A ::= SEQUENCE {{ a INTEGER ({lo}..{hi}{ext}) OPTIONAL }}",
                                 "A ::= SEQUENCE OF INTEGER ({lo}..{hi}{ext})", "A ::= OCTET STRING (SIZE({lo}..{hi}{ext}))"])
                reqs.append(self.req(HDR + "x INTEGER ::= -7\n" + wrap.format(lo=lo, hi=hi, ext=ext) + "\nEND", "ranges"))
        # the families that aborted the process before the repairs come last (vlib.run_lines
        # re-sends the rest of the stream after every abort)
        r = rng.fork("graph")
        for i in range(self.n(3000, 9000, tier)):
            reqs.append(self.req(self.ref_graph_module(r), "refgraph"))
        for i in range(self.n(1000, 3000, tier)):
            reqs.append(self.req(self.self_import_module(r), "selfimport"))
        return reqs

    # --------------------------------------------------------------------------------- oracle
    def oracle(self, req, ans):
        t = req.split(" ")
        if ans == "ok" or ans.startswith("err resolve:"):
            return None
        text = unhex_text(t[2])
        if ans.startswith("err parse:"):
            return self.offending_token(text, ans) if self.op == "front total" else None
        if ans == "panic tokenizer":
            if ends_in_block_comment(text):
                return None
            return "the tokenizer panics although the text does not end inside a block comment"
        if ans == "abort":
            return "the front end kills the process (stack overflow) instead of returning a model or an error"
        if ans.startswith("panic "):
            return f"the front end panics in stage `{ans[6:]}` instead of returning a model or an error"
        return "unexpected answer: " + ans

    def offending_token(self, text, ans):
        """`err parse:<class> <token>`: the error value carries the offending token"""
        a = ans.split(" ")
        if len(a) != 3:
            return "malformed answer: " + ans
        cls, tok = a[1][len("parse:"):], a[2]
        if cls in ("eof", "missing-module-name"):
            return None if tok == "-" else f"`{cls}` carries a token"
        if tok == "-":
            return f"the parse error `{cls}` carries no token"
        kind, line, col, h = tok.split(":")
        line, col = int(line), int(col)
        s = unhex_text(h)
        lines = text.split("\n")
        if not (1 <= line <= len(lines) and 1 <= col <= len(lines[line - 1]) and s and lines[line - 1][col - 1] == s[0]):
            return f"the token of the parse error `{cls}` ({tok}) is not at line {line}, column {col} of the text"
        if cls != "invalid-literal":
            if kind == "S" and not (len(s) == 1 and s in SEPARATORS):
                return f"the separator token of the parse error `{cls}` is not a separator"
            if kind == "T" and s not in lex(text):
                return f"the token of the parse error `{cls}` is not a token of the text"
        return None

    def finding_class(self, req, ans):
        """classes are decided by the request text; the (cheap) look at the answer only avoids
        running the detectors on the tens of thousands of requests that are answered properly"""
        if ans == "ok" or ans.startswith("err ") or ans == "panic tokenizer":
            return None
        toks = lex(unhex_text(req.split(" ")[2]))
        if nesting_depth(toks) >= NEST_LIMIT:
            return "front.nesting_depth"
        # (reference / import cycles were finding front.cyclic_reference; repaired, an abort or
        #  panic on such a text is a violation like any other)
        return None

    def tag(self, req, ans):
        fam = self._family.get(req, "?")
        a = ans
        if a.startswith("err parse:"):
            a = "E:" + a.split(" ")[1][6:]
        elif a.startswith("err resolve:"):
            a = "R:" + a[12:]
        if fam in ("refgraph", "selfimport", "witness") and (ans == "ok" or ans.startswith("err ")):
            # detector precision: a cycle the detector sees but the implementation survives
            toks = lex(unhex_text(req.split(" ")[2]))
            if tag_cycle(toks) or import_cycle(toks):
                a += "(detector:cycle)"
        fam = re.sub(r"\d$", "", fam)
        return f"{fam}:{a}"

    def nontrivial(self, req, ans):
        # the parser got past the module header
        a = " ".join(ans.split(" ")[:2])
        return a not in ("err parse:missing-module-name", "bad-op") and not (
            a == "err parse:eof" and "BEGIN" not in unhex_text(req.split(" ")[2]).upper())

    def compare(self, req, impl, model):
        if impl.startswith("err parse:"):
            impl = " ".join(impl.split(" ")[:2])      # the driver does not render the carried token
        if model == "skip" or impl == model:
            return True
        if model == "ok" and impl in ("abort", "panic to_rust", "panic to_protobuf"):
            return True          # stages without a model in the driver ops; judged by the oracle
        if impl == "abort" and nesting_depth(lex(unhex_text(req.split(" ")[2]))) >= NEST_LIMIT:
            return True          # the model has no call stack
        return False


class Spec(runner.Spec):
    prop = "C14"
    streams = [FuzzStream("frontfuzz", "parse fuzz", 1, 2), FuzzStream("fronttotal", "front total", 2, 3)]
    assumptions = [
        "dev profile (overflow checks and debug assertions on); 8 MiB main-thread stack of the harness process",
        "termination is proved for the Lean mirror of the parser (every token list) — the real recursive descent additionally needs stack proportional to the nesting depth of the text (finding front.nesting_depth)",
        "the tokenizer's i32 nesting counter overflows only after 2^31 unclosed `/*` (>= 4 GiB of text): modelled, not exercised",
        "resolver totality and TagResolver totality (to_rust) are proved for every module, import and reference cycles included (Props/C14.lean `resolver_total`, `resolve_total`, `tag_resolver_total_full`); the cyclic witnesses of the former finding front.cyclic_reference stay in the stream as regression corpus",
        "to_rust / to_protobuf are covered by the panic-site table of Props/C14.lean and by this stream's oracle, not by a Lean mirror of their own (TagResolver: Codegen/Tags.lean, property C16)",
        "the driver op `parse fuzz` answers `skip` on texts with comment openers, control or non-ASCII characters (its tokenizer is the blank/separator splitter); the driver op `front total` runs the tokenizer model and skips only a `'` literal that spans lines (the parser model rebuilds literals without columns) and non-ASCII numeric characters (read_oid's char::is_numeric is modelled for ASCII)",
        "Rust semantics of the mirrored code is tied to the Lean mirror only by differential execution",
    ]
    trusted_base = [
        "Lean 4.33 kernel; axioms per theorem listed under coverage.theorems (allowed: propext, Classical.choice, Quot.sound)",
        "hand-written mirrors Front/Tokenizer.lean, Front/ParserBase.lean, Front/Parser.lean, Front/Resolve.lean, Codegen/Tags.lean — tied by the correspondence streams of C13, C07, C12, C16 and by this stream",
        "Front/TotalFront.lean (`bridge`, `frontEnd`): the composition the theorems talk about",
        "the enumeration of panic sites in the header of Props/C14.lean (read from the source by hand; the fuzz stream is its check)",
        "harness/src/parse.rs op `fuzz`, harness/src/front.rs op `total` (catch_unwind per stage, parse::Error::token()), Driver/ParseStream.lean, Driver/FrontStream.lean, tools/vlib.run_lines (`abort` for a killed process)",
        "tools/front_gen.py (base modules), tools/checks/c14.py (mutators, independent lexer `lex`, cycle / self-import / nesting detectors), tools/checks/c13.py `ends_in_block_comment`",
    ]
