#!/usr/bin/env python3
"""Runs the registered checks against every seeded change in /verif/seeded/<id>/.

For each seeded change: `git -C /repo apply patch.diff`, run the quick command of every check listed
in meta.json["checks"] (default: the property it breaks), record exit code and the VIOLATION lines,
then `git -C /repo checkout -- .`.  Results go to seeded/RESULTS.md and into each meta.json under
"results".  /repo must be clean and nothing else may be building against it while this runs.

usage: tools/seeded_run.py [<id> …]      (default: all)
"""
import json
import os
import subprocess
import sys
import time

HERE = os.path.normpath(os.path.join(os.path.dirname(os.path.abspath(__file__)), ".."))
SEEDED = os.path.join(HERE, "seeded")
REPO = "/repo"


def sh(cmd, cwd=None, timeout=7200):
    p = subprocess.run(cmd, cwd=cwd, shell=True, capture_output=True, text=True, timeout=timeout)
    return p.returncode, p.stdout + p.stderr


def main():
    ids = sys.argv[1:] or sorted(d for d in os.listdir(SEEDED) if os.path.isdir(os.path.join(SEEDED, d)))
    rc, out = sh("git status --porcelain", cwd=REPO)
    if out.strip():
        print("refusing: /repo has uncommitted changes:\n" + out)
        return 2
    rows = []
    for sid in ids:
        d = os.path.join(SEEDED, sid)
        meta = json.load(open(os.path.join(d, "meta.json")))
        checks = meta.get("checks") or [meta["property"]]
        if os.environ.get("SEEDED_PRIMARY_ONLY"):
            # the check of the property the change breaks (plus, when that is not listed, the first listed)
            checks = [meta["property"]] if meta["property"] in checks else checks[:1]
        rc, out = sh(f"git apply {os.path.join(d, 'patch.diff')}", cwd=REPO)
        if rc != 0:
            print(sid, "patch does not apply:", out)
            rows.append((sid, meta["property"], meta.get("needs_to_manifest", "").replace("|", "/"), "patch does not apply", ""))
            continue
        results = {}
        try:
            for c in checks:
                t0 = time.time()
                rc, out = sh(f"./check {c} --tier quick", cwd=HERE)
                viol = [l for l in out.splitlines() if l.startswith("VIOLATION")]
                replay = ""
                if viol:
                    path = viol[0].split("replay=")[1].split(" ")[0]
                    try:
                        replay = "".join(open(path).readlines()[:6])
                    except OSError:
                        pass
                results[c] = {"exit": rc, "violations": viol[:3], "replay_head": replay, "wall_s": round(time.time() - t0, 1)}
                print(sid, c, "exit", rc, viol[:1])
        finally:
            sh("git checkout -- .", cwd=REPO)
        meta["results"] = results
        json.dump(meta, open(os.path.join(d, "meta.json"), "w"), indent=1)
        caught = [c for c, r in results.items() if r["exit"] != 0]
        kind = ""
        for c in caught:
            v = results[c]["violations"]
            kind = "no-failing-input-found" if v and v[0].endswith("no-failing-input-found") else "failing input"
        rows.append((sid, meta["property"], meta.get("needs_to_manifest", "").replace("|", "/"), ", ".join(caught) or "MISSED", kind))
    with open(os.path.join(SEEDED, "RESULTS.md"), "w") as f:
        f.write("# Seeded changes: which checks catch which\n\n| seeded change | breaks | what it needs to manifest | caught by | how |\n|---|---|---|---|---|\n")
        for r in rows:
            f.write("| " + " | ".join(r) + " |\n")
    # restore the evidence files of the unchanged tree
    for c in sorted({c for sid in ids for c in (json.load(open(os.path.join(SEEDED, sid, "meta.json"))).get("checks") or [])}):
        rc, out = sh(f"./check {c} --tier quick", cwd=HERE)
        print("unchanged tree:", c, "exit", rc)
    return 0


if __name__ == "__main__":
    sys.exit(main())
