#!/usr/bin/env python3
"""Runs the registered checks against every seeded change in /verif/seeded/<id>/.

For each seeded change: `git -C /repo apply patch.diff`, run the quick command of every check listed
in meta.json["checks"] (default: the property it breaks), record exit code and the VIOLATION lines,
then `git -C /repo checkout -- .`.  Results go to seeded/RESULTS.md and into each meta.json under
"results".  /repo must be clean and nothing else may be building against it while this runs.

usage: tools/seeded_run.py [<id> …]      (default: all)
"""
import json
import os
import subprocess
import sys
import time

HERE = os.path.normpath(os.path.join(os.path.dirname(os.path.abspath(__file__)), ".."))
SEEDED = os.path.join(HERE, "seeded")
REPO = "/repo"


def sh(cmd, cwd=None, timeout=7200):
    p = subprocess.run(cmd, cwd=cwd, shell=True, capture_output=True, text=True, timeout=timeout)
    return p.returncode, p.stdout + p.stderr


def write_results():
    """seeded/RESULTS.md from every meta.json: the result of the final pass on /repo itself where it
    exists (`results`), else what the run against a patched copy recorded (`detected_by`)"""
    rows = []
    for sid in sorted(d for d in os.listdir(SEEDED) if os.path.isdir(os.path.join(SEEDED, d))):
        try:
            meta = json.load(open(os.path.join(SEEDED, sid, "meta.json")))
        except OSError:
            continue
        needs = meta.get("needs_to_manifest", "").replace("|", "/")
        res = meta.get("results")
        if res and "_error" in res:
            rows.append((sid, meta["property"], needs, res["_error"], "", ""))
        elif res:
            caught = [c for c, r in res.items() if not c.startswith("_") and r["exit"] != 0]
            ran = [c for c in res if not c.startswith("_")]
            kind = ""
            for c in caught:
                v = res[c]["violations"]
                kind = "no-failing-input-found" if v and v[0].endswith("no-failing-input-found") else "failing input"
            rows.append((sid, meta["property"], needs, ", ".join(caught) or "MISSED (ran " + ", ".join(ran) + ")", kind,
                         "/repo at " + res.get("_repo_head", "?")))
        else:
            det = meta.get("detected_by") or {}
            caught = [c for c, v in det.items() if v]
            rows.append((sid, meta["property"], needs, ", ".join(caught) or "MISSED", "", "patched copy (seed_confirm)"))
    with open(os.path.join(SEEDED, "RESULTS.md"), "w") as f:
        f.write("# Seeded changes: which checks catch which\n\n"
                "| seeded change | breaks | what it needs to manifest | caught by | how | run against |\n|---|---|---|---|---|---|\n")
        for r in rows:
            f.write("| " + " | ".join(r) + " |\n")


def main():
    ids = sys.argv[1:] or sorted(d for d in os.listdir(SEEDED) if os.path.isdir(os.path.join(SEEDED, d)))
    rc, out = sh("git status --porcelain", cwd=REPO)
    if out.strip():
        print("refusing: /repo has uncommitted changes:\n" + out)
        return 2
    rc, head = sh("git rev-parse --short HEAD", cwd=REPO)
    head = head.strip()
    for sid in ids:
        d = os.path.join(SEEDED, sid)
        meta = json.load(open(os.path.join(d, "meta.json")))
        checks = meta.get("checks") or [meta["property"]]
        if os.environ.get("SEEDED_PRIMARY_ONLY"):
            # the check of the property the change breaks (when that is not listed, the first listed)
            checks = [meta["property"]] if meta["property"] in checks else checks[:1]
        rc, out = sh(f"git apply {os.path.join(d, 'patch.diff')}", cwd=REPO)
        if rc != 0:
            print(sid, "patch does not apply:", out)
            meta["results"] = {"_error": "patch does not apply to " + head}
            json.dump(meta, open(os.path.join(d, "meta.json"), "w"), indent=1)
            write_results()
            continue
        results = {"_repo_head": head}
        try:
            for c in checks:
                t0 = time.time()
                rc, out = sh(f"./check {c} --tier quick", cwd=HERE)
                viol = [l for l in out.splitlines() if l.startswith("VIOLATION")]
                replay = ""
                if viol:
                    path = viol[0].split("replay=")[1].split(" ")[0]
                    try:
                        replay = "".join(open(path).readlines()[:6])
                    except OSError:
                        pass
                results[c] = {"exit": rc, "violations": viol[:3], "replay_head": replay, "wall_s": round(time.time() - t0, 1)}
                print(sid, c, "exit", rc, viol[:1], flush=True)
        finally:
            sh("git checkout -- .", cwd=REPO)
        meta["results"] = results
        json.dump(meta, open(os.path.join(d, "meta.json"), "w"), indent=1)
        write_results()
    # restore the evidence files of the unchanged tree
    for c in sorted({c for sid in ids for c in (json.load(open(os.path.join(SEEDED, sid, "meta.json"))).get("checks") or [])}):
        rc, out = sh(f"./check {c} --tier quick", cwd=HERE)
        print("unchanged tree:", c, "exit", rc)
    return 0


if __name__ == "__main__":
    sys.exit(main())
