"""C08, second half: the descriptor constants of the macro expansion, from the SOURCE of every zoo type.

Stream `consts` (class `ConstsFromSource`), one request per compiled zoo type:

    uper desccheck <name> <Ty expected from the source>

  * harness: the descriptor recomputed from the compiled generated constants (`TyGen`);
  * driver : echoes the expected descriptor iff `Ty.consistent` (existing op, nothing registered);
  * the stream's `compare` additionally demands that the Lean model `Codegen/ConstsModel.lean`
    (`defConstsOf <source>`, evaluated by `lake env lean` on a generated file in .work/) prints the
    descriptor the harness reports — this is the tie of the model to the real generator;
  * oracle (Python only, never the model): the source of the type is read from harness/zoo/*.asn1 (the
    files build.rs compiles) by the small parser below; `ideal()` is what the source constraints say,
    `as_coded()` what the pipeline (parser normalisations, convert_asn_to_rust, attribute round trip,
    walker) is documented to make of them.  The answer must equal `ideal`; inside a deviation class
    (`DEVIATIONS`) it must equal `as_coded` — reported as KNOWN-FINDING when KNOWN_FINDINGS.txt lists
    the class for C08, tolerated silently otherwise (a third behaviour is always a failure).
    For `zoo_shape::S<k>` the header `(seq stdOpt fieldCount extAfter` and the kinds are additionally
    re-derived from the shape enumeration of tools/gen_zoo.py (kinds x marker position), without the text.
"""
import glob
import itertools
import os
import re

import gen_zoo
import uperlib
import vlib
from uper_streams import UperBase

I64_MAX = 2 ** 63 - 1
I64_MIN = -(2 ** 63)

# deviation classes: where the generated constants are NOT what the source says (see the report of
# Props/C08Consts.lean: int_open_*, consts_match_int_full_false; the SIZE upper end is the parser's)
DEVIATIONS = {
    "consts.int_open_max": "INTEGER (a..MAX): MAX = Some(i64::MAX) instead of no upper bound",
    "consts.int_open_min": "INTEGER (MIN..b): MIN = Some(0) / Some(i64::MIN) instead of no lower bound",
    "consts.int_widened": "INTEGER (0..MAX) / (0..i64::MAX) / (MIN..i64::MAX): the declared bound is dropped",
    "consts.int_bound_changed": "INTEGER (MIN..b), b < 0, not extensible: MAX = 2^64 + b (C15 F-int-min)",
    "consts.size_open_max": "SIZE(a..MAX): MAX = Some(i64::MAX) instead of no upper bound",
}


# ------------------------------------------------------------------------------ zoo source parser

TOK = re.compile(r'"[^"]*"|::=|\.\.\.|\.\.|-?\d+|[A-Za-z][A-Za-z0-9-]*|[{}()\[\],]')

CHARSETS = {"UTF8String": "utf8", "IA5String": "ia5", "NumericString": "num",
            "PrintableString": "print", "VisibleString": "vis"}
UNIVERSAL = {"bool": 1, "int": 2, "bits": 3, "oct": 4, "null": 5, "enum": 10, "utf8": 12, "seq": 16, "seqof": 16,
             "set": 17, "setof": 17, "num": 18, "print": 19, "ia5": 22, "vis": 26}
CLASS_RANK = {"UNIVERSAL": 0, "APPLICATION": 1, "CONTEXT": 2, "PRIVATE": 3}


class Unsupported(Exception):
    pass


class P:
    def __init__(self, toks):
        self.t = toks
        self.i = 0

    def peek(self, k=0):
        return self.t[self.i + k] if self.i + k < len(self.t) else None

    def next(self):
        x = self.peek()
        if x is None:
            raise Unsupported("unexpected end")
        self.i += 1
        return x

    def eat(self, x):
        if self.peek() != x:
            raise Unsupported(f"expected {x}, got {self.peek()}")
        self.i += 1

    def opt(self, x):
        if self.peek() == x:
            self.i += 1
            return True
        return False


def p_tag(p):
    if not p.opt("["):
        return None
    cls = "CONTEXT"
    if p.peek() in ("UNIVERSAL", "APPLICATION", "PRIVATE"):
        cls = p.next()
    n = int(p.next())
    p.eat("]")
    return (CLASS_RANK[cls], n)


def p_size(p):
    """`(SIZE(..))` as written: (lo, hi, ext, fixed); lo/hi None for MIN/MAX"""
    p.eat("(")
    p.eat("SIZE")
    p.eat("(")
    lo = p.next()
    lo = None if lo == "MIN" else int(lo)
    if p.opt(".."):
        hi = p.next()
        hi = None if hi == "MAX" else int(hi)
        fixed = False
    else:
        hi, fixed = lo, True
    ext = False
    if p.opt(","):
        p.eat("...")
        ext = True
    p.eat(")")
    p.eat(")")
    return {"lo": lo, "hi": hi, "ext": ext, "fixed": fixed}


def p_opt_size(p):
    if p.peek() == "(" and p.peek(1) == "SIZE":
        return p_size(p)
    return None


def p_type(p):
    tag = p_tag(p)
    t = p_base(p)
    t["tag"] = tag
    return t


def p_base(p):
    w = p.next()
    if w == "BOOLEAN":
        return {"k": "bool"}
    if w == "NULL":
        return {"k": "null"}
    if w == "INTEGER":
        t = {"k": "int", "lo": None, "hi": None, "ext": False, "constrained": False}
        if p.opt("("):
            lo = p.next()
            p.eat("..")
            hi = p.next()
            t["lo"] = None if lo == "MIN" else int(lo)
            t["hi"] = None if hi == "MAX" else int(hi)
            t["constrained"] = True
            if p.opt(","):
                p.eat("...")
                t["ext"] = True
            p.eat(")")
        return t
    if w in CHARSETS:
        return {"k": "str", "cs": CHARSETS[w], "size": p_opt_size(p)}
    if w == "OCTET":
        p.eat("STRING")
        return {"k": "oct", "size": p_opt_size(p)}
    if w == "BIT":
        p.eat("STRING")
        return {"k": "bits", "size": p_opt_size(p)}
    if w == "ENUMERATED":
        p.eat("{")
        items, ext_after = [], None
        while True:
            if p.opt("..."):
                if not items or ext_after is not None:
                    raise Unsupported("marker position in ENUMERATED")
                ext_after = len(items)          # number of root items
            else:
                name = p.next()
                if p.opt("("):
                    p.next()
                    p.eat(")")
                items.append(name)
            if p.opt("}"):
                break
            p.eat(",")
        return {"k": "enum", "items": items, "root": ext_after}
    if w in ("SEQUENCE", "SET"):
        if p.peek() == "{":
            p.eat("{")
            comps, root = [], None
            if not p.opt("}"):
                while True:
                    if p.opt("..."):
                        if root is not None:
                            raise Unsupported("second extension marker")
                        root = len(comps)       # number of components in front of the marker
                    else:
                        name = p.next()
                        ty = p_type(p)
                        pres = ("m", None)
                        if p.opt("OPTIONAL"):
                            pres = ("o", None)
                        elif p.opt("DEFAULT"):
                            pres = ("d", p.next())
                        comps.append({"name": name, "ty": ty, "pres": pres})
                    if p.opt("}"):
                        break
                    p.eat(",")
            return {"k": "seq" if w == "SEQUENCE" else "set", "comps": comps, "root": root}
        size = p_opt_size(p)
        p.eat("OF")
        return {"k": "seqof" if w == "SEQUENCE" else "setof", "size": size, "elem": p_type(p)}
    if w == "CHOICE":
        p.eat("{")
        alts, root = [], None
        while True:
            if p.opt("..."):
                if not alts or root is not None:
                    raise Unsupported("marker position in CHOICE")
                root = len(alts)
            else:
                name = p.next()
                alts.append({"name": name, "ty": p_type(p)})
            if p.opt("}"):
                break
            p.eat(",")
        return {"k": "choice", "alts": alts, "root": root}
    if re.fullmatch(r"[A-Z][A-Za-z0-9-]*", w):
        return {"k": "ref", "name": w}
    raise Unsupported(f"type `{w}`")


def rust_module(name):
    return re.sub(r"(?<!^)([A-Z])", r"_\1", name).lower()


def rust_name(name):
    """rust.rs `rust_variant_name` (= `rust_struct_or_enum_name`); names are lookup keys only"""
    out, next_upper, prev_upper = [], True, False
    for i, c in enumerate(name):
        nxt = name[i + 1] if i + 1 < len(name) else ""
        if c in "-_":
            next_upper, prev_upper = True, False
        elif next_upper and not prev_upper:
            out.append(c.upper())
            next_upper, prev_upper = False, True
        else:
            out.append(c.lower() if prev_upper and not nxt.islower() else c)
            prev_upper = c.isupper()
    return "".join(out)


def load_zoo():
    """{`zoo_mod::Type`: source tree}, {name: reason} for definitions this parser does not understand"""
    defs, bad = {}, {}
    for path in sorted(glob.glob(os.path.join(vlib.HARNESS, "zoo", "*.asn1"))):
        text = open(path, encoding="utf-8").read()
        m = re.match(r"\s*([A-Za-z][\w-]*)\s+DEFINITIONS[^\n]*::=\s*BEGIN(.*)END\s*$", text, flags=re.S)
        if not m:
            bad[os.path.basename(path)] = "module header"
            continue
        mod = rust_module(m.group(1))
        for line in m.group(2).splitlines():
            line = line.strip()
            if not line:
                continue
            toks = TOK.findall(line)
            name = toks[0]
            try:
                if toks[1] != "::=":
                    raise Unsupported("not a type assignment")
                p = P(toks[2:])
                ty = p_type(p)
                if p.peek() is not None:
                    raise Unsupported(f"trailing `{p.peek()}`")
                defs[f"{mod}::{rust_name(name)}"] = ty
            except (Unsupported, IndexError, ValueError) as e:
                bad[f"{mod}::{rust_name(name)}"] = str(e)
    # inline SEQUENCE / SET / CHOICE / ENUMERATED become definitions of their own (`Parent` + `Field`)
    def inline(qual, ty):
        kids = []
        if ty["k"] in ("seq", "set"):
            kids = [(c["name"], c["ty"]) for c in ty["comps"]]
        elif ty["k"] == "choice":
            kids = [(a["name"], a["ty"]) for a in ty["alts"]]
        for n, t in kids:
            inner = t
            while inner["k"] in ("seqof", "setof"):
                inner = inner["elem"]
            if inner["k"] in ("seq", "set", "choice", "enum"):
                q = qual.split("::")[0] + "::" + rust_name(qual.split("::")[1] + rust_name(n))
                defs.setdefault(q, inner)
                inline(q, inner)
    for q, t in list(defs.items()):
        inline(q, t)
    return defs, bad


# ------------------------------------------------------------------- source -> expected descriptor

def opt_s(x):
    return "none" if x is None else str(x)


def b01(b):
    return "1" if b else "0"


def size_ideal(sz):
    """(min, max, ext) the SIZE constraint says"""
    if sz is None:
        return (None, None, False)
    return (sz["lo"], sz["hi"], sz["ext"])


def size_coded(sz):
    """asn/size.rs: `Size::try_from` + `reconsider_constraints`, then `Size::{min,max,extensible}`"""
    if sz is None:
        return (None, None, False)
    start = None if sz["lo"] in (None, 0) else sz["lo"]         # MIN and the literal 0 are filtered
    if sz["fixed"]:
        return (start or 0, start or 0, sz["ext"])
    end = None if sz["hi"] in (None, I64_MAX) else sz["hi"]
    if start is None and end is None:
        return (None, None, False)                               # Size::Any (a `, ...` is a parse error)
    lo, hi = start or 0, (I64_MAX if end is None else end)
    if lo == 0 and hi == I64_MAX and not sz["ext"]:
        return (None, None, False)
    return (lo, hi, sz["ext"])


def as_u(bits, x):
    return x % (1 << bits)


def as_i(bits, x):
    x %= (1 << bits)
    return x - (1 << bits) if x >= (1 << (bits - 1)) else x


def first_arm(lo, hi):
    return (lo, hi) in ((None, None), (0, None), (0, I64_MAX), (None, I64_MAX))


def cascade(lo, hi, ext):
    """rust.rs: (rust type, stored min, stored max); u64 keeps Option bounds"""
    if first_arm(lo, hi):
        return ("u64", None, None)
    if ext:
        if (lo or 0) >= 0 and (hi or 0) >= 0:
            return ("u64", None if lo is None else as_u(64, lo), None if hi is None else as_u(64, hi))
        return ("i64", I64_MIN if lo is None else lo, I64_MAX if hi is None else hi)
    mn, mx = (lo or 0), (I64_MAX if hi is None else hi)
    if mn >= 0:
        m = as_u(64, mx)
        for bits in (8, 16, 32):
            if m <= (1 << bits) - 1:
                return (f"u{bits}", as_u(bits, mn), as_u(bits, mx))
        return ("u64", as_u(64, mn), as_u(64, mx))
    amp = max(abs(mn + 1), mx)
    for bits in (8, 16, 32):
        if amp <= (1 << (bits - 1)) - 1:
            return (f"i{bits}", as_i(bits, mn), as_i(bits, mx))
    return ("i64", mn, mx)


def int_coded(t):
    """parser widening, first run, `into_asn` + `IntegerRange::parse`, second run"""
    lo, hi, ext = t["lo"], t["hi"], t["ext"]
    if (lo == 0 and hi is None) or (lo is None and hi == I64_MAX):
        lo, hi = None, None                                     # asn/integer.rs
    ty, a, b = cascade(lo, hi, ext)
    if ty == "u64":
        a = None if a is None else as_i(64, a)                  # into_asn: `v as i64`
        b = None if b is None else as_i(64, b)
    # proc_macro/range.rs
    if a is None and b is None:
        pass
    elif a == 0 and b is None:
        a = None
    elif a is None:
        a = 0 if b > 0 else I64_MIN
    elif b is None:
        b = I64_MAX
    ty, a, b = cascade(a, b, ext)
    width = int(ty[1:])
    signed = ty[0] == "i" or width == 64                       # `T::from_i64(-1).to_i64() < 0`
    return (a, b, ext, width, signed)


class Expect:
    """expected descriptors of the zoo definitions; `coded=False`: the source constraints as they are"""

    def __init__(self, defs):
        self.defs = defs
        self.dev = {}            # qualified definition name -> set of deviation classes touched

    def qual(self, mod, name):
        """qualified name of the definition a reference in module `mod` denotes: the module's own
        definition, else the (unique) definition of that name in another zoo module (IMPORTS)"""
        q = f"{mod}::{rust_name(name)}"
        if q in self.defs:
            return q
        cands = [k for k in self.defs if k.split("::", 1)[1] == rust_name(name)]
        if len(cands) == 1:
            return cands[0]
        raise Unsupported(f"reference to unknown type {name}")

    def default_val(self, mod, ty, lit):
        t = ty
        while t["k"] == "ref":
            q = self.qual(mod, t["name"])
            mod, t = q.split("::")[0], self.defs[q]
        if t["k"] == "int":
            return f"(int {int(lit)})"
        if t["k"] == "bool":
            return f"(bool {b01(lit == 'TRUE')})"
        if t["k"] == "str":
            return "(str " + vlib.hexs(lit[1:-1].encode()) + ")"
        if t["k"] == "enum":
            return f"(enum {t['items'].index(lit)})"
        raise Unsupported(f"DEFAULT of kind {t['k']}")

    def structured(self, ty):
        return ty["k"] in ("seq", "set", "choice", "enum")

    def definition(self, qual, coded, note):
        ty = self.defs[qual]
        mod = qual.split("::")[0]
        d = self.position(mod, ty, coded, note)
        return d if self.structured(ty) else f"(seq 0 1 none (m {d}))"

    def type_tag(self, mod, ty, depth=0):
        """X.680: the tag of a type — its own tag, else the tag of the referenced type, else the
        universal tag of its kind; an untagged CHOICE is placed by the smallest tag of its ROOT
        alternatives (X.680 8.6 / X.691 21.1; all alternatives untagged: automatic tags [0]..)"""
        if ty["tag"] is not None:
            return ty["tag"]
        k = ty["k"]
        if k == "ref":
            q = self.qual(mod, ty["name"])
            if depth > 20:
                raise Unsupported(f"tag of reference {ty['name']}")
            return self.type_tag(q.split("::")[0], self.defs[q], depth + 1)
        if k == "choice":
            alts = ty["alts"] if ty["root"] is None else ty["alts"][:ty["root"]]
            if not alts:
                raise Unsupported("tag of a CHOICE without root alternatives")
            if all(a["ty"]["tag"] is None for a in ty["alts"]):
                return (CLASS_RANK["CONTEXT"], 0)
            return min(self.type_tag(mod, a["ty"], depth + 1) for a in alts)
        return (0, UNIVERSAL.get(ty.get("cs", k), UNIVERSAL.get(k, 99)))

    def sort_key(self, comps, mod=None):
        any_explicit = any(c["ty"]["tag"] is not None for c in comps)

        def key(ic):
            i, c = ic
            if c["ty"]["tag"] is not None:
                return c["ty"]["tag"]
            if not any_explicit:
                return (CLASS_RANK["CONTEXT"], i)
            return self.type_tag(mod, c["ty"])
        return key

    def position(self, mod, ty, coded, note):
        k = ty["k"]
        if k == "bool":
            return "(bool)"
        if k == "null":
            return "(null)"
        if k == "int":
            a, b, e, w, s = int_coded(ty)
            if not coded:
                ia, ib = ty["lo"], ty["hi"]
                for declared, got in ((ia, a), (ib, b)):
                    if declared is not None and got != declared:
                        note("consts.int_widened" if got is None else "consts.int_bound_changed")
                if ib is None and b is not None:
                    note("consts.int_open_max")
                if ia is None and a is not None:
                    note("consts.int_open_min")
                a, b = ia, ib
            return f"(int {opt_s(a)} {opt_s(b)} {b01(e)} {w} {b01(s)})"
        if k in ("str", "oct", "bits", "seqof", "setof"):
            mn, mx, e = size_coded(ty["size"])
            if not coded:
                i_mn, i_mx, i_e = size_ideal(ty["size"])
                # a lower bound 0 / MIN and "no lower bound" say the same about a size
                if (i_mn or 0) == (mn or 0):
                    i_mn = mn
                if i_mx is None and mx is not None:
                    note("consts.size_open_max")
                mn, mx, e = i_mn, i_mx, i_e
            head = {"str": f"str {ty.get('cs')}", "oct": "oct", "bits": "bits", "seqof": "seqof", "setof": "seqof"}[k]
            tail = ""
            if k in ("seqof", "setof"):
                tail = " " + self.position(mod, ty["elem"], coded, note)
            return f"({head} {opt_s(mn)} {opt_s(mx)} {b01(e)}{tail})"
        if k == "enum":
            n = len(ty["items"])
            std = n if ty["root"] is None else ty["root"]
            return f"(enum {std} {n} {b01(ty['root'] is not None)})"
        if k == "choice":
            n = len(ty["alts"])
            std = n if ty["root"] is None else ty["root"]
            alts = " ".join(self.position(mod, a["ty"], coded, note) for a in ty["alts"])
            return f"(choice {std} {n} {b01(ty['root'] is not None)} {alts})"
        if k in ("seq", "set"):
            comps = list(ty["comps"])
            root = ty["root"]
            if root == 0:
                raise Unsupported("leading extension marker (F-ext-first)")
            nroot = len(comps) if root is None else root
            parts = [list(enumerate(comps))[:nroot], list(enumerate(comps))[nroot:]]
            if k == "set":
                # X.691 21.1: only the root components are sorted, the additions stay as written
                parts = [sorted(parts[0], key=self.sort_key(comps, mod)), parts[1]]
            fields, std_opt = [], 0
            for pi, part in enumerate(parts):
                for _, c in part:
                    kind, lit = c["pres"]
                    if pi == 1 and kind == "m":
                        kind = "o"                  # every addition is OPTIONAL or DEFAULT in the codec's eyes
                    if pi == 0 and kind != "m":
                        std_opt += 1
                    d = self.position(mod, c["ty"], coded, note)
                    if kind == "d":
                        fields.append(f"(d {self.default_val(mod, c['ty'], lit)} {d})")
                    else:
                        fields.append(f"({kind} {d})")
            ea = "none" if root is None else str(root - 1)
            return f"(seq {std_opt} {len(comps)} {ea}" + "".join(" " + f for f in fields) + ")"
        if k == "ref":
            return self.definition(self.qual(mod, ty["name"]), coded, note)
        raise Unsupported(k)

    def both(self, qual):
        """(ideal, as coded, sorted deviation classes)"""
        dev = set()
        ideal = self.definition(qual, False, dev.add)
        coded = self.definition(qual, True, lambda c: None)
        return ideal, coded, sorted(dev)


# --------------------------------------------------------------- zoo_shape from the enumeration only

def shape_table():
    """index k of `S<k>` -> (kinds, number of root components or None), the loop of gen_zoo.shapes()"""
    out = []
    for n in range(0, 4):
        for kinds in itertools.product(gen_zoo.KINDS, repeat=n):
            for marker in [None] + list(range(0, n + 1)):
                if marker == 0:
                    continue            # `n == 0 and marker == 0` and the leading marker are both skipped
                out.append((kinds, marker))
    return out


def shape_header(kinds, marker):
    """what the shape demands: STD_OPTIONAL_FIELDS, FIELD_COUNT, EXTENDED_AFTER_FIELD, kinds as the codec sees them"""
    nroot = len(kinds) if marker is None else marker
    std_opt = sum(1 for k in kinds[:nroot] if k != "m")
    seen = [k if (i < nroot or k != "m") else "o" for i, k in enumerate(kinds)]
    return std_opt, len(kinds), (None if marker is None else marker - 1), seen


# --------------------------------------------------------------------------------- Lean evaluation

LEAN_PRELUDE = """import Asn1Verif.Codegen.ConstsModel
/- GENERATED by tools/consts_stream.py: `defConstsOf` of the source of every compiled zoo type -/
open Asn1Verif Asn1Verif.Uper Asn1Verif.Codegen.ConstsModel

def oN (o : Option Nat) : String := match o with | none => "none" | some n => toString n
def oI (o : Option Int) : String := match o with | none => "none" | some n => toString n
def bS (b : Bool) : String := if b then "1" else "0"
def csS : Charset → String
  | .utf8 => "utf8" | .ia5 => "ia5" | .numeric => "num" | .printable => "print" | .visible => "vis"
def hexS (bs : List (BitVec 8)) : String :=
  if bs.isEmpty then "-" else
  String.join (bs.map fun b =>
    let d := "0123456789abcdef".toList
    String.ofList [d.getD (b.toNat / 16) '?', d.getD (b.toNat % 16) '?'])
def vS : Val → String
  | .bool b => "(bool " ++ bS b ++ ")"
  | .int i => "(int " ++ toString i ++ ")"
  | .enum i => "(enum " ++ toString i ++ ")"
  | .str b => "(str " ++ hexS b ++ ")"
  | _ => "(?)"
mutual
partial def tS : Ty → String
  | .bool => "(bool)"
  | .null => "(null)"
  | .int a b e w s => "(int " ++ oI a ++ " " ++ oI b ++ " " ++ bS e ++ " " ++ toString w ++ " " ++ bS s ++ ")"
  | .enum s t e => "(enum " ++ toString s ++ " " ++ toString t ++ " " ++ bS e ++ ")"
  | .str c a b e => "(str " ++ csS c ++ " " ++ oN a ++ " " ++ oN b ++ " " ++ bS e ++ ")"
  | .oct a b e => "(oct " ++ oN a ++ " " ++ oN b ++ " " ++ bS e ++ ")"
  | .bits a b e => "(bits " ++ oN a ++ " " ++ oN b ++ " " ++ bS e ++ ")"
  | .seqOf a b e t => "(seqof " ++ oN a ++ " " ++ oN b ++ " " ++ bS e ++ " " ++ tS t ++ ")"
  | .seq so fc ea fs => "(seq " ++ toString so ++ " " ++ toString fc ++ " " ++ oN ea ++ fS true fs ++ ")"
  | .choice s t e as => "(choice " ++ toString s ++ " " ++ toString t ++ " " ++ bS e ++ fS false as ++ ")"
partial def fS (kinds : Bool) : Fields → String
  | .nil => ""
  | .cons k t r =>
    (if kinds then
      (match k with
       | .m => " (m " ++ tS t ++ ")"
       | .o => " (o " ++ tS t ++ ")"
       | .d v => " (d " ++ vS v ++ " " ++ tS t ++ ")")
     else " " ++ tS t) ++ fS kinds r
end
"""

LEAN_CS = {"utf8": ".utf8", "ia5": ".ia5", "num": ".numeric", "print": ".printable", "vis": ".visible"}


def lean_opt_int(x):
    return "none" if x is None else f"(some ({x}))"


def lean_size(sz):
    """`Size` as the front end delivers it (the Lean model starts behind the parser)"""
    mn, mx, e = size_coded(sz)
    e = "true" if e else "false"
    if mn is None and mx is None:
        return ".any"
    if sz["fixed"] or mn == mx:
        return f"(.fix {mn} {e})"
    return f"(.range {mn} {mx} {e})"


class ToLean:
    def __init__(self, expect):
        self.x = expect

    def val(self, sx):
        v = uperlib.parse_sx(sx)
        if v[0] == "int":
            return f"(.int ({v[1]}))"
        if v[0] == "bool":
            return "(.bool true)" if v[1] == "1" else "(.bool false)"
        if v[0] == "enum":
            return f"(.enum {v[1]})"
        if v[0] == "str":
            raw = b"" if v[1] == "-" else bytes.fromhex(v[1])
            return "(.str [" + ", ".join(f"{b}#8" for b in raw) + "])"
        raise Unsupported("default " + sx)

    def src(self, mod, ty):
        k = ty["k"]
        if k == "bool":
            return ".boolean"
        if k == "null":
            return ".null"
        if k == "int":
            return f"(.integer {lean_opt_int(ty['lo'])} {lean_opt_int(ty['hi'])} {'true' if ty['ext'] else 'false'})"
        if k == "str":
            return f"(.string {LEAN_CS[ty['cs']]} {lean_size(ty['size'])})"
        if k == "oct":
            return f"(.octetString {lean_size(ty['size'])})"
        if k == "bits":
            return f"(.bitString {lean_size(ty['size'])})"
        if k in ("seqof", "setof"):
            return f"(.{'sequenceOf' if k == 'seqof' else 'setOf'} {lean_size(ty['size'])} {self.src(mod, ty['elem'])})"
        if k == "enum":
            n = len(ty["items"])
            if ty["root"] is None:
                return f"(Src.enumSrc {n} none)"
            return f"(Src.enumSrc {ty['root']} (some {n - ty['root']}))"
        if k == "choice":
            def alts(l):
                out = ".nil"
                for a in reversed(l):
                    out = f"(.cons {self.src(mod, a['ty'])} {out})"
                return out
            if ty["root"] is None:
                return f"(Src.choiceSrc {alts(ty['alts'])} none)"
            return f"(Src.choiceSrc {alts(ty['alts'][:ty['root']])} (some {alts(ty['alts'][ty['root']:])}))"
        if k in ("seq", "set"):
            comps = list(enumerate(ty["comps"]))
            root = ty["root"]
            nroot = len(comps) if root is None else root
            parts = [comps[:nroot], comps[nroot:]]
            if k == "set":
                parts = [sorted(parts[0], key=self.x.sort_key(ty["comps"], mod)), parts[1]]

            def cl(l):
                out = ".nil"
                for _, c in reversed(l):
                    kind, lit = c["pres"]
                    pres = {"m": ".mandatory", "o": ".optional"}.get(kind)
                    if kind == "d":
                        pres = f"(.default {self.val(self.x.default_val(mod, c['ty'], lit))})"
                    out = f"(.cons {pres} {self.src(mod, c['ty'])} {out})"
                return out
            if k == "seq":
                if root is None:
                    return f"(Src.sequenceSrc {cl(parts[0])} none)"
                return f"(Src.sequenceSrc {cl(parts[0])} (some {cl(parts[1])}))"
            ea = "none" if root is None else f"(some {root - 1})"
            return f"(.set {cl(parts[0] + parts[1])} {ea})"
        if k == "ref":
            q = self.x.qual(mod, ty["name"])
            return f"(.ref {self.src(q.split('::')[0], self.x.defs[q])})"
        raise Unsupported(k)


def lean_eval(defs_src):
    """{name: Lean term} -> {name: descriptor text printed by the model} (raises Broken)"""
    os.makedirs(vlib.WORK, exist_ok=True)
    path = os.path.join(vlib.WORK, "ConstsZoo.lean")
    body = LEAN_PRELUDE + "".join(
        f'#eval IO.println ("{n} " ++ tS (defConstsOf {t}))\n' for n, t in sorted(defs_src.items()))
    open(path, "w", encoding="utf-8").write(body)
    vlib.lake_build(["Asn1Verif.Codegen.ConstsModel"])
    rc, out, err = vlib.sh(["lake", "env", "lean", path], cwd=vlib.LEAN, timeout=1800)
    if rc != 0:
        raise vlib.Broken("evaluation of Codegen/ConstsModel.lean on the zoo sources (.work/ConstsZoo.lean)", (out + err)[-3000:])
    res = {}
    for line in out.splitlines():
        n, _, d = line.partition(" ")
        if "::" in n:
            res[n] = d
    return res


# -------------------------------------------------------------------------------------- the stream

class ConstsFromSource(UperBase):
    name = "consts"
    exhaustive = True

    def __init__(self, prop="C08"):
        """`prop`: the property whose check runs the stream.  The recorded deviations of the generator
        (DEVIATIONS, findings of C08) are reported as findings by C08's check only; the UPER checks that
        include the stream (their statements quantify over the *source* schema, the codec sees only the
        descriptor) accept a recorded deviation as coded — each has its own finding of that property
        where it matters (C02 F-semi, F-64k) — and report every other difference between source and
        descriptor"""
        super().__init__()
        self.prop = prop

    def prepare(self, harness, driver):
        super().prepare(harness, driver)
        if getattr(self, "_ready", None) == harness:
            return
        self._ready = harness
        self.defs, self.bad = load_zoo()
        self.x = Expect(self.defs)
        self.want = {}          # name -> (ideal, coded, classes) | Unsupported text
        for n in self.names:
            try:
                if n not in self.defs:
                    raise Unsupported(self.bad.get(n, "no such definition in harness/zoo/*.asn1"))
                self.want[n] = self.x.both(n)
            except (Unsupported, KeyError, ValueError) as e:
                self.want[n] = f"{e}"
        self.shapes = shape_table()
        self.open = {f.get("class") for f in vlib.load_findings(self.prop)}
        # the Lean model on the same sources
        self.lean, self.lean_err = {}, None
        tl = ToLean(self.x)
        terms = {}
        for n in self.names:
            if isinstance(self.want[n], tuple):
                try:
                    terms[n] = tl.src(n.split("::")[0], self.defs[n])
                except (Unsupported, KeyError, ValueError):
                    pass
        try:
            self.lean = lean_eval(terms)
        except vlib.Broken as b:
            self.lean_err = b.what + "\n" + (b.detail or "")

    def gen(self, rng, tier):
        reqs = []
        for n in self.names:
            w = self.want[n]
            exp = w[1] if isinstance(w, tuple) else "(null)"
            reqs.append(f"uper desccheck {n} {exp}")
        # the identifiers of the variants of every generated enum (ENUMERATED, CHOICE), in the order of the ASN.1
        # text — the index on the wire is the position in that list
        for n in self.names:
            d = self.defs.get(n)
            if d is not None and d["k"] in ("enum", "choice"):
                items = d["items"] if d["k"] == "enum" else [a["name"] for a in d["alts"]]
                reqs.append(f"uper variants {n} {','.join(rust_name(i) for i in items)}")
        return reqs

    def shape_check(self, name, real):
        m = re.fullmatch(r"zoo_shape::S(\d+)", name)
        if not m:
            return None
        k = int(m.group(1))
        if k >= len(self.shapes):
            return f"S{k} is beyond the shape enumeration of tools/gen_zoo.py"
        kinds, marker = self.shapes[k]
        std_opt, count, ea, seen = shape_header(kinds, marker)
        nd = uperlib.parse_sx(real)
        got = (int(nd[1]), int(nd[2]), None if nd[3] == "none" else int(nd[3]), [f[0] for f in nd[4:]])
        if got != (std_opt, count, ea, seen):
            return (f"shape {kinds}/{marker} demands STD_OPTIONAL_FIELDS={std_opt} FIELD_COUNT={count} "
                    f"EXTENDED_AFTER_FIELD={ea} kinds={seen}, generated {got}")
        return None

    def oracle(self, req, ans):
        name = self.req_name(req)
        if req.split(" ")[1] == "variants":
            want = "ok " + req.split(" ")[3]
            return None if ans == want else f"variants of the generated enum are {ans[:200]}, the text declares {want[3:][:200]}"
        if not ans.startswith("ok "):
            return f"type cannot be described: {ans[:100]}"
        real = ans[3:]
        w = self.want.get(name)
        if not isinstance(w, tuple):
            return f"the source of {name} is not understood by tools/consts_stream.py ({w}): the tie is broken"
        ideal, coded, classes = w
        why = self.shape_check(name, real)
        if why:
            return why
        if real == ideal:
            return None
        if classes and real == coded:
            if classes[0] in self.open:
                return DEVIATIONS[classes[0]] + f": source says {ideal}"
            return None
        return f"generated descriptor constants do not match the source: want {ideal}" + (
            f" (as coded: {coded})" if coded != ideal else "")

    def finding_class(self, req, ans):
        """the recorded deviation, exactly as coded — any other difference from the source is none"""
        w = self.want.get(self.req_name(req))
        if req.split(" ")[1] == "variants":
            return None
        if isinstance(w, tuple) and w[2] and ans.startswith("ok ") and ans[3:] == w[1]:
            return w[2][0]
        return None

    def compare(self, req, impl, model):
        """driver: echo of the expected descriptor iff consistent; Lean model: the same descriptor"""
        if impl != model:
            return False
        name = self.req_name(req)
        if not impl.startswith("ok ") or req.split(" ")[1] == "variants":
            return True
        if self.lean_err is not None:
            return False
        return self.lean.get(name) == impl[3:]

    def tag(self, req, ans):
        name = self.req_name(req)
        w = self.want.get(name)
        mod = name.split("::")[0]
        if req.split(" ")[1] == "variants":
            return f"variants:{mod}:{ans.split(' ')[0]}"
        if not isinstance(w, tuple):
            return f"consts:{mod}:unsupported"
        lean = "lean=" + ("same" if self.lean.get(name) == ans[3:] else "DIFF")
        dev = ("dev:" + "+".join(c.split(".")[1] for c in w[2])) if w[2] else "exact"
        return f"consts:{mod}:{dev}:{lean}"
