"""Grammar-based generator of abstract ASN.1 schemas, their pretty-printers and their canonical dumps.

Shared by tools/checks/c07.py (stream `parse`) and tools/checks/c12.py (stream `resolve`).
Everything here is independent of the implementation and of the Lean model: the expected dump of
a schema is computed from the abstract schema `A` (its *meaning*), never from an answer.

Abstract schema (plain Python data)
-----------------------------------
module  = {"name": str, "oid": None | [comp], "imports": [(what:[str], from:str, oid|None)],
           "items": [("vr", name, ty, lit) | ("def", name, tag, ty)]}        (source order)
comp    = ("n", name) | ("u", number) | ("nn", name, number)
tag     = None | ("U"|"A"|"C"|"P", number)
ty      = ("bool",) | ("null",)
        | ("int", lo, hi, ext, consts)      lo, hi: None (MIN/MAX) | int | ("ref", name)
        | ("str", charset, size) | ("oct", size) | ("bit", size, consts)
        | ("seq"|"set", [field], extpos, ext2)   extpos: None | number of components textually
                                                 before the marker (0 = leading marker);
                                                 ext2: None | position of a second marker
        | ("seqof"|"setof", size, ty)
        | ("enum", [(name, number|None)], extpos)
        | ("choice", [(name, tag, ty)], extpos)
        | ("ref", name)
size    = ("any",) | ("fix", n, ext) | ("range", a, b, ext)     n, a, b: int | ("ref", name) |
                                                                 "MIN" | "MAX" (range bounds only)
field   = (name, tag, ty, presence)          presence: None | "opt" | ("dflt", lit | ("ref", name))
lit     = ("b", bool) | ("i", int) | ("s", [tok]) | ("o", hexdigits:str) | ("ob", bits:str)
          a string literal is given by its tokens (each a separator-free word or one separator
          character, a separator may come first; no token at all: the empty literal); it denotes
          — and is rendered as — the tokens joined by single blanks.  "o" / "ob" may be empty.

Canonical dump (one token without blanks; the same text is produced by harness/src/parse.rs and
lean/Driver/ParseStream.lean from the parsed model)
------------------------------------------------------------------------------------------------
(mod,NAME,OID,(imports,IMP..),(vrefs,VR..),(defs,DEF..))
OID  = - | (oid,COMP..)          COMP = (n,NAME) | (u,NUM) | (nn,NAME,NUM)
IMP  = (imp,FROM,OID,(w,NAME..))
VR   = (vr,NAME,TY,LIT)          DEF = (def,NAME,TAG,TY)        TAG = - | U5 | A5 | C5 | P5
TY   = bool | null | (int,LO,HI,EXT,(c,(NAME,NUM)..)) | (str,CHARSET,SIZE) | (oct,SIZE)
     | (bit,SIZE,(c,(NAME,NUM)..)) | (opt,TY) | (seq,ROOTS,FIELD..) | (set,ROOTS,FIELD..)
     | (seqof,SIZE,TY) | (setof,SIZE,TY) | (enum,ROOTS,(v,NAME,NUM|-)..)
     | (choice,ROOTS,(a,NAME,TAG,TY)..) | (ref,NAME,TAG)
LO,HI = - | INT | @name          EXT = 0 | 1
ROOTS = - (not extensible) | number of root components (= extension_after + 1)
SIZE = any | (fix,N,EXT) | (range,A,B,EXT)      N = NUM | @name
FIELD = (f,NAME,TAG,TY,DEFAULT)  DEFAULT = - | LIT | @name
LIT  = (b,0|1) | (s,HEX of the UTF-8 bytes) | (i,INT) | (o,HEX) | (e,TYPE,VARIANT)
"""

SIZE_MAX = 2 ** 63 - 1
I64_MAX = 2 ** 63 - 1
I64_MIN = -(2 ** 63)

SEPARATORS = set(":;=(){}.,[]'\"")

RESERVED = {w.lower() for w in """
END IMPORTS FROM BEGIN SIZE OF OPTIONAL DEFAULT MIN MAX TRUE FALSE WITH COMPONENTS PRESENT ABSENT
STRING INTEGER BOOLEAN NULL UTF8String IA5String NumericString PrintableString VisibleString OCTET
BIT ENUMERATED CHOICE SEQUENCE SET UNIVERSAL APPLICATION PRIVATE DEFINITIONS AUTOMATIC TAGS H B
EXPLICIT IMPLICIT EXPORTS ALL
""".split()}

CHARSETS = {"utf8": "UTF8String", "ia5": "IA5String", "numeric": "NumericString",
            "printable": "PrintableString", "visible": "VisibleString"}

SYL = ["ab", "ba", "co", "de", "el", "fa", "gi", "ho", "ix", "jo", "ka", "lu", "me", "no", "op",
       "pa", "qu", "ra", "si", "to", "ur", "ve", "wa", "xe", "yo", "za"]


# ------------------------------------------------------------------------------------ tokens

def T(s):
    return ("t", s)


def S(c):
    return ("s", c)


def kw(word, style):
    """a keyword in the case style of the layout (0 = as written, 1 = lower, 2 = mixed)"""
    if style == 1:
        return T(word.lower())
    if style == 2:
        return T("".join(c.lower() if i % 2 else c.upper() for i, c in enumerate(word)))
    return T(word)


class Printer:
    """abstract schema → token list.  `kwstyle`: keyword case; `paren_size`: `(SIZE(..))` in
    parentheses where both forms are accepted"""

    def __init__(self, kwstyle=0, paren_size=True, min_max_explicit=False):
        self.k = kwstyle
        self.paren_size = paren_size
        self.min_max_explicit = min_max_explicit

    def kw(self, w):
        return kw(w, self.k)

    def num(self, n):
        return T(str(n))

    def bound(self, b, default_kw):
        if b is None or b in ("MIN", "MAX"):
            # MIN / MAX stand where a value reference may stand (`min`, `max`, `Max` are value
            # references): these two keywords are written in upper case in every keyword style
            return T(default_kw)
        if isinstance(b, tuple):
            return T(b[1])
        return self.num(b)

    def ext(self, e):
        return [S(","), S("."), S("."), S(".")] if e else []

    def size(self, s, always_paren=False):
        if s[0] == "any":
            return []
        inner = [self.kw("SIZE"), S("(")]
        if s[0] == "fix":
            inner += [self.bound(s[1], "MIN")] + self.ext(s[2])
        else:
            inner += [self.bound(s[1], "MIN"), S("."), S("."), self.bound(s[2], "MAX")] + self.ext(s[3])
        inner += [S(")")]
        if self.paren_size or always_paren:
            return [S("(")] + inner + [S(")")]
        return inner

    def consts(self, cs):
        if not cs:
            return []
        out = [S("{")]
        for i, (n, v) in enumerate(cs):
            if i:
                out.append(S(","))
            out += [T(n), S("("), self.num(v), S(")")]
        return out + [S("}")]

    def tag(self, t):
        if t is None:
            return []
        cls = {"U": "UNIVERSAL", "A": "APPLICATION", "P": "PRIVATE"}.get(t[0])
        return [S("[")] + ([self.kw(cls)] if cls else []) + [self.num(t[1]), S("]")]

    def lit(self, l):
        if isinstance(l, tuple) and l[0] == "ref":
            return [T(l[1])]
        k = l[0]
        if k == "b":
            return [self.kw("TRUE" if l[1] else "FALSE")]
        if k == "i":
            return [self.num(l[1])]
        if k == "s":
            # tokens of the literal; the renderer keeps exactly one blank between them
            return [S('"')] + [("lit", w) for w in l[1]] + [("litend", '"')]
        if k == "o":
            return [S("'")] + ([("lit", l[1])] if l[1] else []) + [("litend", "'"), ("glue", "H")]
        if k == "ob":
            return [S("'")] + ([("lit", l[1])] if l[1] else []) + [("litend", "'"), ("glue", "B")]
        raise ValueError(l)

    def ty(self, t):
        k = t[0]
        if k == "bool":
            return [self.kw("BOOLEAN")]
        if k == "null":
            return [self.kw("NULL")]
        if k == "int":
            _, lo, hi, ext, cs = t
            out = [self.kw("INTEGER")] + self.consts(cs)
            if lo is None and hi is None and not ext and not self.min_max_explicit:
                return out
            return out + [S("("), self.bound(lo, "MIN"), S("."), S("."), self.bound(hi, "MAX")] + self.ext(ext) + [S(")")]
        if k == "str":
            return [self.kw(CHARSETS[t[1]])] + self.size(t[2])
        if k == "oct":
            return [self.kw("OCTET"), self.kw("STRING")] + self.size(t[1])
        if k == "bit":
            return [self.kw("BIT"), self.kw("STRING")] + self.consts(t[2]) + self.size(t[1])
        if k in ("seqof", "setof"):
            return [self.kw("SEQUENCE" if k == "seqof" else "SET")] + self.size(t[1]) + [self.kw("OF")] + self.ty(t[2])
        if k in ("seq", "set"):
            _, fields, extpos, ext2 = t
            out = [self.kw("SEQUENCE" if k == "seq" else "SET"), S("{")]
            items = []
            for i, f in enumerate(fields):
                if extpos == i or ext2 == i:
                    items.append([S("."), S("."), S(".")])
                items.append(self.field(f))
            if extpos == len(fields) or ext2 == len(fields):
                items.append([S("."), S("."), S(".")])
            for i, it in enumerate(items):
                if i:
                    out.append(S(","))
                out += it
            return out + [S("}")]
        if k == "enum":
            _, variants, extpos = t
            items = []
            for i, (n, num) in enumerate(variants):
                if extpos == i:
                    items.append([S("."), S("."), S(".")])
                items.append([T(n)] + ([S("("), self.num(num), S(")")] if num is not None else []))
            if extpos == len(variants):
                items.append([S("."), S("."), S(".")])
            out = [self.kw("ENUMERATED"), S("{")]
            for i, it in enumerate(items):
                if i:
                    out.append(S(","))
                out += it
            return out + [S("}")]
        if k == "choice":
            _, alts, extpos = t
            items = []
            for i, (n, tg, ty) in enumerate(alts):
                if extpos == i:
                    items.append([S("."), S("."), S(".")])
                items.append([T(n)] + self.tag(tg) + self.ty(ty))
            if extpos == len(alts):
                items.append([S("."), S("."), S(".")])
            out = [self.kw("CHOICE"), S("{")]
            for i, it in enumerate(items):
                if i:
                    out.append(S(","))
                out += it
            return out + [S("}")]
        if k == "ref":
            return [T(t[1])]
        raise ValueError(t)

    def field(self, f):
        name, tg, ty, pres = f
        out = [T(name)] + self.tag(tg) + self.ty(ty)
        if pres == "opt":
            out.append(self.kw("OPTIONAL"))
        elif pres is not None:
            out += [self.kw("DEFAULT")] + self.lit(pres[1])
        return out

    def oid(self, o):
        if o is None:
            return []
        out = [S("{")]
        for c in o:
            if c[0] == "n":
                out.append(T(c[1]))
            elif c[0] == "u":
                out.append(self.num(c[1]))
            else:
                out += [T(c[1]), S("("), self.num(c[2]), S(")")]
        return out + [S("}")]

    def module(self, m):
        out = [T(m["name"])] + self.oid(m["oid"])
        out += [self.kw("DEFINITIONS"), self.kw("AUTOMATIC"), self.kw("TAGS"), S(":"), S(":"), S("="), self.kw("BEGIN")]
        if m["imports"]:
            out.append(self.kw("IMPORTS"))
            for what, frm, oid in m["imports"]:
                for i, w in enumerate(what):
                    if i:
                        out.append(S(","))
                    out.append(T(w))
                out += [self.kw("FROM"), T(frm)] + self.oid(oid)
            out.append(S(";"))
        for it in m["items"]:
            if it[0] == "vr":
                _, name, ty, lit = it
                out += [("nl",), T(name)] + self.ty(ty) + [S(":"), S(":"), S("=")] + self.lit(lit)
            else:
                _, name, tg, ty = it
                out += [("nl",), T(name), S(":"), S(":"), S("=")] + self.tag(tg) + self.ty(ty)
        return out + [("nl",), self.kw("END")]


def render(tokens, rng=None):
    """token list → text.  Without `rng`: the canonical rendering (one blank between tokens, a
    line break before every top-level item).  With `rng`: random blanks / line breaks / tabs, no
    blank at all where a separator makes it unnecessary.  A literal is always rendered as its
    tokens joined by single blanks, tight against the delimiters, i.e. exactly the string it
    denotes (the real parser rebuilds string literals from token columns; other layouts of
    the inside of a literal are property C13's subject)."""
    out = []
    prev = None          # kind of the previous real token: "t" | "s"
    for tok in tokens:
        k = tok[0]
        if k == "nl":
            out.append("\n" if rng is None else rng.choice(["\n", "\n\n", "\n  ", " ", "\r\n"]))
            prev = "ws"
            continue
        if k == "lit":
            # tight after the opening delimiter, then exactly one blank between tokens
            out.append(" " if prev == "lit" else "")
            out.append(tok[1])
            prev = "lit"
            continue
        if k == "litend":
            out.append(tok[1])
            prev = "s"
            continue
        if k == "glue":
            out.append(tok[1])
            prev = "t"
            continue
        text = tok[1]
        if prev is None or prev == "ws":
            sep = ""
        elif rng is None:
            sep = " "
        else:
            need = (prev == "t" and k == "t")
            r = rng.below(10)
            if r < 5:
                sep = " "
            elif r < 6:
                sep = "  "
            elif r < 7:
                sep = "\n    "
            elif r < 8:
                sep = "\t"
            else:
                sep = " " if need else ""
        out.append(sep)
        out.append(text)
        prev = k
    return "".join(out)


# ------------------------------------------------------------------------------------ dumps

def sx(head, args):
    return "(" + ",".join([head] + list(args)) + ")"


def d_tag(t):
    return "-" if t is None else f"{t[0]}{t[1]}"


def d_bool(b):
    return "1" if b else "0"


def d_lit(l):
    k = l[0]
    if k == "b":
        return sx("b", [d_bool(l[1])])
    if k == "i":
        return sx("i", [str(l[1])])
    if k == "s":
        return sx("s", [" ".join(l[1]).encode("utf-8").hex()])
    if k == "o":
        h = l[1]
        if len(h) % 2:
            h = h + "0"            # X.680 23.12: trailing zero digit
        return sx("o", [h.lower()])
    if k == "ob":
        b = l[1]
        b = b + "0" * ((8 - len(b) % 8) % 8)     # X.680: trailing zero bits
        return sx("o", ["".join(f"{int(b[i:i + 8], 2):02x}" for i in range(0, len(b), 8))])
    if k == "e":
        return sx("e", [l[1], l[2]])
    raise ValueError(l)


def d_ext(extpos):
    return "-" if extpos is None else str(extpos)


def d_consts(cs):
    return sx("c", [f"({n},{v})" for n, v in cs])


class ResolveError(Exception):
    def __init__(self, cls):
        super().__init__(cls)
        self.cls = cls


class Env:
    """how names resolve when the resolved dump is computed: value references and definitions
    visible from one module (its own, then through its imports)"""

    def __init__(self, module, scope=None):
        self.m = module
        self.scope = scope if scope is not None else [module]

    def _imported_from(self, mod, name):
        for what, frm, oid in mod["imports"]:
            if name in what:
                for c in self.scope:
                    if (c["oid"] is not None and oid is not None and c["oid"] == oid) or nice(c["name"]) == nice(frm):
                        return c
                return None
        return None

    def value(self, name, mod=None, depth=0):
        mod = mod or self.m
        for it in mod["items"]:
            if it[0] == "vr" and it[1] == name:
                return it[3]
        nxt = self._imported_from(mod, name)
        if nxt is None or depth > len(self.scope) + 1:
            return None
        return self.value(name, nxt, depth + 1)

    def definition(self, name, mod=None, depth=0):
        mod = mod or self.m
        for it in mod["items"]:
            if it[0] == "def" and it[1] == name:
                return it[3]
        nxt = self._imported_from(mod, name)
        if nxt is None or depth > len(self.scope) + 1:
            return None
        return self.definition(name, nxt, depth + 1)


def nice(name):
    """what a module / import name denotes: the property does not allow any change here; the
    expected dump carries the declared name"""
    return name


class Dumper:
    """canonical dump of an abstract schema.  `env=None`: the unresolved model (references stay
    `@name`); with an `Env`: the resolved model (references replaced by what they denote)"""

    def __init__(self, env=None):
        self.env = env

    def ibound(self, b):
        if b is None:
            return "-"
        if isinstance(b, tuple):
            if self.env is None:
                return "@" + b[1]
            v = self.env.value(b[1])
            if v is None:
                raise ResolveError("resolve-reference")
            if v[0] != "i":
                raise ResolveError("resolve-literal")
            return str(v[1])
        return str(b)

    def sval(self, b, default):
        """a size bound as a number or a reference; MIN → 0, MAX → the model's `unbounded`"""
        if b == "MIN":
            return 0
        if b == "MAX":
            return SIZE_MAX
        if isinstance(b, tuple):
            if self.env is None:
                return b
            v = self.env.value(b[1])
            if v is None:
                raise ResolveError("resolve-reference")
            if v[0] != "i":
                raise ResolveError("resolve-literal")
            return v[1]
        return b

    def size(self, s):
        def show(x):
            return "@" + x[1] if isinstance(x, tuple) else str(x)
        if s[0] == "any":
            return "any"
        if s[0] == "fix":
            return sx("fix", [show(self.sval(s[1], 0)), d_bool(s[2])])
        a, b, e = self.sval(s[1], 0), self.sval(s[2], SIZE_MAX), s[3]
        # meaning-preserving normal forms: no constraint at all, and a single permitted size
        if a == 0 and b == SIZE_MAX and not e:
            return "any"
        if a == b:
            return sx("fix", [show(a), d_bool(e)])
        return sx("range", [show(a), show(b), d_bool(e)])

    def default(self, d, fty):
        if isinstance(d, tuple) and d[0] == "ref":
            if self.env is None:
                return "@" + d[1]
            # a name after DEFAULT: an enumeration item of the referenced type, else a value
            if fty[0] == "ref":
                target = self.env.definition(fty[1])
                if target is not None and target[0] == "enum" and any(n == d[1] for n, _ in target[1]):
                    return d_lit(("e", fty[1], d[1]))
            v = self.env.value(d[1])
            if v is None:
                raise ResolveError("resolve-reference")
            return d_lit(v)
        return d_lit(d)

    def ty(self, t):
        k = t[0]
        if k in ("bool", "null"):
            return k
        if k == "int":
            _, lo, hi, ext, cs = t
            return sx("int", [self.ibound(lo), self.ibound(hi), d_bool(ext), d_consts(cs)])
        if k == "str":
            return sx("str", [t[1], self.size(t[2])])
        if k == "oct":
            return sx("oct", [self.size(t[1])])
        if k == "bit":
            return sx("bit", [self.size(t[1]), d_consts(t[2])])
        if k in ("seqof", "setof"):
            # the implementation resolves the element type before the size
            inner = self.ty(t[2])
            return sx(k, [self.size(t[1]), inner])
        if k in ("seq", "set"):
            _, fields, extpos, ext2 = t
            if ext2 is not None:
                # `{ root1, ..., additions, ..., root2 }`: the components after the second marker
                # belong to the root; a model with a single position cannot express it and the
                # expected dump says so explicitly
                roots = f"{extpos}+{len(fields) - ext2}"
            else:
                roots = d_ext(extpos)
            fs = []
            for (n, tg, ty, pres) in fields:
                tyd = self.ty(ty)
                if pres == "opt":
                    fs.append(sx("f", [n, d_tag(tg), sx("opt", [tyd]), "-"]))
                elif pres is None:
                    fs.append(sx("f", [n, d_tag(tg), tyd, "-"]))
                else:
                    fs.append(sx("f", [n, d_tag(tg), tyd, self.default(pres[1], ty)]))
            return sx(k, [roots] + fs)
        if k == "enum":
            return sx("enum", [d_ext(t[2])] + [sx("v", [n, "-" if num is None else str(num)]) for n, num in t[1]])
        if k == "choice":
            return sx("choice", [d_ext(t[2])] + [sx("a", [n, d_tag(tg), self.ty(ty)]) for n, tg, ty in t[1]])
        if k == "ref":
            return sx("ref", [t[1], "-"])
        raise ValueError(t)

    def oid(self, o):
        if o is None:
            return "-"
        return sx("oid", [sx(c[0], [str(x) for x in c[1:]]) for c in o])

    def module(self, m):
        imps = [sx("imp", [nice(frm), self.oid(oid), sx("w", what)]) for what, frm, oid in m["imports"]]
        # the implementation resolves all value references first, then the definitions
        vrs = [sx("vr", [it[1], self.ty(it[2]), d_lit(it[3])]) for it in m["items"] if it[0] == "vr"]
        defs = [sx("def", [it[1], d_tag(it[2]), self.ty(it[3])]) for it in m["items"] if it[0] == "def"]
        return sx("mod", [nice(m["name"]), self.oid(m["oid"]), sx("imports", imps), sx("vrefs", vrs), sx("defs", defs)])


def dump_u(m):
    return Dumper().module(m)


def dump_r(m, scope=None):
    """resolved dump, or `err:<class>`"""
    try:
        return Dumper(Env(m, scope)).module(m)
    except ResolveError as e:
        return "err:" + e.cls


# ------------------------------------------------------------------------------------ generator

class Gen:
    """random abstract schemas from a `vlib.Rng`"""

    def __init__(self, rng, max_depth=3, p_ref=6):
        self.r = rng
        self.max_depth = max_depth
        self.p_ref = p_ref       # a bound / size / default is a reference with chance 1/p_ref
        self.n = 0
        self.used_names = set()
        self.int_refs = []       # names of integer value references usable in ranges (with value)
        self.size_refs = []      # … usable in sizes (non-negative)
        self.any_refs = []       # (name, lit) usable after DEFAULT
        self.enum_defs = []      # (type name, [variant names]) for `DEFAULT variant`
        self.type_names = []

    # -- names
    def _syl(self, k):
        return "".join(self.r.choice(SYL) for _ in range(k))

    def fresh(self, kind):
        """kind: 'type' | 'field' | 'value' | 'module'"""
        while True:
            self.n += 1
            base = self._syl(self.r.range(1, 3))
            if kind in ("type", "module"):
                s = base.capitalize()
                if self.r.chance(1, 4):
                    s += "-" + self._syl(1).capitalize()
                if self.r.chance(1, 2):
                    s += str(self.n)
            else:
                s = base
                if self.r.chance(1, 4):
                    s += "-" + self._syl(1)
                if self.r.chance(1, 2):
                    s += str(self.n)
            low = s.lower()
            if low in RESERVED or low.endswith("module") or "--" in s or low in self.used_names:
                continue
            self.used_names.add(low)
            return s

    # -- leaves
    def tag(self, p=3):
        if not self.r.chance(1, p):
            return None
        return (self.r.choice("UACP"), self.r.choice([0, 1, 2, 30, 31, 127, 128, 16383, self.r.below(1000)]))

    def int_value(self):
        c = self.r.below(10)
        if c < 5:
            return self.r.range(-300, 300)
        if c < 7:
            return self.r.choice([0, 1, -1, 127, 128, 255, 256, 65535, 65536, 2 ** 31 - 1, 2 ** 31, 2 ** 32, -2 ** 31])
        if c < 8:
            return self.r.choice([I64_MAX, I64_MIN, I64_MAX - 1, I64_MIN + 1])
        return self.r.range(-2 ** 40, 2 ** 40)

    def int_range(self):
        """(lo, hi, ext) outside the two widening quirks"""
        while True:
            lo = None if self.r.chance(1, 6) else self.int_value()
            hi = None if self.r.chance(1, 6) else self.int_value()
            if isinstance(lo, int) and isinstance(hi, int) and lo > hi:
                lo, hi = hi, lo
            if self.int_refs and self.r.chance(1, self.p_ref):
                nm, v = self.r.choice(self.int_refs)
                if self.r.chance(1, 2):
                    lo = ("ref", nm)
                else:
                    hi = ("ref", nm)
            ext = self.r.chance(1, 4)
            if lo == 0 and hi is None:
                continue        # quirk family `int_0_max`
            if lo is None and hi == I64_MAX:
                continue        # quirk family `int_min_i64max`
            return lo, hi, ext

    def consts(self, signed):
        if not self.r.chance(1, 4):
            return []
        out = []
        for _ in range(self.r.range(1, 4)):
            v = self.r.range(-50, 50) if signed else self.r.range(0, 64)
            if self.r.chance(1, 10):
                v = I64_MIN if signed and self.r.chance(1, 2) else (I64_MAX if signed else 2 ** 64 - 1)
            out.append((self.fresh("field"), v))
        return out

    def size_num(self):
        c = self.r.below(10)
        if c < 6:
            return self.r.range(0, 40)
        if c < 8:
            return self.r.choice([0, 1, 2, 255, 256, 65535, 65536, 2 ** 32])
        return self.r.range(0, 2 ** 20)

    def size(self, p_any=2):
        if self.r.chance(1, p_any):
            return ("any",)
        def atom():
            if self.size_refs and self.r.chance(1, self.p_ref):
                return ("ref", self.r.choice(self.size_refs)[0])
            return self.size_num()
        if self.r.chance(1, 3):
            return ("fix", atom(), self.r.chance(1, 3))
        a, b = atom(), atom()
        if isinstance(a, int) and isinstance(b, int) and a > b:
            a, b = b, a
        if self.r.chance(1, 8):
            a = "MIN" if self.r.chance(1, 2) else 0
        if self.r.chance(1, 8):
            b = "MAX" if self.r.chance(3, 4) else SIZE_MAX
        ext = self.r.chance(1, 4)
        return ("range", a, b, ext)

    def word(self):
        alphabet = "abcdefghijklmnopqrstuvwxyzABCDEFGHIJKLMNOPQRSTUVWXYZ0123456789_-+*/<>!?#$%&|^~@"
        while True:
            w = "".join(self.r.choice(alphabet) for _ in range(self.r.range(1, 8)))
            if "--" in w or "/*" in w or "*/" in w:
                continue
            return w

    def lit(self, kind=None):
        k = kind or self.r.choice(["b", "i", "s", "o", "ob"])
        if k == "b":
            return ("b", self.r.chance(1, 2))
        if k == "i":
            return ("i", self.int_value())
        if k == "s":
            # any tokens, a separator in first position and the empty literal included
            toks = []
            for _ in range(0 if self.r.chance(1, 12) else self.r.range(1, 4)):
                toks.append(self.r.choice(sorted(SEPARATORS - {'"'})) if self.r.chance(1, 4) else self.word())
                # more than one blank in front of a token that is not the first: blanks are part of the
                # token text here, so rendering and expectation keep them (`" ".join`)
                if len(toks) > 1 and self.r.chance(1, 3):
                    toks[-1] = " " * self.r.range(1, 3) + toks[-1]
            return ("s", toks)
        if k == "o":
            n = 0 if self.r.chance(1, 12) else self.r.range(1, 5)
            return ("o", "".join(self.r.choice("0123456789abcdefABCDEF") for _ in range(2 * n)))
        n = 0 if self.r.chance(1, 12) else self.r.range(1, 3)
        return ("ob", "".join(self.r.choice("01") for _ in range(8 * n)))

    # -- types
    def leaf(self):
        c = self.r.below(12)
        if c == 0:
            return ("bool",)
        if c == 1:
            return ("null",)
        if c <= 4:
            if self.r.chance(1, 3):
                return ("int", None, None, False, self.consts(True))
            lo, hi, ext = self.int_range()
            return ("int", lo, hi, ext, self.consts(True))
        if c <= 6:
            return ("str", self.r.choice(sorted(CHARSETS)), self.size())
        if c == 7:
            return ("oct", self.size())
        if c == 8:
            return ("bit", self.size(), self.consts(False))
        if c == 9:
            return self.enum()
        if self.type_names and self.r.chance(2, 3):
            return ("ref", self.r.choice(self.type_names))
        return ("ref", self.fresh("type"))

    def enum(self):
        n = self.r.range(1, 5)
        vs = []
        for _ in range(n):
            vs.append((self.fresh("field"), self.r.choice([None, None, self.r.range(0, 100), 2 ** 32])))
        extpos = self.r.range(1, n) if self.r.chance(1, 3) else None
        return ("enum", vs, extpos)

    def ty(self, depth=0):
        if depth >= self.max_depth or self.r.chance(1, 2):
            return self.leaf()
        c = self.r.below(5)
        if c == 0:
            return (self.r.choice(["seqof", "setof"]), self.size(), self.ty(depth + 1))
        if c == 1:
            n = self.r.range(1, 4)
            alts = [(self.fresh("field"), self.tag(4), self.ty(depth + 1)) for _ in range(n)]
            extpos = self.r.range(1, n) if self.r.chance(1, 3) else None
            return ("choice", alts, extpos)
        n = self.r.range(0, 5)
        fields = [self.field(depth + 1) for _ in range(n)]
        extpos = None
        if n >= 1 and self.r.chance(1, 3):
            extpos = self.r.range(1, n)
        return (self.r.choice(["seq", "set"]), fields, extpos, None)

    def field(self, depth):
        ty = self.ty(depth)
        pres = None
        c = self.r.below(6)
        if c == 0:
            pres = "opt"
        elif c == 1:
            pres = ("dflt", self.default_for(ty))
        return (self.fresh("field"), self.tag(4), ty, pres)

    def default_for(self, ty):
        """a literal of a kind that suits the type (the parser does not check; the generator
        also produces mismatching kinds now and then), or a reference"""
        if ty[0] == "ref":
            for (tn, vs) in self.enum_defs:
                if tn == ty[1] and self.r.chance(3, 4):
                    return ("ref", self.r.choice(vs))
        if self.any_refs and self.r.chance(1, self.p_ref):
            return ("ref", self.r.choice(self.any_refs)[0])
        if self.r.chance(1, 8):
            return self.lit()
        k = {"bool": "b", "int": "i", "str": "s", "oct": "o", "bit": "ob"}.get(ty[0])
        return self.lit(k)

    # -- modules
    def oid(self):
        out = []
        for _ in range(self.r.range(0, 5)):
            c = self.r.below(3)
            if c == 0:
                out.append(("n", self.fresh("field")))
            elif c == 1:
                out.append(("u", self.r.choice([0, 1, 2, 5, 40, 1000, 2 ** 32, 2 ** 64 - 1])))
            else:
                out.append(("nn", self.fresh("field"), self.r.range(0, 300)))
        return out

    def value_reference(self, kind=None):
        k = kind or self.r.choice(["i", "i", "i", "b", "s", "o"])
        name = self.fresh("value")
        lit = self.lit(k)
        if k == "i":
            lo, hi, ext = (None, None, False) if self.r.chance(2, 3) else self.int_range()
            ty = ("int", lo, hi, ext, [])
        elif k == "b":
            ty = ("bool",)
        elif k == "s":
            ty = ("str", "utf8", ("any",))
        else:
            ty = ("oct", ("any",))
        if self.r.chance(1, 8):
            ty = ("ref", self.fresh("type"))
        return ("vr", name, ty, lit)

    def module(self, n_defs=None, with_refs=True, imports=True):
        m = {"name": self.fresh("module"),
             "oid": self.oid() if self.r.chance(1, 3) else None,
             "imports": [], "items": []}
        if imports and self.r.chance(1, 3):
            for _ in range(self.r.range(1, 3)):
                what = [self.fresh(self.r.choice(["type", "value"])) for _ in range(self.r.range(1, 3))]
                m["imports"].append((what, self.fresh("module"), self.oid() if self.r.chance(1, 2) else None))
        vrs = []
        if with_refs:
            for _ in range(self.r.range(0, 3)):
                vr = self.value_reference()
                vrs.append(vr)
                if vr[3][0] == "i":
                    self.int_refs.append((vr[1], vr[3][1]))
                    if 0 <= vr[3][1] <= 2 ** 32:
                        self.size_refs.append((vr[1], vr[3][1]))
                self.any_refs.append((vr[1], vr[3]))
        n_defs = n_defs if n_defs is not None else self.r.range(1, 5)
        names = [self.fresh("type") for _ in range(n_defs)]
        # a definition may refer to EARLIER definitions only: reference cycles (`A ::= A`, A -> B -> A)
        # are not legal ASN.1 (they used to make the real resolver/converter overflow its stack:
        # repaired) — that is property C14's domain, not C07/C12's
        base = list(self.type_names)
        defs = []
        for idx, nm in enumerate(names):
            self.type_names = base + names[:idx]
            ty = self.ty(0)
            if ty[0] == "enum":
                self.enum_defs.append((nm, [v for v, _ in ty[1]]))
            defs.append(("def", nm, self.tag(5), ty))
        self.type_names = base + names
        items = vrs + defs
        # source order: any interleaving of value references and definitions
        if self.r.chance(1, 2):
            keyed = [(self.r.below(1000), i, it) for i, it in enumerate(items)]
            keyed.sort()
            items = [it for _, _, it in keyed]
        m["items"] = items
        return m


def map_ty(t, f):
    """rebuild a type bottom-up, `f` applied to every node after its children"""
    k = t[0]
    if k in ("seqof", "setof"):
        t = (k, t[1], map_ty(t[2], f))
    elif k in ("seq", "set"):
        t = (k, [(n, tg, map_ty(ty, f), p) for n, tg, ty, p in t[1]], t[2], t[3])
    elif k == "choice":
        t = (k, [(n, tg, map_ty(ty, f)) for n, tg, ty in t[1]], t[2])
    return f(t)


def walk_ty(t):
    yield t
    k = t[0]
    if k in ("seqof", "setof"):
        yield from walk_ty(t[2])
    elif k in ("seq", "set"):
        for _, _, ty, _ in t[1]:
            yield from walk_ty(ty)
    elif k == "choice":
        for _, _, ty in t[1]:
            yield from walk_ty(ty)


def kinds_of(m):
    ks = set()
    for it in m["items"]:
        ty = it[2] if it[0] == "vr" else it[3]
        for t in walk_ty(ty):
            ks.add(t[0])
            if t[0] in ("seq", "set"):
                if t[2] is not None:
                    ks.add("ext")
                for f in t[1]:
                    if f[3] == "opt":
                        ks.add("opt")
                    elif f[3] is not None:
                        ks.add("dflt")
                    if f[1] is not None:
                        ks.add("tag")
    return ks


def depth_of(t):
    k = t[0]
    if k in ("seqof", "setof"):
        return 1 + depth_of(t[2])
    if k in ("seq", "set"):
        return 1 + max([depth_of(ty) for _, _, ty, _ in t[1]] + [0])
    if k == "choice":
        return 1 + max([depth_of(ty) for _, _, ty in t[1]] + [0])
    return 0


def subst_module(m, values):
    """the literal variant: every use of a value reference in an INTEGER range, a SIZE constraint
    or after DEFAULT replaced by the literal it names (`values`: name → lit); definitions of the
    value references and the imports stay"""
    def atom(x, kind):
        if isinstance(x, tuple) and x[0] == "ref" and x[1] in values:
            v = values[x[1]]
            if kind == "num":
                return v[1] if v[0] == "i" else x
            return v
        return x

    def f(t):
        k = t[0]
        if k == "int":
            return ("int", atom(t[1], "num"), atom(t[2], "num"), t[3], t[4])
        if k == "str":
            return ("str", t[1], fsize(t[2]))
        if k == "oct":
            return ("oct", fsize(t[1]))
        if k == "bit":
            return ("bit", fsize(t[1]), t[2])
        if k in ("seqof", "setof"):
            return (k, fsize(t[1]), t[2])
        if k in ("seq", "set"):
            fs = []
            for (n, tg, ty, pres) in t[1]:
                if isinstance(pres, tuple) and pres[0] == "dflt":
                    pres = ("dflt", atom(pres[1], "lit"))
                fs.append((n, tg, ty, pres))
            return (k, fs, t[2], t[3])
        return t

    def fsize(s):
        if s[0] == "fix":
            return ("fix", atom(s[1], "num"), s[2])
        if s[0] == "range":
            return ("range", atom(s[1], "num"), atom(s[2], "num"), s[3])
        return s

    out = dict(m)
    items = []
    for it in m["items"]:
        if it[0] == "vr":
            items.append(("vr", it[1], map_ty(it[2], f), it[3]))
        else:
            items.append(("def", it[1], it[2], map_ty(it[3], f)))
    out["items"] = items
    return out


def refs_used(m):
    """names used as value references (ranges, sizes, defaults) in a module"""
    used = []

    def atom(x):
        if isinstance(x, tuple) and x[0] == "ref":
            used.append(x[1])

    for it in m["items"]:
        ty = it[2] if it[0] == "vr" else it[3]
        for t in walk_ty(ty):
            k = t[0]
            if k == "int":
                atom(t[1]); atom(t[2])
            sz = {"str": 2, "oct": 1, "bit": 1, "seqof": 1, "setof": 1}.get(k)
            if sz is not None and t[sz][0] != "any":
                for x in t[sz][1:-1]:
                    atom(x)
            if k in ("seq", "set"):
                for f in t[1]:
                    if isinstance(f[3], tuple):
                        atom(f[3][1])
    return used
