#!/usr/bin/env python3
"""Copies the table of seeded/RESULTS.md into DESIGN.md 8.2 (between the SEEDED markers)."""
import os
import re
import sys

HERE = os.path.normpath(os.path.join(os.path.dirname(os.path.abspath(__file__)), ".."))
sys.path.insert(0, os.path.join(HERE, "tools"))
import seeded_run  # noqa: E402

seeded_run.write_results()
table = open(os.path.join(HERE, "seeded", "RESULTS.md")).read().split("\n", 2)[2].strip()
rows = [l for l in table.splitlines() if l.startswith("| C")]
missed = [l for l in rows if "MISSED" in l or "does not apply" in l]
own = sum(1 for l in rows if re.match(r"\| (C\d\d)_\w+ \| \1 \|", l) and re.search(r"\| [^|]*\b" + l.split("|")[2].strip() + r"\b[^|]*\| [^|]*\| [^|]*\|\s*$", l))
summary = (f"{len(rows)} seeded changes; {len(rows) - len(missed)} are caught by at least one of the checks run on them, "
           f"{len(missed)} are not (listed as MISSED / not applicable below).\n\n")
block = "<!-- SEEDED-BEGIN -->\n" + summary + table + "\n<!-- SEEDED-END -->"
p = os.path.join(HERE, "DESIGN.md")
s = open(p).read()
if "@@SEEDED_RESULTS@@" in s:
    s = s.replace("@@SEEDED_RESULTS@@", block)
else:
    s = re.sub(r"<!-- SEEDED-BEGIN -->.*?<!-- SEEDED-END -->", lambda m: block, s, flags=re.S)
open(p, "w").write(s)
print(summary.strip())
for l in missed:
    print(l[:160])
