"""Generic check runner: proof obligations + correspondence + oracle + verdict for one property."""
import collections
import json
import os
import sys
import time
import traceback

import vlib
from vlib import Broken


class Stream:
    """One correspondence stream.  Subclasses define:
      name
      gen(rng, tier)        -> list of request lines (corpus / boundary families first)
      oracle(req, ans)      -> None if the implementation's answer satisfies the property, else text
      tag(req, ans)         -> short label for the branch/kind histogram
      nontrivial(req, ans)  -> bool
      finding_class(req, ans) -> name of the known-finding class the request lies in, or None
      compare(req, impl, model) -> bool (default: exact equality of the two answers)
    """
    name = "?"
    exhaustive = False

    def gen(self, rng, tier):
        return []

    def oracle(self, req, ans):
        return None

    def tag(self, req, ans):
        return ans.split(" ")[0] if ans else "?"

    def nontrivial(self, req, ans):
        return True

    def finding_class(self, req, ans):
        return None

    def compare(self, req, impl, model):
        return impl == model

    def harness_env(self):
        return None

    def oracle_model(self, req, ans, model_ans):
        """oracle that may use an *independent specification* carried in the driver's answer
        (never the code mirror's own result)"""
        return None

    needs_diag = False

    def oracle_diag(self, req, ans, ans_diag):
        """comparison of the default build with the +descriptive-deserialize-errors build"""
        return None

    def prepare(self, harness, driver):
        """called once before gen(); may talk to the binaries (e.g. ask the zoo for descriptors)"""
        return


class Spec:
    prop = "C00"
    streams = []
    assumptions = []
    trusted_base = []
    needs_diag_build = False

    def extra_obligations(self, tier):
        """additional proof-side checks; raise Broken"""
        return


def _tier_scale(tier):
    return 1 if tier == "quick" else 10


def run_check(spec, tier, seed):
    t0 = time.time()
    prop = spec.prop
    broken = []          # list of (what, detail)
    notes = []
    thm = {}
    lemma_count = 0
    # ---- 1. translator, proofs, audit
    try:
        notes.append(vlib.run_translator())
    except Broken as b:
        broken.append((b.what, b.detail))
    try:
        thm = vlib.audit(prop)
        vlib.grep_forbidden(prop)
        lemma_count = vlib.count_lemmas(prop)
        # further theorem files that strengthen the tie of this property (audited the same way)
        for extra in getattr(spec, "extra_prop_files", []):
            thm.update(vlib.audit(extra))
            vlib.grep_forbidden(extra)
            lemma_count += vlib.count_lemmas(extra)
        spec.extra_obligations(tier)
        if tier == "thorough":
            vlib.leanchecker(prop)
    except Broken as b:
        broken.append((b.what, b.detail))
    # ---- 2. binaries
    driver = harness = None
    try:
        driver = vlib.build_driver()
    except Broken as b:
        broken.append((b.what, b.detail))
    try:
        harness = vlib.build_harness()
    except Broken as b:
        broken.append((b.what, b.detail))
    # ---- 3. streams
    rng = vlib.Rng(seed).fork(prop)
    findings = vlib.load_findings(prop)
    open_classes = {f.get("class"): f for f in findings}
    stream_cov = {}
    samples = []
    oracle_failures = []       # (stream, req, ans, why)
    known_hits = collections.OrderedDict()
    disagreements = []         # (stream, req, impl, model)
    total = 0
    distinct_nontrivial = set()
    passes = [(tier, rng)]
    done_widen = False
    while passes:
        ptier, prng = passes.pop(0)
        for st in spec.streams:
            if harness is None:
                break
            st.prepare(harness, driver)
            reqs = st.gen(prng.fork(st.name), ptier)
            reqs = list(collections.OrderedDict.fromkeys(reqs))
            impl = vlib.run_lines(harness, reqs, env=st.harness_env())
            # the model may be slow on long values: only the implementation is watched for hangs
            model = vlib.run_lines(driver, reqs, line_timeout=1800) if driver else None
            diag = None
            if st.needs_diag:
                try:
                    hd = vlib.build_harness(diag=True)
                    diag = vlib.run_lines(hd, reqs, env=st.harness_env())
                except Broken as b:
                    broken.append((b.what, b.detail))
            hist = collections.Counter()
            for i, (r, a) in enumerate(zip(reqs, impl)):
                if a == "not-run":
                    hist["not-run (after repeated hangs)"] += 1
                    continue
                hist[st.tag(r, a)] += 1
                if st.nontrivial(r, a):
                    distinct_nontrivial.add(st.name + " " + r)
                why = st.oracle(r, a)
                if why is None and model is not None:
                    why = st.oracle_model(r, a, model[i])
                if why is None and diag is not None:
                    why = st.oracle_diag(r, a, diag[i])
                cls = st.finding_class(r, a)
                if why is not None:
                    if cls is not None and cls in open_classes:
                        known_hits.setdefault(cls, (r, a, why))
                    else:
                        oracle_failures.append((st.name, r, a, why))
                if model is not None and not st.compare(r, a, model[i]):
                    if cls is not None and cls in open_classes and why is None:
                        continue   # repaired behaviour inside an open finding class (DESIGN.md 6)
                    disagreements.append((st.name, r, a, model[i]))
            total += len(reqs)
            c = stream_cov.setdefault(st.name, {"requests": 0, "histogram": collections.Counter(),
                                                 "exhaustive_part": st.exhaustive})
            c["requests"] += len(reqs)
            c["histogram"].update(hist)
            for r, a in list(zip(reqs, impl))[:3]:
                if len(samples) < 24:
                    samples.append({"stream": st.name, "request": r[:300], "impl": a[:300]})
        # widen the search when something no longer checks and no failing input is known yet
        if (broken or disagreements) and not oracle_failures and not done_widen and tier == "quick":
            done_widen = True
            passes.append(("thorough", rng.fork("widen")))
    # ---- 4. shrink disagreements
    shrunk = []
    if disagreements and harness and driver:
        by_name = {s.name: s for s in spec.streams}
        for (sn, r, a, m) in disagreements[:5]:
            st = by_name[sn]

            if a == "hang":
                # every candidate that still hangs would cost the whole watchdog time: keep it as it is
                shrunk.append((sn, r, a, m))
                continue

            def still_bad(c, st=st):
                ia = vlib.run_lines(harness, [c], env=st.harness_env(), line_timeout=20)[0]
                ma = vlib.run_lines(driver, [c], line_timeout=120)[0]
                return ia != "bad-op" and ma != "bad-op" and not st.compare(c, ia, ma)
            try:
                small = vlib.shrink(r, still_bad, budget=120)
            except Exception:
                small = r
            ia = vlib.run_lines(harness, [small], env=st.harness_env())[0]
            ma = vlib.run_lines(driver, [small], line_timeout=1800)[0]
            shrunk.append((sn, small, ia, ma))
    # ---- 5. verdict
    violations = 0
    out_lines = []
    n = 0
    if oracle_failures:
        # one replay per stream: the shortest failing request (plus up to 4 more in the same file)
        by_stream = collections.OrderedDict()
        for (sn, r, a, why) in oracle_failures:
            by_stream.setdefault(sn, []).append((r, a, why))
        for sn, fl in by_stream.items():
            fl.sort(key=lambda x: (len(x[0]), x[0]))
            r, a, why = fl[0]
            n += 1
            detail = f"implementation answered: {a}\n{len(fl)} failing requests in this run; the smallest first"
            path = vlib.write_replay(prop, n, "oracle", f"stream {sn}: {why}", detail, [x[0] for x in fl[:5]])
            out_lines.append(f"VIOLATION property={prop} replay={path}")
            violations += 1
    elif broken or shrunk or disagreements:
        detail = []
        for w, d in broken:
            detail.append("BROKEN: " + w)
            detail.extend("  " + l for l in (d or "").splitlines()[-40:])
        reqs = []
        for (sn, r, ia, ma) in shrunk:
            detail.append(f"CORRESPONDENCE stream {sn}: implementation `{ia}` vs model `{ma}` on the request below")
            reqs.append(r)
        what = "; ".join([w for w, _ in broken] + [f"correspondence stream {sn}" for sn, *_ in shrunk]) or "correspondence"
        n += 1
        path = vlib.write_replay(prop, n, "no-failing-input-found", what, "\n".join(detail), reqs)
        out_lines.append(f"VIOLATION property={prop} replay={path} no-failing-input-found")
        violations += 1
    for cls, (r, a, why) in known_hits.items():
        f = open_classes[cls]
        out_lines.append(f"KNOWN-FINDING: property={prop} id={f.get('id', cls)} {f.get('desc', '')} [e.g. `{r[:160]}` -> {why[:160]}]")
    # ---- 6. evidence
    for c in stream_cov.values():
        c["histogram"] = dict(c["histogram"].most_common(40))
    obligations = len(thm)
    coverage = {
        "obligations": obligations if obligations else 1,
        "discharged": obligations if (thm and not any(w.startswith(("lake build", "axiom", "forbidden", "Props", "leanchecker")) for w, _ in broken)) else 0,
        "checker_cmd": " && ".join(
            ["cd lean"] + [f"lake build Asn1Verif.Props.{q} && lake env lean Asn1Verif/Audit/{q}.lean"
                           for q in [prop] + list(getattr(spec, "extra_prop_files", []))]
            + ([f"lake env leanchecker Asn1Verif.Props.{prop}"] if tier == "thorough" else [])),
        "trusted_base": spec.trusted_base,
        "theorems": thm,
        "supporting_lemmas_in_imported_modules": lemma_count,
        "evaluations": total,
        "distinct_nontrivial": len(distinct_nontrivial),
        "rule": "requests generated per stream from VERIF_SEED (SplitMix64), boundary/corpus families first; a request is non-trivial when its stream's `nontrivial` predicate holds (e.g. the answer is not a trivial rejection); distinct by request text",
        "samples": samples,
        "streams": stream_cov,
        "correspondence_disagreements": len(disagreements),
        "oracle_failures": len(oracle_failures),
        "known_findings_reproduced": list(known_hits.keys()),
        "broken": [w for w, _ in broken],
        "exhaustive": any(s.exhaustive for s in spec.streams),
        "notes": notes,
    }
    vlib.write_evidence(prop, tier, seed, coverage, spec.assumptions, time.time() - t0, violations)
    for l in out_lines:
        print(l)
    print(f"{prop}: tier={tier} seed={seed} theorems={obligations} requests={total} "
          f"disagreements={len(disagreements)} oracle_failures={len(oracle_failures)} "
          f"broken={len(broken)} wall={time.time() - t0:.1f}s")
    return 1 if violations else 0


def run_replay(spec, path):
    meta, reqs = vlib.read_replay(path)
    for m in meta:
        print(m)
    harness = vlib.build_harness()
    try:
        driver = vlib.build_driver()
    except Broken as b:
        driver = None
        print("model driver does not build:", b.what)
    by_prefix = {s.name: s for s in spec.streams}
    impl = vlib.run_lines(harness, reqs)
    model = vlib.run_lines(driver, reqs, line_timeout=1800) if driver else ["-"] * len(reqs)
    bad = 0
    for r, a, m in zip(reqs, impl, model):
        st = None
        for s in spec.streams:
            if r.split(" ")[0] in getattr(s, "prefixes", [s.name]):
                st = s
                break
        why = st.oracle(r, a) if st else None
        print("request:", r)
        print("  implementation:", a)
        print("  model:         ", m)
        print("  oracle:        ", "ok" if why is None else "FAIL " + why)
        if why is not None or (driver and st and not st.compare(r, a, m)):
            bad += 1
    return 1 if bad else 0
