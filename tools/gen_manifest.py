#!/usr/bin/env python3
"""Writes /verif/MANIFEST.json from the table below (kept in one place so that it stays valid)."""
import json
import os

HERE = os.path.normpath(os.path.join(os.path.dirname(os.path.abspath(__file__)), ".."))

ALL = ["C%02d" % i for i in range(1, 21)]

# property -> (design_ref, level text, level note, technique)
CLAIMED = {
    "C11": (
        "DESIGN.md 5 (C11), 2.1 L0",
        "Lean 4 theorems about a byte-level mirror of slice.rs/buffer.rs: for every source, destination, offsets and length "
        "(no size bound) the copy behind all read_bits*/write_bits* changes exactly the addressed bits, the optimised bulk "
        "copy is extensionally equal to the bit-by-bit copy, failures are errors (never panics), and the growable buffer keeps "
        "its invariant (exactly ceil(bit_len/8) bytes, zero padding) over every sequence of writes. Full strength after five "
        "fix: commits. The mirror is tied to the code by a differential stream (exhaustive for small buffers) and an "
        "independent naive Vec<bool> oracle.",
        "Trusted: Lean kernel, axioms propext/Classical.choice/Quot.sound only; constants translator; the hand-written mirror "
        "is validated, not derived (differential execution of harness vs compiled Lean driver); dev profile only.",
        "Lean 4 proof (induction over copy loops, byte-mask lemmas) + model/implementation correspondence stream",
    ),
    "C20": (
        "DESIGN.md 5 (C20)",
        "Lean 4 theorems about a byte-level mirror of the DER primitives (basic/distinguished/mod.rs, rw/der.rs): for every "
        "u64 length, every tag of the four classes with number < 64 (exactly: round trip iff number < 64), every i64/u64, "
        "both booleans (any non-zero octet reads as true) and every enumerated index, read (write x ++ post) = ok (x, post), "
        "so exactly the written bytes are consumed and values compose back-to-back; the readers never panic on any input. "
        "All statements unbounded and full strength. Tied to the code by the `der` stream (round trips and hostile reads).",
        "Trusted: Lean kernel, standard axioms only; hand-written mirror validated by differential execution; error classes "
        "of protocol::basic are recognised from their Debug text; dev profile only.",
        "Lean 4 proof (case split on byte counts, omega) + correspondence stream + independent Python oracle",
    ),
    "C15": (
        "DESIGN.md 5 (C15)",
        "Lean 4 theorems about a mirror of the two INTEGER-to-Rust-type cascades (asn1rs-model/src/rust.rs) with all casts, "
        "the parser widening, integer_range_str, attribute text and walker constants: for all i64 bounds the chosen type holds "
        "every permitted value (holds_iff gives the exact region: min given, or extensible with negative max), is the "
        "narrowest standard type of either signedness, extensible ranges are 64-bit, accessors/constants equal declared bounds. "
        "Where the code violates the property ((MIN..ub) and unconstrained INTEGER become unsigned) the full statement is kept, "
        "refuted on a witness, and the _partial theorem carries the excluded region; both are listed known findings. "
        "Tied to the real pipeline (tokenizer, parser, resolver, to_rust, RustCodeGenerator, AsnDefWriter) exhaustively over B x B.",
        "Trusted: Lean kernel, standard axioms; thresholds I8_MAX..U32_MAX from the translator; mirror validated by the "
        "`inttype` stream (about 3*10^5 requests per quick run); string extraction from generated code in harness/src/inttype.rs.",
        "Lean 4 proof (omega after unfolding the cascades) + exhaustive correspondence over the boundary set",
    ),
    "C10": (
        "DESIGN.md 5 (C10), 4",
        "Lean 4 theorems relating the L1 mirror of per/unaligned/mod.rs (Per/Prim.lean, on the bit-list abstraction justified by C11) "
        "to an independent X.691 specification (X691/Prim.lean): for every primitive and ALL in-range arguments the writer produces "
        "exactly the X.691 pattern, the reader returns the value and the untouched rest for arbitrary following bits, inadmissible "
        "arguments are errors, readers never panic and consume a prefix; octet and bit strings for EVERY length through the 16K "
        "fragment recursion (strong induction). Full strength after nine fix: commits, except the length determinant with ub >= 64K "
        "(constrained/63-bit field instead of 11.9.4.2): _partial theorems with the explicit hypothesis not LenDeviates, the full "
        "statements refuted on witnesses, and self-consistency proved in the deviating region; listed as known finding F-64k.",
        "Trusted: Lean kernel, standard axioms; constants translator; hand mirror validated by the `per` stream (1.3*10^5 requests "
        "quick, 5*10^6 thorough) and an independent Python X.691 oracle; X.691 transcribed from memory, cross-checked by the octet "
        "string vectors pinned in /repo/tests.",
        "Lean 4 proof (refinement of the mirror to an X.691 specification; strong induction over fragments) + correspondence stream",
    ),
    "C13": (
        "DESIGN.md 5 (C13)",
        "Lean 4 theorems about a char-level mirror of Tokenizer::parse: for every item list and every valid layout (whitespace, "
        "CR/LF, line comments, block comments nested to any depth with arbitrary bodies) the tokenizer returns exactly the items, "
        "each at the line/column where the renderer put its first character; two layouts give the same tokens. The block-comment "
        "case is stated relative to the translator-extracted flag TOKENIZER_OPEN_FLUSHES: with the fix: commit f6eaa14 it is true and "
        "the full-strength theorems (layout_invariance_of_open_flushes, layout_locations_of_open_flushes) apply. Also "
        "tokenize_panics_iff for C14.",
        "Trusted: Lean kernel, standard axioms (decide +kernel on concrete instances adds none); translator (separator sets, flush "
        "flag); mirror validated by the `tok` stream (layouts and character soup) and an independent Python renderer/position oracle.",
        "Lean 4 proof (induction over the item list with the tokenizer state as invariant) + correspondence stream",
    ),
    "C16": (
        "DESIGN.md 5 (C16)",
        "Lean 4 theorems about a mirror of assign_implicit_tags, sort_fields_canonically, TagResolver and the two-stage pipeline: "
        "for every field list the emitted SET order is a permutation, pairwise ordered by (root-before-extension, class rank "
        "U<A<C<P from the extracted derive(Ord) order, number), stable; automatic tags iff no component is tagged; SEQUENCE keeps "
        "textual order; set_order: the ROOT components are a permutation in canonical order, the extension additions keep the order "
        "of their definition and EXTENDED_AFTER_FIELD is untouched (after fix d2231e0); tag_const: every TAG constant is the X.680 "
        "tag (full after fixes 39afb7e, 0dc04e9, 9e775f3); resolver_total for EVERY module, cyclic or not (after fix bf3ee89), "
        "resolver_unchanged_on_acyclic. Where the code still deviates from X.680 8.6 (untagged CHOICE with automatically tagged "
        "alternatives, leading marker) the full statements are kept, refuted on witnesses, _partial theorems carry the hypotheses; "
        "two listed known findings.",
        "Trusted: Lean kernel, standard axioms; tag ranks/default tags from the translator; mirror validated by the `tags` stream "
        "running the real converter and attribute macro (all permutations of <= 4 components quick, <= 5 thorough); Python X.680 oracle. "
        "The wire order for values is covered by the UPER streams over the compiled SET types of the zoo.",
        "Lean 4 proof (mergeSort permutation/sortedness/stability, visiting-stack termination measure) + correspondence stream",
    ),
    "C09": (
        "DESIGN.md 5 (C09)",
        "Partial by nature: rustc cannot be modelled. Proved in Lean: the name-mangling logic (both layers) — every mangled name is "
        "non-empty and of identifier shape for every ASN.1 identifier (induction over the characters), exact characterisation of "
        "when a mangled name is a Rust keyword (after fix 3ce6062: only variant/type `Self` and module names), collision "
        "characterisation (names equal up to -/_ must collide). Explored, not proved: compilation of generated modules by one "
        "`cargo check` per run over about 500 generated modules with an adversarial identifier pool; rustc rejections inside 13 "
        "listed finding classes are KNOWN-FINDINGs, any other rejection is a violation.",
        "Trusted: Lean kernel, standard axioms; KEYWORDS from the translator; Rust 2021 keyword list as a Lean constant (cross-checked "
        "against syn); rustc itself, derive satisfiability and trait coherence are observed only.",
        "Lean 4 proof of the naming decision logic + rustc as oracle (exploration) for compilation",
    ),
    "C08": (
        "DESIGN.md 5 (C08)",
        "Lean 4 theorem attr_roundtrip (partial): on the fragment FieldOk (booleans, null, integers unconstrained or with two bounds, "
        "all string kinds, octet/bit strings with any size constraint, optional, default with bool/string/int/item literal, nested "
        "sequence_of/set_of, tagged complex; any tag, any const list) parsing the printed attribute tokens gives back the field, by "
        "structural induction over a token-level mirror of the generator's printer and the attribute macro's parser; each excluded "
        "region has a decided counterexample and is a listed known finding. The expanded descriptor constants are modelled by "
        "Codegen/ConstsModel.lean (Props/C08Consts.lean: consts_match* — the constants as a function of the source type, deviations "
        "refuted on witnesses) and tied by the stream `consts` (compiled zoo = Python expectation from the ASN.1 text = Lean model); "
        "the definition header is exercised on the real code by `attr reparse`.",
        "Trusted: Lean kernel, standard axioms; proc_macro2/syn tokenisation is part of the trusted base, checked by the `attr` stream; "
        "corpus = module texts of /repo/tests plus generated modules.",
        "Lean 4 proof (print/parse round trip by structural induction) + correspondence and reparse streams",
    ),
    "C03": (
        "DESIGN.md 5 (C03), 2.1 L2",
        "Lean 4 theorems about the compositional mirror of UperWriter/UperReader (Uper/Impl.lean), for EVERY field list and value "
        "list (no bound on the number of components): the bits of a SEQUENCE/SET are exactly [extension bit] ++ one presence bit per "
        "OPTIONAL/DEFAULT root component in order ++ root encodings ++ (if an addition is present: X.691 normally-small count-1, "
        "presence bitmap, open types); the extension bit is set iff the first addition is present; DEFAULT omitted iff equal to the "
        "default; refusal_iff / refusal_converse: the encoder fails only with ExtensionFieldsInconsistent (first addition absent, later "
        "present) or with a component's own error; the encoder never panics; on the reader side absent root components and additions "
        "decode to absent/default without moving the cursor. Full strength after the NULL-counting and DEFAULT-addition fix: commits.",
        "Trusted: Lean kernel, standard axioms; the faithful model of the position-patching scope machine (Uper/Scope.lean) is proved "
        "to refine the compositional mirror (Props/Scope.lean: write_refines for every descriptor and value, no_patch_beyond_written, "
        "read_refines_partial; audited by this check); both are validated against the real code by "
        "the `uper` streams: every SEQUENCE shape with <= 3 components x kinds x marker position x every presence pattern with the "
        "expected bits computed independently in Python, plus generated values of nested/SET/version types; stream `consts` ties "
        "the descriptors to the ASN.1 source of the zoo.",
        "Lean 4 proof (append-only frame lemma over the component list) + exhaustive shape correspondence stream",
    ),
    "C04": (
        "DESIGN.md 5 (C04)",
        "Lean 4 theorems: every L1 PER reader and the whole UPER reader mirror return Ok or Err on EVERY input (uper_total: "
        "dec t inp pos is never panic, for every type, input and position), never move the cursor backwards or beyond the declared "
        "length (no_overread), octet/bit/character strings allocate at most what the input holds, a SEQUENCE OF of elements that "
        "consume at least one bit has at most |input| elements (work_bound_partial); the DER readers never panic (from C20). "
        "The full work bound is false for zero-width elements under a 63-bit length field (not_workBounded, known finding). "
        "Real runtime facts (allocator, stack) are observed by the hostile stream only. Protobuf reader: proto_reader_total for the "
        "reader variant the translator flag PROTO_READER_CHECKED selects (true since fixes ff0cfec, 11b3503, b49d2ea). The scope "
        "machine's reader never panics (Props/Scope.lean read_never_panics).",
        "Trusted: Lean kernel, standard axioms; mirrors validated on hostile inputs (mutations of valid encodings, random and crafted "
        "bits) with the real readers under catch_unwind, process aborts attributed per request, a request without answer for 120 s "
        "is a hang; DER inputs are read from a slice and from a one-octet-per-call source; a declared bit length above 8*len is "
        "outside (debug assertion in Bits::from).",
        "Lean 4 proof (mutual structural induction over Ty/Fields, suffix property of L1 readers) + hostile correspondence stream",
    ),
    "C06": (
        "DESIGN.md 5 (C06)",
        "Lean 4 theorems about the UPER writer mirror: for every non-extensible constraint kind (INTEGER range incl. single-value, SIZE "
        "of all string kinds/lists/octet/bit strings, restricted alphabets, ENUMERATED/CHOICE index) a violating value gives Err of "
        "the matching kind; a violation anywhere in a value (inductive closure Violates over components, elements, alternatives at any "
        "depth) makes the whole encoding fail (violation_anywhere_is_an_error, ok_implies_no_violation); the encoder never panics; "
        "out-of-root values of extensible constraints are written in the extension form (first bit 1, unconstrained form). The "
        "'never a different value' half is the C01 round trip.",
        "Trusted: Lean kernel, standard axioms; mirror validated by the violation stream (harness-generated values violating exactly "
        "one non-extensible constraint: lb-1, ub+1, far outside, size lb-1/ub+1, one illegal character at first/middle/last position).",
        "Lean 4 proof (case analysis per constraint kind + induction over the value tree) + violation correspondence stream",
    ),
    "C07": (
        "DESIGN.md 5 (C07)",
        "Lean 4 theorem parse_print_partial: for every abstract module of the supported subset (all type kinds, tags, sizes with "
        "extensibility, named numbers, defaults, markers, imports, OIDs, unbounded nesting) parsing the printed token list gives the "
        "module back up to the SIZE normal forms only; built from per-construct lemmas parseX (printX x ++ rest) = ok (x', rest) "
        "composed by mutual structural recursion. The lossy behaviours of the parser ((0..MAX) widening, Module suffix) are explicit "
        "hypotheses, each shown necessary by a counterexample, and are listed known findings together with the marker quirks found "
        "by the stream; the hypothesis about references called min/max and the string-literal quirks went away with fixes 5fba779 "
        "and 869f3ad (parse_print_StringTokens: any token list, separator first or empty).",
        "Trusted: Lean kernel, standard axioms; token-level mirror of Model::try_from and the per-construct parsers validated by the "
        "`parse` stream (grammar-based schemas printed to text, real tokenizer+parser+resolver, canonical dump compared with the "
        "abstract schema; corpus of /repo/tests modules; mutated inputs). Layout independence is C13.",
        "Lean 4 proof (parser/printer round trip by structural induction) + grammar-based correspondence stream",
    ),
    "C12": (
        "DESIGN.md 5 (C12)",
        "Lean 4 theorems about a mirror of ResolveScope/MultiModuleResolver: replacing integer/size/default literals by value "
        "references (same module, imported by name or by OID) resolves to the same model (subst, subst_all), independent of the load "
        "order when no import matches two loaded modules (load_order; the condition is shown necessary); unresolved names give "
        "FailedToResolveReference and non-integer literals FailedToParseLiteral, never a substituted bound; the import chase comes "
        "back for every module, scope and name (chase_total; cyclic imports of an undefined name are rejected, after fix c798d52), "
        "its hop bound changes no answer for any scope (chase_bound_never_observable, by pigeonhole over the scope) and is sharp; a "
        "negative SIZE reference is refused (after fix 25e77f4).",
        "Trusted: Lean kernel, standard axioms; mirror validated by the `resolve` stream (all load orders of <= 3 modules, FROM "
        "clauses in both orders, decoy definitions, typed value references, negatives).",
        "Lean 4 proof (substitution lemma per construct, lookup agreement) + correspondence stream",
    ),
    "C19": (
        "DESIGN.md 5 (C19)",
        "Lean 4 theorem diag_erasure about a second mirror decD that threads the diagnostic log through exactly the control flow of "
        "dec, pushing an entry at each of the 45 cfg(feature) sites incl. the two value-dependent warnings: for every type, input, "
        "position and initial log the outcome (value, error kind, cursor) equals that of dec, and the log only grows. The tie to the "
        "code is a two-configuration correspondence: the same requests (valid and hostile) are answered by the harness built without "
        "and with descriptive-deserialize-errors and by the driver; any difference in outcome kind, value or consumed bits is a violation.",
        "Trusted: Lean kernel, standard axioms; that the feature only adds log pushes is checked by the two builds, not derived; "
        "log contents are not compared with the real ScopeDescription entries.",
        "Lean 4 proof (erasure by mutual structural induction) + two-build correspondence stream",
    ),
    "C01": (
        "DESIGN.md 5 (C01)",
        "Lean 4 theorem roundtrip_partial about the UPER mirror: WF t v -> enc t v = ok bits -> dec t (pre ++ bits ++ post) |pre| = "
        "ok (v, |pre| + |bits|) for arbitrary pre/post, by mutual structural induction over Ty/Fields (unbounded nesting, component "
        "count, OCTET/BIT/UTF8 string lengths through the fragment recursion), and many_roundtrip_partial for values written "
        "back-to-back into one writer. WF excludes exactly: list/restricted-string values with >= 16384 items (known finding "
        "F-frag: symbolic lemma frag_ignored shows the mismatch for every n >= 16K not a multiple of 16K), open-type contents of "
        ">= 16384 octets, mandatory SEQUENCE OF extension additions (hand-written descriptors only), integers outside their Rust "
        "type. The full statement is kept and refuted on witnesses.",
        "Trusted: Lean kernel, standard axioms; the faithful model of the Scope state machine (Uper/Scope.lean) is proved to refine "
        "the compositional mirror (Props/Scope.lean, audited by this check) and both answer every request; mirror validated by the "
        "round-trip stream over all zoo types "
        "(valid values, several messages per writer, long values in every fragment class) with the oracle decode(encode v) = v "
        "and remaining = 0 on the real crate.",
        "Lean 4 proof (mutual structural induction, position lemmas, L1 round trips from C10) + round-trip correspondence stream",
    ),
    "C02": (
        "DESIGN.md 5 (C02), 4",
        "Lean 4 theorems conform_write_partial (NoKnownDeviation t -> InRange t v -> enc t v = ok bits -> X691.encode t v = some "
        "bits, by mutual structural induction; open types conform for every content length) and conform_read_of_written, against "
        "the independent X.691 specification X691/Encode.lean. NoKnownDeviation is a decidable predicate on the type: no (lb..MAX) "
        "/ (MIN..ub) INTEGER, no length determinant with ub >= 64K, <= 64 additions; InRange: lists/strings < 16384 items. Each "
        "excluded class has a refutation of the full statement on a witness and is a listed known finding (F-64k, F-semi, F-frag, "
        "F-index-order). Not proved: the reader on canonical encodings the writer refuses (late presence pattern) - covered by the "
        "stream only.",
        "Trusted: Lean kernel, standard axioms; the X.691 transcription (from memory, cross-checked by pinned vectors); the "
        "implementation's bits are compared with the specification directly (the driver appends X691.encode's result to its "
        "answer), so C02 does not rest on the mirror; the reader is run on the specification's bits, incl. every presence pattern "
        "of every zoo shape.",
        "Lean 4 proof (refinement of the mirror to the X.691 specification) + specification-vs-implementation stream",
    ),
    "C05": (
        "DESIGN.md 5 (C05)",
        "Lean 4 theorems about the UPER mirror for V2 = V1 + appended extension additions / alternatives / values: enum_fwd, "
        "enum_bwd_known, enum_bwd_unknown and choice_* (unknown values give InvalidChoiceIndex, never a value); seq_fwd_partial "
        "(a V1 encoding decodes under V2 to the same components with the new additions absent/default, ending at |pre|+|bits|) "
        "and seq_bwd_partial (a V2 encoding decodes under V1 to V1's components, unknown additions skipped through skipUnknown, "
        "same end position), for any V1 with its own additions. Hypothesis WF (as C01). bwd became true with fix 91e31d8; "
        "set_version_descriptor: the descriptor of a SET version with appended additions is the old one followed by the new "
        "additions (after fix d2231e0).",
        "Trusted: Lean kernel, standard axioms; mirror validated by the cross-version stream (families Msg, Chain0-8, Big0-5, Deep, "
        "Hold, Cho, Enu, Wrap, SetV in both directions with a sentinel appended after the message) and the source-to-descriptor "
        "stream `consts`.",
        "Lean 4 proof (continuation lemmas over common components, skipUnknown) + cross-version correspondence stream",
    ),
    "C14": (
        "DESIGN.md 5 (C14)",
        "Lean 4 theorems: tokenizer_panics_iff (exactly the documented unterminated-block-comment condition), parser_terminates "
        "(for EVERY token list the recursive descent mirror never runs out of fuel = |tokens|+1, i.e. every recursive step consumes "
        "a token; the fuel is unobservable), parser_total, front_end_total (text -> tokens -> bridge -> parser), resolve_total, "
        "resolve_all_total, tag_resolver_total, conversion_terminates: unconditional since the cycle repairs bf3ee89 and c798d52 "
        "(one known finding left: nesting depth). The Rust panic "
        "sites are tabulated in the property file; the fuzz streams (1-4 char/token mutations of printed modules, token soups) "
        "check on the real front end that no panic/abort occurs outside the listed finding classes, and that every error carries "
        "the offending token at its real position.",
        "Trusted: Lean kernel, standard axioms; the parser mirror has no panic outcome of its own (unwrap/index sites are argued "
        "in a comment table and exercised by the fuzz streams); to_rust/to_protobuf are observed, not modelled.",
        "Lean 4 proof (termination invariant by induction on fuel) + fuzz correspondence streams",
    ),
    "C17": (
        "DESIGN.md 5 (C17)",
        "Lean 4 theorems about a mirror of protocol/protobuf and ProtobufWriter/Reader on Ty/Val: varint, zig-zag, tag, bytes, bool "
        "round trips for all 64-bit values; backends_agree (growable vs fixed slice: same bytes or nospace); counter_agree_partial; "
        "proto_roundtrip_partial: rtOK t v -> encode = ok bytes -> decode = ok v' and protoEq t v v' by structural induction over "
        "all type kinds (rtOK excludes exactly the defective shapes, each refuted on a witness and listed as known finding); "
        "proto_reader_total_fixed (reader never panics; applies since the three fix: commits, selected by the translator flag).",
        "Trusted: Lean kernel, standard axioms; mirror validated by the `proto` streams (round trips over all zoo types, the crate's "
        "ProtobufEq implementations, hostile bytes); the default-equivalence relation for generated types is decided by the oracle "
        "from peq.rs because the generated types do not derive ProtobufEq.",
        "Lean 4 proof (wire primitives, counter discipline, structural round trip) + correspondence streams",
    ),
    "C18": (
        "DESIGN.md 5 (C18)",
        "Lean 4 theorems about a model of the .proto generator's numbering (Proto/Schema.lean) vs the writer mirror: schema_row, "
        "writer_rows, schema_wire_types_agree, schema_oneof_agree, schema_wire_agree_partial (number and wire type of every written "
        "field equal the schema row when no NULL precedes the component; the NULL deviation refuted on a witness); schema_int_encoding_agree "
        "(the integer class the codec selects = the schema's scalar type, extensible integers 64-bit after fix 3e8f903); and about a model "
        "of the package line and file name (Proto/Package.lean, Props/C18Pkg.lean): package_valid — for every module name over "
        "[A-Za-z0-9_-] the package is a proto3 fullIdent or empty, empty exactly for the name `Module` among X.680 names (after fix "
        "ae3699b; the exception is a listed finding), oid_package_valid, file_name_shape. The tie for values is translation validation: "
        "real bytes + the real generated .proto are decoded by protoc 3.21 (and a built-in Python wire decoder) and compared with the "
        "value; protoc also validates each .proto file of the zoo and of generated modules (stream proto-gen, exploration level). Listed "
        "known findings: NULL numbering, SET order, three invalid schema printings, the empty package.",
        "Trusted: Lean kernel, standard axioms; protoc as independent decoder (fallback: built-in decoder, recorded in the evidence).",
        "Lean 4 proof about numbering, integer width and package names + translation validation with protoc",
    ),
}

NOT_YET = "model and first theorem not built yet in this revision (work in progress; see DESIGN.md 8 for the order of work)"


def main():
    checks = []
    for p in ALL:
        if p not in CLAIMED:
            continue
        ref, text, note, tech = CLAIMED[p]
        checks.append({
            "property_id": p,
            "quick_cmd": f"./check {p} --tier quick",
            "thorough_cmd": f"./check {p} --tier thorough",
            "evidence_file": f"/verif/evidence/{p}.json",
            "replay_cmd_template": f"./check {p} --replay {{path}}",
            "engine": "lean-proofs+correspondence-harness",
            "level_claimed": {"category": "proof", "text": text, "design_ref": ref},
            "level_note": note,
            "technique": tech,
        })
    man = {
        "version": 1,
        "setup_cmd": "./setup.sh",
        "hooks": {
            "guard": "asn1rs_verif",
            "enable": "no hooks are needed: every modelled function is reached through the crate's public API (the guard name is reserved)",
            "baseline_off_cmd": "cd /repo && cargo nextest run --workspace --no-fail-fast --offline --test-threads 8 || cargo test --workspace --no-fail-fast --offline",
            "source_commits": [],
            "add_only": True,
        },
        "engines": [
            {"name": "lean-proofs", "path": "/verif/lean", "serves_properties": sorted(CLAIMED),
             "kind_free_text": "Lean 4 models (code mirror + specification) and property theorems, axiom audit per theorem"},
            {"name": "correspondence-harness", "path": "/verif/harness", "serves_properties": sorted(CLAIMED),
             "kind_free_text": "Rust binary running the real crate from /repo's working tree on line-protocol requests; diffed against the compiled Lean driver; property oracles in tools/checks"},
            {"name": "const-translator", "path": "/verif/tools/extract_consts.py", "serves_properties": sorted(CLAIMED),
             "kind_free_text": "regenerates Gen/Consts.lean from /repo's source on every run"},
        ],
        "checks": checks,
        "notes": "Technique family: machine-checked proof in Lean 4; the tie between model and code is a constants translator plus a differential correspondence check (DESIGN.md 2.3, 2.4). fix: commits in /repo and open findings are listed in KNOWN_FINDINGS.txt.",
        "not_applicable": [{"property_id": p, "reason": NOT_YET} for p in ALL if p not in CLAIMED],
    }
    with open(os.path.join(HERE, "MANIFEST.json"), "w") as f:
        json.dump(man, f, indent=1)
        f.write("\n")


if __name__ == "__main__":
    main()
