#!/usr/bin/env python3
"""Writes /verif/MANIFEST.json from the table below (kept in one place so that it stays valid)."""
import json
import os

HERE = os.path.normpath(os.path.join(os.path.dirname(os.path.abspath(__file__)), ".."))

ALL = ["C%02d" % i for i in range(1, 21)]

# property -> (design_ref, level text, level note, technique)
CLAIMED = {
    "C11": (
        "DESIGN.md 5 (C11), 2.1 L0",
        "Lean 4 theorems about a byte-level mirror of slice.rs/buffer.rs: for every source, destination, offsets and length "
        "(no size bound) the copy behind all read_bits*/write_bits* changes exactly the addressed bits, the optimised bulk "
        "copy is extensionally equal to the bit-by-bit copy, failures are errors (never panics), and the growable buffer keeps "
        "its invariant (exactly ceil(bit_len/8) bytes, zero padding) over every sequence of writes. Full strength after five "
        "fix: commits. The mirror is tied to the code by a differential stream (exhaustive for small buffers) and an "
        "independent naive Vec<bool> oracle.",
        "Trusted: Lean kernel, axioms propext/Classical.choice/Quot.sound only; constants translator; the hand-written mirror "
        "is validated, not derived (differential execution of harness vs compiled Lean driver); dev profile only.",
        "Lean 4 proof (induction over copy loops, byte-mask lemmas) + model/implementation correspondence stream",
    ),
    "C20": (
        "DESIGN.md 5 (C20)",
        "Lean 4 theorems about a byte-level mirror of the DER primitives (basic/distinguished/mod.rs, rw/der.rs): for every "
        "u64 length, every tag of the four classes with number < 64 (exactly: round trip iff number < 64), every i64/u64, "
        "both booleans (any non-zero octet reads as true) and every enumerated index, read (write x ++ post) = ok (x, post), "
        "so exactly the written bytes are consumed and values compose back-to-back; the readers never panic on any input. "
        "All statements unbounded and full strength. Tied to the code by the `der` stream (round trips and hostile reads).",
        "Trusted: Lean kernel, standard axioms only; hand-written mirror validated by differential execution; error classes "
        "of protocol::basic are recognised from their Debug text; dev profile only.",
        "Lean 4 proof (case split on byte counts, omega) + correspondence stream + independent Python oracle",
    ),
    "C15": (
        "DESIGN.md 5 (C15)",
        "Lean 4 theorems about a mirror of the two INTEGER-to-Rust-type cascades (asn1rs-model/src/rust.rs) with all casts, "
        "the parser widening, integer_range_str, attribute text and walker constants: for all i64 bounds the chosen type holds "
        "every permitted value (holds_iff gives the exact region: min given, or extensible with negative max), is the "
        "narrowest standard type of either signedness, extensible ranges are 64-bit, accessors/constants equal declared bounds. "
        "Where the code violates the property ((MIN..ub) and unconstrained INTEGER become unsigned) the full statement is kept, "
        "refuted on a witness, and the _partial theorem carries the excluded region; both are listed known findings. "
        "Tied to the real pipeline (tokenizer, parser, resolver, to_rust, RustCodeGenerator, AsnDefWriter) exhaustively over B x B.",
        "Trusted: Lean kernel, standard axioms; thresholds I8_MAX..U32_MAX from the translator; mirror validated by the "
        "`inttype` stream (about 3*10^5 requests per quick run); string extraction from generated code in harness/src/inttype.rs.",
        "Lean 4 proof (omega after unfolding the cascades) + exhaustive correspondence over the boundary set",
    ),
}

NOT_YET = "model and first theorem not built yet in this revision (work in progress; see DESIGN.md 8 for the order of work)"


def main():
    checks = []
    for p in ALL:
        if p not in CLAIMED:
            continue
        ref, text, note, tech = CLAIMED[p]
        checks.append({
            "property_id": p,
            "quick_cmd": f"./check {p} --tier quick",
            "thorough_cmd": f"./check {p} --tier thorough",
            "evidence_file": f"/verif/evidence/{p}.json",
            "replay_cmd_template": f"./check {p} --replay {{path}}",
            "engine": "lean-proofs+correspondence-harness",
            "level_claimed": {"category": "proof", "text": text, "design_ref": ref},
            "level_note": note,
            "technique": tech,
        })
    man = {
        "version": 1,
        "setup_cmd": "./setup.sh",
        "hooks": {
            "guard": "asn1rs_verif",
            "enable": "no hooks are needed: every modelled function is reached through the crate's public API (the guard name is reserved)",
            "baseline_off_cmd": "cd /repo && cargo nextest run --workspace --no-fail-fast --offline --test-threads 8 || cargo test --workspace --no-fail-fast --offline",
            "source_commits": [],
            "add_only": True,
        },
        "engines": [
            {"name": "lean-proofs", "path": "/verif/lean", "serves_properties": sorted(CLAIMED),
             "kind_free_text": "Lean 4 models (code mirror + specification) and property theorems, axiom audit per theorem"},
            {"name": "correspondence-harness", "path": "/verif/harness", "serves_properties": sorted(CLAIMED),
             "kind_free_text": "Rust binary running the real crate from /repo's working tree on line-protocol requests; diffed against the compiled Lean driver; property oracles in tools/checks"},
            {"name": "const-translator", "path": "/verif/tools/extract_consts.py", "serves_properties": sorted(CLAIMED),
             "kind_free_text": "regenerates Gen/Consts.lean from /repo's source on every run"},
        ],
        "checks": checks,
        "notes": "Technique family: machine-checked proof in Lean 4; the tie between model and code is a constants translator plus a differential correspondence check (DESIGN.md 2.3, 2.4). fix: commits in /repo and open findings are listed in KNOWN_FINDINGS.txt.",
        "not_applicable": [{"property_id": p, "reason": NOT_YET} for p in ALL if p not in CLAIMED],
    }
    with open(os.path.join(HERE, "MANIFEST.json"), "w") as f:
        json.dump(man, f, indent=1)
        f.write("\n")


if __name__ == "__main__":
    main()
