"""Correspondence streams and oracles of the UPER properties (C01–C06, C04, C19) over the compiled zoo."""
import itertools
import re

import runner
import uperlib
import vlib

I64_MAX = 2**63 - 1

# zoo types whose INTEGER upper bound is the *literal* i64::MAX (indistinguishable from the keyword
# MAX in the descriptor): outside the conformance profile (DESIGN.md 4.1)
LITERAL_I64MAX = {"zoo_leaf::IntI64", "zoo_leaf::IntHalf"}


# ------------------------------------------------------------------------------ descriptor helpers

def walk_ty(ty, f):
    """calls f(node) for every type node of a parsed Ty S-expression"""
    if not isinstance(ty, list):
        return
    f(ty)
    head = ty[0]
    if head == "seqof":
        walk_ty(ty[4], f)
    elif head == "seq":
        for fld in ty[4:]:
            walk_ty(fld[-1], f)
    elif head == "choice":
        for alt in ty[4:]:
            walk_ty(alt, f)


def ty_nodes(ty_text):
    out = []
    walk_ty(uperlib.parse_sx(ty_text), out.append)
    return out


def opt(x):
    return None if x == "none" else int(x)


def len_deviates(node):
    """length determinant of this node is in the F-64k branch: a bound is given and ub >= 64K"""
    h = node[0]
    if h in ("str", "oct", "bits", "seqof"):
        if h == "str":
            if node[1] == "utf8":
                return False
            lo, hi = opt(node[2]), opt(node[3])
        else:
            lo, hi = opt(node[1]), opt(node[2])
        if lo is None and hi is None:
            return False
        return (hi if hi is not None else I64_MAX) >= 65536
    return False


def int_semi(node):
    return node[0] == "int" and opt(node[1]) is not None and opt(node[2]) == I64_MAX


def max_items(val_text):
    """largest number of items of a list / restricted string / anything in a Val text (cheap scan)"""
    best = 0
    for m in re.finditer(r"\(str ([0-9a-f-]+)\)", val_text):
        best = max(best, 0 if m.group(1) == "-" else len(m.group(1)) // 2)
    # lists: count direct children roughly by counting "(list" occurrences is not enough; use depth scan
    depth = 0
    stack = []
    i = 0
    n = len(val_text)
    while i < n:
        c = val_text[i]
        if c == "(":
            depth += 1
            is_list = val_text.startswith("(list", i)
            if stack and stack[-1][0] == depth - 1 and stack[-1][1]:
                stack[-1][2] += 1
            stack.append([depth, is_list, 0])
        elif c == ")":
            d, is_list, cnt = stack.pop()
            if is_list:
                best = max(best, cnt)
            depth -= 1
        i += 1
    return best


def has_big_list_or_string(ty_text, val_text):
    """F-frag: a SEQUENCE OF / restricted string value with >= 16384 items"""
    if len(val_text) < 16384:
        return False
    return max_items(val_text) >= 16384


class UperBase(runner.Stream):
    prefixes = ["uper"]

    def prepare(self, harness, driver):
        self.h = harness
        self.d = driver
        self.desc = uperlib.zoo_desc(harness)
        self.names = sorted(self.desc)

    def req_name(self, req):
        return req.split(" ")[2]

    def req_ty_val(self, req):
        items = uperlib.split_sx(req.split(" ", 3)[3])
        return items

    def tag(self, req, ans):
        op = req.split(" ")[1]
        mod = self.req_name(req).split("::")[0]
        a = ans.split(" ")
        return f"{op}:{mod}:{a[0]}{(':' + a[1]) if a[0] == 'err' and len(a) > 1 else ''}"

    def nontrivial(self, req, ans):
        return ans.startswith("ok")


# ------------------------------------------------------------------------------------------- C01

class RoundTrip(UperBase):
    """valid values of every zoo type: encode, decode, compare, remaining == 0; also back-to-back"""
    name = "uper-rt"

    def gen(self, rng, tier):
        k = 25 if tier == "quick" else 150
        seeds = [(n, rng.next() % 10**9) for n in self.names for _ in range(k)]
        vals = uperlib.gen_values(seeds, "valid", 6, self.h)
        reqs = [f"uper rt {n} {ty} {val}" for n, ty, val, _ in vals]
        # values of the Rust type that the constraint forbids (one violation each): the encoder should
        # refuse them (C06); the round trip must hold for whatever it accepts
        k2 = 6 if tier == "quick" else 30
        seeds2 = [(n, rng.next() % 10**9) for n in self.names for _ in range(k2)]
        reqs += [f"uper rt {n} {ty} {val}" for n, ty, val, _ in uperlib.gen_values(seeds2, "violate", 6, self.h)]
        # several messages in one writer
        m = 2000 if tier == "quick" else 20000
        for _ in range(m):
            cnt = rng.range(1, 5)
            pick = [vals[rng.below(len(vals))] for _ in range(cnt)]
            reqs.append("uper many " + " ".join(f"{n} {ty} {val}" for n, ty, val, _ in pick))
        reqs += self.longs(rng, tier)
        return reqs

    def longs(self, rng, tier, only=None):
        out = []
        # long values: >= 16K items, every fragment class, on list/string/octet/bit types
        longs = ["zoo_leaf::ListIntAny", "zoo_leaf::ListBoolBig", "zoo_leaf::ListBoolMid", "zoo_leaf::ListBoolLb",
                 "zoo_leaf::Ia5Any", "zoo_leaf::Ia5Big", "zoo_leaf::NumericAny", "zoo_leaf::OctAny", "zoo_leaf::OctBig",
                 "zoo_leaf::OctMid", "zoo_leaf::BitsAny", "zoo_leaf::BitsBig", "zoo_leaf::Utf8Any", "zoo_leaf::OctLb",
                 # extensible bounded sizes: a long value lies outside the root (extension form + fragments)
                 "zoo_leaf::BitsExt", "zoo_leaf::BitsFixExt", "zoo_leaf::OctExt", "zoo_leaf::OctFixExt", "zoo_leaf::Ia5Ext",
                 "zoo_leaf::Utf8Ext", "zoo_leaf::ListIntExt"]
        # the Lean mirror reads by absolute position on a List (quadratic in the value length): the
        # quick tier keeps list/string values below 64K items; octet/bit strings (one L1 call) go further
        small = [16383, 16384, 16385, 20000]
        sizes = small if tier == "quick" else \
            [16383, 16384, 16385, 20000, 32767, 32768, 32769, 49152, 65535, 65536, 65537, 70000]
        blob_sizes = small + [32768, 49152, 65535, 65536, 65537, 81920] if tier == "quick" else \
            small + [32768, 49152, 65535, 65536, 65537, 70000, 81920, 98304, 131072, 131073, 200000]
        for n in longs:
            if only is not None and n not in only:
                continue
            if n not in self.desc:
                continue
            node0 = ty_nodes(self.desc[n])[1]
            is_blob = node0[0] in ("oct", "bits") or (node0[0] == "str" and node0[1] == "utf8")
            for sz in (blob_sizes if is_blob else sizes):
                node = node0
                hi = opt(node[3]) if node[0] == "str" else opt(node[2])
                ext = (node[4] if node[0] == "str" else node[3]) == "1"
                if hi is not None and sz > hi and not ext:
                    continue
                val = self.long_value(node, sz, rng)
                if val:
                    out.append(f"uper rt {n} {self.desc[n]} (seq {val})")
        return out

    @staticmethod
    def long_value(node, n, rng):
        h = node[0]
        if h == "seqof":
            e = node[4]
            if e[0] == "bool":
                return "(list " + " ".join("(bool %d)" % ((i * 7 + i // 5) % 2) for i in range(n)) + ")"
            if e[0] == "int":
                return "(list " + " ".join("(int %d)" % ((i * 5 + i // 9) % 8) for i in range(n)) + ")"
            return None
        if h == "str":
            if node[1] == "num":
                return "(str " + "".join("%02x" % (0x30 + (i * 7 + i // 11) % 10) for i in range(n)) + ")"
            if node[1] == "utf8":
                # n OCTETS: ASCII with multi-octet characters in between (every alignment class)
                out, i = bytearray(), 0
                while len(out) < n:
                    ch = ["A", "\u00e9", "b", "\u20ac", "C", "\U0001f600", "d"][(i * 3 + i // 7) % 7].encode("utf-8")
                    if len(out) + len(ch) > n:
                        ch = b"z"
                    out += ch
                    i += 1
                return "(str " + out.hex() + ")"
            return "(str " + "".join("%02x" % (0x41 + (i * 7 + i // 11) % 26) for i in range(n)) + ")"
        if h == "oct":
            return "(oct " + "".join("%02x" % ((i * 37 + i // 256) % 256) for i in range(n)) + ")"
        if h == "bits":
            return "(bits " + "".join("1" if (i * 7 + i // 5) % 3 == 0 else "0" for i in range(n)) + ")"
        return None

    def oracle(self, req, ans):
        t = req.split(" ", 2)
        if ans in ("panic", "abort", "hang"):
            return "panic/abort while encoding or decoding a valid value"
        if not ans.startswith("ok "):
            return None     # encoding refused: not a C01 matter (C03/C06 decide whether it may)
        if t[1] == "rt":
            items = uperlib.split_sx(req.split(" ", 3)[3])
            val = items[1]
            a = uperlib.split_sx(ans[3:])
            if len(a) != 3:
                return "malformed answer"
            if a[1] != val:
                return f"decoded value differs: {a[1][:120]}"
            if a[2] != "0":
                return f"{a[2]} bits remain after decoding"
            return None
        if t[1] == "many":
            items = uperlib.split_sx(req.split(" ", 2)[2])
            vals = items[2::3]
            a = uperlib.split_sx(ans[3:])
            if a[1:-1] != vals:
                return "values read back-to-back differ from those written"
            if a[-1] != "0":
                return f"{a[-1]} bits remain after reading all values"
        return None

    def finding_class(self, req, ans):
        if req.split(" ")[1] != "rt":
            return None
        items = uperlib.split_sx(req.split(" ", 3)[3])
        ty, val = items[0], items[1]
        if len(val) >= 16384:
            nodes = ty_nodes(ty)
            # >= 16K items in a SEQUENCE OF / restricted string (OCTET/BIT/UTF8 strings fragment correctly)
            big = max_items(val) >= 16384
            if big and any(nd[0] == "seqof" or (nd[0] == "str" and nd[1] != "utf8") for nd in nodes):
                # constrained length with ub < 64K never fragments: in the finding only if unconstrained form / F-64k
                return "uper.len_ge_16k"
        return None


# ------------------------------------------------------------------------------------------- C03

def nsnnwn(n):
    assert n < 64
    return "0" + format(n, "06b")


class Shapes(UperBase):
    """every SEQUENCE shape of the zoo x every presence pattern; the expected bits are computed here
    from the shape alone (independent of model and code)"""
    name = "uper-shape"
    exhaustive = True

    FIELD_BITS = {("int", "0", "7"): 3, ("bool",): 1, ("int", "0", "255"): 8}

    def gen(self, rng, tier):
        reqs = []
        for n in self.names:
            if not n.startswith("zoo_shape::"):
                continue
            ty = uperlib.parse_sx(self.desc[n])
            fields = ty[4:]
            choices = []
            for f in fields:
                inner = f[-1]
                if inner[0] == "bool":
                    vals = ["(bool 0)", "(bool 1)"]
                else:
                    hi = int(inner[2])
                    vals = [f"(int 0)", f"(int {hi})", f"(int {hi // 2})"]
                if f[0] == "m":
                    choices.append(vals)
                elif f[0] == "o":
                    choices.append(["(none)"] + [f"(some {v})" for v in vals[:2]])
                else:
                    dv = uperlib.show_sx(f[1])
                    others = [v for v in vals if v != dv][:2]
                    choices.append([dv] + others)
            for combo in itertools.product(*choices):
                reqs.append(f"uper rt {n} {self.desc[n]} (seq{''.join(' ' + c for c in combo)})")
        # the nested / set / versions modules with generated values add non-trivial component types
        seeds = [(n, rng.next() % 10**9) for n in self.names
                 if n.split("::")[0] in ("zoo_nested", "zoo_set", "zoo_ver") for _ in range(12 if tier == "quick" else 80)]
        for n, ty, val, _ in uperlib.gen_values(seeds, "valid", 4, self.h):
            reqs.append(f"uper rt {n} {ty} {val}")
        return reqs

    @classmethod
    def expected(cls, ty, val):
        """(bits | None if refusal expected, presence info) for a zoo_shape type, from the shape alone"""
        ext_after = opt(ty[3])
        fields = ty[4:]
        vals = val[1:]
        root_n = len(fields) if ext_after is None else ext_after + 1
        root_pres, root_body, add_pres, add_body = "", "", [], []
        for i, (f, v) in enumerate(zip(fields, vals)):
            kind, inner = f[0], f[-1]
            if kind == "m":
                present, x = True, v
            elif kind == "o":
                present, x = (v[0] == "some"), (v[1] if v[0] == "some" else None)
            else:
                present, x = (v != f[1]), v
            body = ""
            if present:
                if inner[0] == "bool":
                    body = x[1]
                else:
                    w = cls.FIELD_BITS[(inner[0], inner[1], inner[2])]
                    body = format(int(x[1]), "0%db" % w)
            if i < root_n:
                if kind != "m":
                    root_pres += "1" if present else "0"
                root_body += body
            else:
                add_pres.append(present)
                if present:
                    padded = body + "0" * ((8 - len(body) % 8) % 8)
                    add_body.append("00000001" + padded)     # open type: length 1, one octet
        if ext_after is None:
            return root_pres + root_body, None
        if not any(add_pres):
            return "0" + root_pres + root_body, None
        refusal = not add_pres[0]
        bits = "1" + root_pres + root_body + nsnnwn(len(add_pres) - 1) + "".join("1" if p else "0" for p in add_pres) + "".join(add_body)
        return bits, refusal

    def oracle(self, req, ans):
        if ans in ("panic", "abort", "hang"):
            return "panic/abort"
        n = self.req_name(req)
        items = uperlib.split_sx(req.split(" ", 3)[3])
        ty, val = uperlib.parse_sx(items[0]), uperlib.parse_sx(items[1])
        if not n.startswith("zoo_shape::"):
            # generic part: the only refusal of a valid value is the documented one
            if ans.startswith("err ") and ans != "err ext-inconsistent":
                return f"valid value refused with {ans}"
            # … and what is encoded decodes to the same presence pattern and values, to the last bit (types in
            # a known round-trip deviation of C01 are left to C01)
            if ans.startswith("ok ") and RoundTrip.finding_class(self, req, ans) is None:
                a = uperlib.split_sx(ans[3:])
                if len(a) == 3 and a[1] != items[1]:
                    return f"decodes to another value: {a[1][:120]}"
                if len(a) == 3 and a[2] != "0":
                    return f"{a[2]} bits remain after decoding"
            return None
        bits, refusal = self.expected(ty, val)
        if refusal:
            return None if ans == "err ext-inconsistent" else f"expected the documented refusal (first addition absent, later present), got {ans[:80]}"
        if not ans.startswith("ok "):
            return f"valid presence pattern refused: {ans}"
        a = uperlib.split_sx(ans[3:])
        got = "" if a[0] == "-" else a[0]
        if got != bits:
            return f"preamble/encoding differs from the X.691 layout: expected {bits}"
        if a[1] != items[1]:
            return f"absent/default components do not decode as absent/default: {a[1][:100]}"
        if a[2] != "0":
            return "bits remain"
        return None

    def tag(self, req, ans):
        n = self.req_name(req)
        if n.startswith("zoo_shape::"):
            items = uperlib.split_sx(req.split(" ", 3)[3])
            ty = uperlib.parse_sx(items[0])
            kinds = "".join(f[0] for f in ty[4:])
            return f"shape:{kinds or '-'}:ext={ty[3]}:{ans.split(' ')[0]}"
        return super().tag(req, ans)


# ------------------------------------------------------------------------------------------- C02

# zoo types whose declaration order differs from the X.691 order (14.1: ENUMERATED indices follow the
# numeric values; 23.4 with X.680 8.6: CHOICE indices follow the canonical tag order): textual
# index -> canonical index.  The descriptor has lost that information, so the expectation is computed
# here from the zoo source.
CANON_ORDER = {
    "zoo_leaf::EnumOrd": [2, 0, 1],      # hi(5), lo(2), mid(3)
    "zoo_leaf::ChoiceOrd": [2, 0, 1],    # z [5], a [2], m [3]
}


def canon_expected(name, val):
    """X.691 bits of a value of one of the CANON_ORDER types"""
    m = CANON_ORDER[name]
    v = uperlib.parse_sx(val)
    if v[0] == "enum":
        return format(m[int(v[1])], "02b")
    i = int(v[1])
    body = {0: lambda x: x[1], 1: lambda x: format(int(x[1]), "03b"), 2: lambda x: ""}[i](v[2])
    return format(m[i], "02b") + body


class Conformance(UperBase):
    """implementation bits vs. the independent X.691 specification (computed by the driver from
    X691/Encode.lean, never from the code mirror), and the reader on the specification's bits"""
    name = "uper-conf"

    def gen(self, rng, tier):
        k = 15 if tier == "quick" else 100
        seeds = [(n, rng.next() % 10**9) for n in self.names for _ in range(k)]
        vals = uperlib.gen_values(seeds, "valid", 6, self.h)
        reqs = [f"uper conf {n} {ty} {val}" for n, ty, val, _ in vals]
        # the shapes with every presence pattern, incl. those the writer refuses (reader must accept them)
        sh = Shapes()
        sh.prepare(self.h, self.d)
        shape_reqs = [r for r in sh.gen(rng.fork("shapes"), tier) if " zoo_shape::" in r]
        if tier == "quick":
            shape_reqs = shape_reqs[::3]
        reqs += [r.replace("uper rt ", "uper conf ", 1) for r in shape_reqs]
        # reader on canonical encodings: ask the specification for the bits
        sub = vals if tier == "thorough" else vals[::2]
        cand = [(n, ty, val) for n, ty, val, _ in sub] + [tuple(uperlib.split_sx(r.split(" ", 2)[2])) for r in shape_reqs]
        if self.d:
            xs = vlib.run_lines(self.d, [f"uper xenc x {ty} {val}" for n, ty, val in cand])
            for (n, ty, val), x in zip(cand, xs):
                if x.startswith("ok "):
                    reqs.append(f"uper xdec {n} {ty} {val} {x[3:]}")
        return reqs

    def compare(self, req, impl, model):
        if req.split(" ")[1] == "conf":
            return impl == model.partition(" x691:")[0]
        return impl == model

    def in_profile(self, req):
        n = self.req_name(req)
        return n not in LITERAL_I64MAX

    def oracle(self, req, ans):
        if ans in ("panic", "abort", "hang"):
            return "panic/abort"
        if req.split(" ")[1] == "xdec":
            if not self.in_profile(req) or self.req_name(req) in CANON_ORDER:
                return None
            items = uperlib.split_sx(req.split(" ", 3)[3])
            val, bits = items[1], items[2]
            if not ans.startswith("ok "):
                return f"reader rejects the canonical X.691 encoding: {ans}"
            a = uperlib.split_sx(ans[3:])
            n = 0 if bits == "-" else len(bits)
            if a[0] != val:
                return f"reader decodes the canonical encoding to another value: {a[0][:120]}"
            if a[1] != str(n):
                return f"reader consumed {a[1]} of {n} bits"
        return None

    def oracle_model(self, req, ans, model_ans):
        if req.split(" ")[1] != "conf" or not self.in_profile(req):
            return None
        if self.req_name(req) in CANON_ORDER:
            if ans.startswith("ok "):
                want = canon_expected(self.req_name(req), uperlib.split_sx(req.split(" ", 3)[3])[1])
                if ans[3:] != want:
                    return f"index does not follow the X.691 order (numeric value / canonical tag): expected {want}"
            return None
        spec = model_ans.partition(" x691:")[2]
        if not ans.startswith("ok "):
            # the one documented refusal of a value of the type: an absent extension addition in front of a
            # present one (ext-inconsistent); any other refusal of a value the specification encodes is a failure
            if ans.startswith("err ") and ans != "err ext-inconsistent" and spec not in ("", "none"):
                return f"the writer refuses ({ans}) a value the specification encodes"
            return None
        if spec == "none":
            return "writer accepted a value the specification says is not a value of the type"
        if ans[3:] != spec:
            return f"bits differ from X.691: expected {spec[:200]}"
        return None

    def finding_class(self, req, ans):
        items = uperlib.split_sx(req.split(" ", 3)[3])
        nodes = ty_nodes(items[0])
        if self.req_name(req) in CANON_ORDER:
            return "uper.index_textual_order"
        if any(len_deviates(nd) for nd in nodes):
            return "uper.len_ub_ge_64k"
        if any(int_semi(nd) for nd in nodes):
            return "uper.int_semi"
        if any(nd[0] == "int" and nd[3] == "1" and (opt(nd[1]) is None or opt(nd[2]) is None) for nd in nodes):
            return "uper.int_ext_open_root"
        return None


class SpecDecode(Conformance):
    """the reader on the X.691 specification's bits of every presence pattern of the shapes — also those the
    writer refuses (first extension addition absent, a later one present): absent components decode as
    absent, DEFAULT components to their default, and the reader stops at the last bit"""
    name = "uper-xdec"

    def gen(self, rng, tier):
        sh = Shapes()
        sh.prepare(self.h, self.d)
        # (the shapes only: their components are small INTEGERs and BOOLEANs, on which writer and X.691 agree;
        #  conformance of the other component types is property C02's subject)
        shape_reqs = [r for r in sh.gen(rng.fork("shapes"), tier) if r.startswith("uper rt zoo_shape::")]
        cand = [tuple(uperlib.split_sx(r.split(" ", 2)[2])) for r in shape_reqs]
        reqs = []
        if self.d:
            xs = vlib.run_lines(self.d, [f"uper xenc x {ty} {val}" for n, ty, val in cand])
            for (n, ty, val), x in zip(cand, xs):
                if x.startswith("ok "):
                    reqs.append(f"uper xdec {n} {ty} {val} {x[3:]}")
        return reqs


class ExtForms(RoundTrip):
    """C06, second sentence: a value outside the root of an EXTENSIBLE constraint is encoded in the
    extension form and still round-trips — the round-trip requests of the types that have an extensible
    node (INTEGER, ENUMERATED, CHOICE, sizes), values drawn with out-of-root choices"""
    name = "uper-extrt"

    def oracle(self, req, ans):
        # the values are valid values of their types: a refusal other than the documented one (first
        # addition absent, a later one present) is a failure of the second sentence of C06
        if ans.startswith("err ") and ans != "err ext-inconsistent":
            return f"a valid value of an extensible type (inside or outside the root) is refused: {ans[:80]}"
        return super().oracle(req, ans)


    @staticmethod
    def extensible(node):
        h = node[0]
        if h in ("int", "enum", "choice", "oct", "bits", "seqof"):
            return len(node) > 3 and node[3] == "1"
        if h == "str":
            return len(node) > 4 and node[4] == "1"
        return False

    def gen(self, rng, tier):
        k = 30 if tier == "quick" else 200
        names = [n for n in self.names if any(self.extensible(x) for x in ty_nodes(self.desc[n]))]
        seeds = [(n, rng.next() % 10**9) for n in names for _ in range(k)]
        vals = uperlib.gen_values(seeds, "valid", 6, self.h)
        reqs = [f"uper rt {n} {ty} {val}" for n, ty, val, _ in vals]
        # long values outside the root: extension form AND fragments (octet / bit strings round-trip; lists and
        # restricted strings from 16K items on are the known finding F-frag of C01, not asked here)
        reqs += self.longs(rng, tier, only={"zoo_leaf::BitsExt", "zoo_leaf::BitsFixExt", "zoo_leaf::OctExt", "zoo_leaf::OctFixExt",
                                           "zoo_leaf::Utf8Ext"})
        # every value of the extensible enumerations (each addition index once)
        for n in names:
            node = ty_nodes(self.desc[n])[0]
            if node[0] == "enum":
                for i in range(int(node[2])):
                    reqs.append(f"uper rt {n} {self.desc[n]} (enum {i})")
        return reqs


# ------------------------------------------------------------------------------------------- C05

FAMILIES = [
    ["zoo_ver::MsgV1", "zoo_ver::MsgV2", "zoo_ver::MsgV3"],
    [f"zoo_ver::Chain{k}" for k in range(9)],
    ["zoo_ver::ChoV1", "zoo_ver::ChoV2", "zoo_ver::ChoV3"],
    ["zoo_ver::EnuV1", "zoo_ver::EnuV2", "zoo_ver::EnuV3"],
    ["zoo_ver::WrapV1", "zoo_ver::WrapV2", "zoo_ver::WrapV3"],
    [f"zoo_ver::Big{k}" for k in range(6)],
    ["zoo_ver::DeepV1", "zoo_ver::DeepV2", "zoo_ver::DeepV3"],
    ["zoo_ver::HoldV1", "zoo_ver::HoldV2"],
    ["zoo_ver::EnuCaseV1", "zoo_ver::EnuCaseV2"],
    ["zoo_ver::ChoCaseV1", "zoo_ver::ChoCaseV2"],
    ["zoo_ver::WideV1", "zoo_ver::WideV2"],
    *[[f"zoo_ver::RootV{i}V1", f"zoo_ver::RootV{i}V2"] for i in range(18)],
    ["zoo_ver::NulV1", "zoo_ver::NulV2", "zoo_ver::NulV3"],
    ["zoo_ver::NulWrapV1", "zoo_ver::NulWrapV2", "zoo_ver::NulWrapV3"],
    ["zoo_ver::EnuNumV1", "zoo_ver::EnuNumV2", "zoo_ver::EnuNumV3"],
    # SET whose later addition has a lower tag than an earlier one
    ["zoo_ver::SetV1", "zoo_ver::SetV2"],
]


def strip_to_root(val, ty_small, ty_big):
    """projects a value of the bigger version onto the smaller one (parsed S-expressions)"""
    hs = ty_small[0]
    if hs == "seq" and ty_big[0] == "seq":
        fs, fb = ty_small[4:], ty_big[4:]
        out = ["seq"]
        for i, f in enumerate(fs):
            v = val[1 + i]
            kind = f[0]
            if kind == "o" and v[0] == "some":
                out.append(["some", strip_to_root(v[1], f[-1], fb[i][-1])])
            elif kind == "o":
                out.append(v)
            else:
                out.append(strip_to_root(v, f[-1], fb[i][-1]))
        return out
    return val


def widen(val, ty_small, ty_big):
    """value of the smaller version as the bigger version must see it: new additions absent/default"""
    if ty_small[0] == "seq" and ty_big[0] == "seq":
        fs, fb = ty_small[4:], ty_big[4:]
        out = ["seq"]
        for i, f in enumerate(fb):
            if i < len(fs):
                v = val[1 + i]
                if fs[i][0] == "o" and v[0] == "some":
                    out.append(["some", widen(v[1], fs[i][-1], f[-1])])
                elif fs[i][0] == "o":
                    out.append(v)
                else:
                    out.append(widen(v, fs[i][-1], f[-1]))
            else:
                out.append(["none"] if f[0] == "o" else f[1])
        return out
    return val


class CrossVersion(UperBase):
    name = "uper-cross"
    SENTINEL = "10101011"

    def gen(self, rng, tier):
        k = 40 if tier == "quick" else 300
        reqs = []
        for fam in FAMILIES:
            fam = [f for f in fam if f in self.desc]
            for a, b in itertools.permutations(fam, 2):
                seeds = [(a, rng.next() % 10**9) for _ in range(k)]
                # addition encodings of 1..300 octets (property quantifier): half of the values are drawn
                # with list/string lengths up to the constraint's upper bound
                big = 300 if any(x in a for x in ("Chain", "Msg", "Wrap", "Cho", "Big", "Deep")) else 6
                half = len(seeds) // 2
                vals = uperlib.gen_values(seeds[:half], "valid", 6, self.h) + \
                    uperlib.gen_values(seeds[half:], "valid", big, self.h)
                for n, ty, val, _ in vals:
                    reqs.append(f"uper cross {a} {ty} {val} {b} {self.desc[b]} {self.SENTINEL}")
        return reqs

    def oracle(self, req, ans):
        if ans in ("panic", "abort", "hang"):
            return "panic/abort"
        if not ans.startswith("ok "):
            return None   # the writer refused (documented ext-inconsistent refusal)
        items = uperlib.split_sx(req.split(" ", 2)[2])
        name_w, ty_w, val, name_r, ty_r = items[0], uperlib.parse_sx(items[1]), uperlib.parse_sx(items[2]), items[3], uperlib.parse_sx(items[4])
        a = uperlib.split_sx(ans[3:])
        bits = "" if a[0] == "-" else a[0]
        fam = next(f for f in FAMILIES if name_w in f)
        newer_reader = fam.index(name_r) > fam.index(name_w)
        if a[1].startswith("readerr:"):
            # unknown CHOICE / ENUMERATED extension values may be reported as an error by an older reader
            if not newer_reader and ("Cho" in name_w or "Enu" in name_w) and a[1] in ("readerr:choice-index",):
                return None
            # HoldV2 -> HoldV1: the SET holds a CHOICE value of an alternative the older version does not have
            if not newer_reader and "Hold" in name_w and a[1] == "readerr:choice-index" and "(choice 1 " in items[2]:
                return None
            return f"reader of the other version fails with {a[1]}"
        got = uperlib.parse_sx(a[1])
        if newer_reader:
            want = self.conv(val, ty_w, ty_r, widen)
        else:
            want = self.conv(val, ty_r, ty_w, strip_to_root)
        if want is not None and got != want:
            return f"decoded under {name_r}: {a[1][:150]} but expected {uperlib.show_sx(want)[:150]}"
        if a[2] != str(len(bits)):
            return f"reader stopped at bit {a[2]} of {len(bits)} (data following the message is misread)"
        return None

    @staticmethod
    def conv(val, ty_a, ty_b, fn):
        """applies widen / strip through the transparent wrappers"""
        # top-level of every zoo type is a SEQUENCE itself (Msg, Chain, Wrap) or a transparent wrapper
        def rec(v, a, b):
            if a[0] == "seq" and b[0] == "seq":
                return fn(v, a, b) if fn is widen else fn(v, a, b)
            if a[0] == "choice" or a[0] == "enum":
                return v
            return v
        if fn is widen:
            return CrossVersion.deep(val, ty_a, ty_b, widen)
        return CrossVersion.deep(val, ty_a, ty_b, strip_to_root)

    @staticmethod
    def deep(val, small_or_w, other, fn):
        if fn is widen:
            return widen(val, small_or_w, other)
        return strip_to_root(val, small_or_w, other)

    def finding_class(self, req, ans):
        # no open class.  (Was uper.set_additions_sorted for the family zoo_ver::SetV: the generator
        # sorted the extension additions of a SET by tag among themselves; repaired in
        # sort_fields_canonically, the family stays in the stream as regression corpus.)
        return None

    def tag(self, req, ans):
        items = uperlib.split_sx(req.split(" ", 2)[2])
        a = ans.split(" ")
        return f"cross:{items[0].split('::')[1]}->{items[3].split('::')[1]}:{a[0]}"


# ------------------------------------------------------------------------------------------- C06

class Violations(UperBase):
    name = "uper-violate"

    def gen(self, rng, tier):
        k = 40 if tier == "quick" else 300
        seeds = [(n, rng.next() % 10**9) for n in self.names for _ in range(k)]
        vals = uperlib.gen_values(seeds, "violate", 6, self.h)
        self.kind = {}
        reqs = []
        for n, ty, val, violated in vals:
            if violated == "-":
                continue
            r = f"uper rt {n} {ty} {val}"
            self.kind[r] = violated
            reqs.append(r)
        # extensible constraints: out-of-root values must be encoded in the extension form and round-trip
        ext_types = [n for n in self.names if re.search(r" 1\)| 1 \d+ [01]\)", self.desc[n]) and ("(int " in self.desc[n] or "(str " in self.desc[n] or "(oct" in self.desc[n] or "(bits" in self.desc[n] or "(seqof" in self.desc[n])]
        seeds = [(n, rng.next() % 10**9) for n in ext_types for _ in range(k)]
        for n, ty, val, _ in uperlib.gen_values(seeds, "valid", 6, self.h):
            reqs.append(f"uper rt {n} {ty} {val}")
        return reqs

    def oracle(self, req, ans):
        if ans in ("panic", "abort", "hang"):
            return "panic/abort"
        v = getattr(self, "kind", {}).get(req)
        if v is not None:
            if ans.startswith("err "):
                return None
            a = uperlib.split_sx(ans[3:])
            items = uperlib.split_sx(req.split(" ", 3)[3])
            return f"value violating a non-extensible constraint ({v}) was encoded" + \
                ("" if a[1] == items[1] else f" and decodes to a different value {a[1][:100]}")
        if ans.startswith("ok "):
            a = uperlib.split_sx(ans[3:])
            items = uperlib.split_sx(req.split(" ", 3)[3])
            if a[1] != items[1] or a[2] != "0":
                return "out-of-root value of an extensible constraint does not round-trip"
        elif ans != "err ext-inconsistent":
            return f"valid value (possibly outside an extensible root) refused: {ans}"
        return None

    def tag(self, req, ans):
        v = getattr(self, "kind", {}).get(req, "ext-root")
        return f"{v}:{ans.split(' ')[0]}{(':' + ans.split(' ')[1]) if ans.startswith('err') else ''}"

    def nontrivial(self, req, ans):
        return True


# ------------------------------------------------------------------------------------- C04 / C19

def mutate(bits, rng):
    b = list(bits)
    for _ in range(rng.range(1, 3)):
        k = rng.below(5)
        if k == 0 and b:
            b = b[:rng.below(len(b))]
        elif k == 1 and b:
            i = rng.below(len(b))
            b[i] = "1" if b[i] == "0" else "0"
        elif k == 2:
            i = rng.below(len(b) + 1)
            b[i:i] = list(format(rng.below(256), "08b"))[:rng.range(1, 8)]
        elif k == 3 and b:
            i = rng.below(len(b))
            del b[i:i + rng.range(1, 8)]
        else:
            i = rng.below(len(b) + 1)
            b[i:] = list("".join(format(x, "08b") for x in rng.bytes(rng.range(1, 12))))
    return "".join(b)


class Hostile(UperBase):
    """random bits; truncations, flips, insertions, deletions of valid encodings (1..3 corruptions)"""
    name = "uper-hostile"
    needs_diag = False

    def gen(self, rng, tier):
        k = 8 if tier == "quick" else 40
        per = 8 if tier == "quick" else 12
        seeds = [(n, rng.next() % 10**9) for n in self.names for _ in range(k)]
        vals = uperlib.gen_values(seeds, "valid", 6, self.h)
        encs = vlib.run_lines(self.h, [f"uper enc {n} {ty} {val}" for n, ty, val, _ in vals])
        reqs = []
        for (n, ty, val, _), e in zip(vals, encs):
            if not e.startswith("ok "):
                continue
            bits = "" if e[3:] == "-" else e[3:]
            reqs.append(f"uper dec {n} {ty} {bits or '-'}")
            for _ in range(per):
                m = mutate(bits, rng)
                reqs.append(f"uper dec {n} {ty} {m or '-'}")
        # pure random, and crafted huge lengths / counts
        crafted = ["1" * 80, "0" * 80, "1" + "0000000" + "1" * 72, "11000100" + "1" * 64, "1" + "1" + "00001000" + "1" * 64 + "1" * 16,
                   "10" + "1" * 14 + "0" * 40, "0" + "1" * 63, "1" + "0" * 6 + "1" + "1" * 60]
        for n in self.names:
            for _ in range(2 if tier == "quick" else 10):
                nb = rng.range(0, 96)
                bits = "".join(format(x, "08b") for x in rng.bytes(12))[:nb]
                reqs.append(f"uper dec {n} {self.desc[n]} {bits or '-'}")
            for c in crafted + ["1" * 63, "1" * 64, "1" * 65, "1" * 127, "1" * 200, "0" + "1" * 70, "01" + "1" * 70, "0" * 200]:
                reqs.append(f"uper dec {n} {self.desc[n]} {c}")
        # valid encodings of long UTF8String values with multi-octet characters at every alignment
        texts = ["\u20ac" * 86, "a" * 255 + "\u00df", "a\u00e9\u20ac\U0001f600" * 80, "\u00e9" * 200, "b" * 254 + "\u20ac" * 3,
                 "c" * 253 + "\U0001f600" * 2, "\u00e9" + "d" * 300]
        long_reqs = []
        for n in self.names:
            nodes = ty_nodes(self.desc[n])
            if len(nodes) == 2 and nodes[1][0] == "str" and nodes[1][1] == "utf8" and (opt(nodes[1][3]) is None or opt(nodes[1][3]) >= 400) \
                    and (opt(nodes[1][2]) or 0) <= 80:
                for t in texts:
                    long_reqs.append((n, f"uper enc {n} {self.desc[n]} (seq (str {t.encode('utf-8').hex()}))"))
        for (n, _), e in zip(long_reqs, vlib.run_lines(self.h, [r for _, r in long_reqs])):
            if e.startswith("ok ") and e[3:] != "-":
                reqs.append(f"uper dec {n} {self.desc[n]} {e[3:]}")
                reqs.append(f"uper dec {n} {self.desc[n]} {e[3:-9]}")
        # fragmented values (>= 16K items) whose declared length ends inside a continuation fragment, at every
        # alignment of the last octet: the octets behind the declared length exist (the harness appends them)
        frag_reqs = []
        for n in ("zoo_leaf::BitsAny", "zoo_leaf::BitsExt", "zoo_leaf::OctAny", "zoo_leaf::Ia5Any", "zoo_leaf::ListBoolBig"):
            if n not in self.desc:
                continue
            node = ty_nodes(self.desc[n])[1]
            for sz in (16384 + 45, 16383, 2 * 16384 + 3):
                val = RoundTrip.long_value(node, sz, rng)
                if val:
                    frag_reqs.append((n, f"uper enc {n} {self.desc[n]} (seq {val})"))
        for (n, _), e in zip(frag_reqs, vlib.run_lines(self.h, [r for _, r in frag_reqs])):
            if e.startswith("ok ") and len(e) > 64:
                for cut in (0, 1, 2, 3, 5, 7, 8, 9, 13, 44, 45, 46):
                    reqs.append(f"uper dec {n} {self.desc[n]} {e[3:len(e) - cut]}")
        return reqs

    def oracle(self, req, ans):
        if ans in ("panic", "abort", "hang") or "PANIC" in ans:
            return "decoder panicked/aborted on untrusted input"
        if ans.startswith("beyond-differs"):
            # harness/src/uper.rs decodes the declared bits twice: in a slice that ends with them (zero
            # padding) and in a longer slice with one-bits behind the declared length
            return "the result depends on bits behind the declared bit length: " + ans[:200]
        if ans.startswith("ok "):
            bits = req.rsplit(" ", 1)[1]
            n = 0 if bits == "-" else len(bits)
            consumed = ans.rsplit(" ", 1)[1]
            if not consumed.isdigit() or int(consumed) > n:
                return f"success reported after consuming {consumed} of {n} declared bits"
        elif not ans.startswith("err "):
            return f"unexpected answer {ans[:60]}"
        return None

    def oracle_diag(self, req, ans, ans_diag):
        if ans != ans_diag:
            return f"+descriptive-deserialize-errors build answers `{ans_diag[:120]}`"
        return None

    def tag(self, req, ans):
        a = ans.split(" ")
        return f"dec:{self.req_name(req).split('::')[0]}:{a[0]}{(':' + a[1]) if a[0] == 'err' and len(a) > 1 else ''}"

    def nontrivial(self, req, ans):
        return True


# ------------------------------------------------------------------- generated constants (C08, C03)

class DescConsistency(UperBase):
    """the descriptor constants the attribute macro expands to (STD_OPTIONAL_FIELDS, FIELD_COUNT,
    EXTENDED_AFTER_FIELD, VARIANT_COUNT, STD_VARIANT_COUNT) for every compiled zoo type, compared
    with what the component list / the zoo source says (independently in Python)"""
    name = "uper-desc"
    exhaustive = True

    def gen(self, rng, tier):
        return [f"uper desccheck {n} {self.desc[n]}" for n in self.names]

    @staticmethod
    def check_node(nd):
        h = nd[0]
        if h == "seq":
            std_opt, count, ext = int(nd[1]), int(nd[2]), opt(nd[3])
            fields = nd[4:]
            if count != len(fields):
                return f"FIELD_COUNT {count} but {len(fields)} components"
            root = len(fields) if ext is None else ext + 1
            if ext is not None and ext >= len(fields):
                return f"EXTENDED_AFTER_FIELD {ext} beyond the {len(fields)} components"
            want = sum(1 for f in fields[:root] if f[0] in ("o", "d"))
            if std_opt != want:
                return f"STD_OPTIONAL_FIELDS {std_opt} but {want} OPTIONAL/DEFAULT root components"
            # the generator wraps every extension addition in Option or keeps DEFAULT
            for f in fields[root:]:
                if f[0] == "m":
                    return "extension addition that is neither OPTIONAL nor DEFAULT"
        elif h == "choice":
            std, total = int(nd[1]), int(nd[2])
            if total != len(nd[4:]):
                return f"VARIANT_COUNT {total} but {len(nd[4:])} alternatives"
            if std > total or (nd[3] == "0" and std != total):
                return f"STD_VARIANT_COUNT {std} inconsistent with VARIANT_COUNT {total} / extensibility"
        elif h == "enum":
            std, total = int(nd[1]), int(nd[2])
            if std > total or (nd[3] == "0" and std != total):
                return f"STD_VARIANT_COUNT {std} inconsistent with VARIANT_COUNT {total} / extensibility"
        return None

    def oracle(self, req, ans):
        if not ans.startswith("ok "):
            return f"type cannot be described: {ans[:100]}"
        for nd in ty_nodes(ans[3:]):
            why = self.check_node(nd)
            if why:
                return "generated descriptor constants do not match the component list: " + why
        # zoo_shape: the source is known from the name-independent shape generator: kinds and marker
        return None

    def tag(self, req, ans):
        return "desc:" + self.req_name(req).split("::")[0]


class CharsetTable(runner.Stream):
    """`Charset::is_valid` for every Unicode code point and the five charsets, exhaustively;
    the oracle has the alphabets of X.680 41 (NumericString: space and digits; PrintableString:
    A-Z a-z 0-9 space ' ( ) + , - . / : = ?; IA5String: 0..127; VisibleString: 32..126)"""
    name = "charset"
    prefixes = ["uper"]
    exhaustive = True
    CH = 4096

    def gen(self, rng, tier):
        reqs = []
        for cs in ("utf8", "ia5", "num", "print", "vis"):
            for lo in range(0, 0x110000, self.CH):
                reqs.append(f"uper charset {cs} {lo} {lo + self.CH}")
        return reqs

    @staticmethod
    def valid(cs, cp):
        if cs == "utf8":
            return True
        if cs == "ia5":
            return cp <= 127
        if cs == "vis":
            return 32 <= cp <= 126
        if cs == "num":
            return cp == 32 or 48 <= cp <= 57
        c = chr(cp)
        return cp < 128 and (c.isalnum() or c in " '()+,-./:=?")

    def oracle(self, req, ans):
        t = req.split(" ")
        cs, lo, hi = t[2], int(t[3]), int(t[4])
        if not ans.startswith("ok ") or len(ans) - 3 != hi - lo:
            return "malformed answer"
        for i, ch in enumerate(ans[3:]):
            cp = lo + i
            if 0xD800 <= cp < 0xE000:
                continue
            want = "1" if self.valid(cs, cp) else "0"
            if ch != want:
                return f"{cs}: code point U+{cp:04X} is {'accepted' if ch == '1' else 'rejected'} but is {'not ' if want == '0' else ''}in the alphabet"
        return None

    def tag(self, req, ans):
        return "charset:" + req.split(" ")[2]
