"""Shared helpers of the UPER checks: talking to the harness about the compiled zoo."""
import os
import re

import vlib

_cache = {}


def harness_bin():
    return os.path.join(vlib.HARNESS, "target", "debug", "h")


def zoo_types(h=None):
    h = h or harness_bin()
    if ("types", h) not in _cache:
        ans = vlib.run_lines(h, ["uper list"])[0]
        assert ans.startswith("ok "), ans
        _cache[("types", h)] = ans[3:].split(",")
    return _cache[("types", h)]


def zoo_desc(h=None):
    """name -> Ty S-expression (only types the harness can describe)"""
    h = h or harness_bin()
    if ("desc", h) not in _cache:
        names = zoo_types(h)
        ans = vlib.run_lines(h, [f"uper desc {n}" for n in names])
        d = {}
        bad = {}
        for n, a in zip(names, ans):
            if a.startswith("ok "):
                d[n] = a[3:]
            else:
                bad[n] = a
        _cache[("desc", h)] = d
        _cache[("desc_bad", h)] = bad
    return _cache[("desc", h)]


def gen_values(names_seeds, mode="valid", max_list=6, h=None):
    """[(name, seed)] -> [(name, ty, val, violated)] for those the harness could generate"""
    h = h or harness_bin()
    reqs = [f"uper gen {n} {s} {mode} {max_list}" for n, s in names_seeds]
    ans = vlib.run_lines(h, reqs)
    out = []
    for (n, s), a in zip(names_seeds, ans):
        if not a.startswith("ok "):
            continue
        body = a[3:]
        violated, _, rest = body.partition(" ")
        ty, val = split_sx2(rest)
        out.append((n, ty, val, violated))
    return out


def split_sx(text):
    """splits a text into top-level atoms / parenthesised items"""
    items, depth, cur = [], 0, []
    for ch in text:
        if ch == "(":
            depth += 1
            cur.append(ch)
        elif ch == ")":
            depth -= 1
            cur.append(ch)
            if depth == 0:
                items.append("".join(cur))
                cur = []
        elif ch == " " and depth == 0:
            if cur:
                items.append("".join(cur))
                cur = []
        else:
            cur.append(ch)
    if cur:
        items.append("".join(cur))
    return items


def split_sx2(text):
    it = split_sx(text)
    assert len(it) == 2, text[:200]
    return it[0], it[1]


def parse_sx(text):
    """S-expression -> nested python lists / strings"""
    toks = re.findall(r"\(|\)|[^\s()]+", text)
    pos = 0

    def rd():
        nonlocal pos
        t = toks[pos]
        pos += 1
        if t == "(":
            l = []
            while toks[pos] != ")":
                l.append(rd())
            pos += 1
            return l
        return t
    return rd()


def show_sx(x):
    if isinstance(x, list):
        return "(" + " ".join(show_sx(y) for y in x) + ")"
    return x
