"""Correspondence streams and oracles of the protobuf properties (C17, C18; hostile input for C04)
over the compiled zoo.

Everything the oracles compute is independent of the Lean model:
  * `proto_eq` / `default_val`  — the `ProtobufEq` relation (peq.rs + the derive macro) on `Val` texts
  * `PyReader`                  — the range logic of `ProtobufReader`, used only to *classify* a hostile
                                  request into a known-finding class (never as an oracle)
  * `parse_proto`, `pb_decode`, `parse_text` — a small proto3 schema reader, a wire decoder driven by
                                  that schema, and a reader of protoc's text output (C18)
"""
import os
import re
import shutil
import subprocess

import runner
import uperlib
import vlib

M64 = (1 << 64) - 1
I64_MAX = (1 << 63) - 1
I64_MIN = -(1 << 63)


def opt(x):
    return None if x == "none" else int(x)


def unhex(s):
    return b"" if s == "-" else bytes.fromhex(s)


# --------------------------------------------------------------------------- descriptors, values

def fields_of(ty):
    """[(kind, default-or-None, type)] of a seq descriptor"""
    out = []
    for f in ty[4:]:
        if f[0] == "d":
            out.append(("d", f[1], f[2]))
        else:
            out.append((f[0], None, f[1]))
    return out


def int_class(ty):
    """which integer encoding write_number/read_number select from the constraint constants: the sign
    from MIN, 32 bits only for a non-extensible constraint whose bounds fit (MIN/MAX bound the root
    only; since the repair of F-proto-int-ext an extensible INTEGER takes the 64-bit encoding of its
    64-bit Rust type).  Used for the histogram only, never as an oracle."""
    lo, hi, ext = opt(ty[1]), opt(ty[2]), ty[3] == "1"
    if (lo if lo is not None else 0) >= 0:
        return "u32" if not ext and (hi if hi is not None else I64_MAX) <= 0xFFFFFFFF else "u64"
    if not ext and (lo if lo is not None else I64_MIN) >= -(1 << 31) and (hi if hi is not None else I64_MAX) <= (1 << 31) - 1:
        return "s32"
    return "s64"


def int_regions(ty, val):
    """histogram labels of the INTEGER regions a well-typed value exercises (regression corpus of the
    repaired findings F-proto-int-ext / F-proto-int-ext-width): `xout` = an extensible INTEGER holds a
    value outside its root, `x32` = ... one that does not fit 32 bits (was cut by `as u32`/`as i32`),
    `x30` = an extensible INTEGER with a negative lower bound holds 2^30 <= |v| (where the 32-bit
    zig-zag value was sign-extended to ten octets)"""
    out = set()

    def visit(t, v, parent):
        if t[0] != "int" or t[3] != "1" or v[0] != "int":
            return
        x = int(v[1])
        lo, hi = opt(t[1]), opt(t[2])
        signed = (lo if lo is not None else 0) < 0
        u = x if signed else x & M64
        if (lo is not None and u < lo) or (hi is not None and u > hi):
            out.add("xout")
        if not (-(1 << 31) <= x < (1 << 31) if signed else 0 <= u <= 0xFFFFFFFF):
            out.add("x32")
        if signed and not -(1 << 30) <= x < (1 << 30):
            out.add("x30")
    pair_walk(ty, val, visit)
    return sorted(out)


def rust_range(ty):
    """(min, max) of the Rust integer type, in the i64 view the codec uses (u64: whole i64 range)"""
    w, signed = int(ty[4]), ty[5] == "1"
    if signed or w == 64:
        return -(1 << (w - 1)), (1 << (w - 1)) - 1
    return 0, (1 << w) - 1


def default_val(ty):
    """T::default() of the generated Rust type"""
    h = ty[0]
    if h == "bool":
        return ["bool", "0"]
    if h == "null":
        return ["null"]
    if h == "int":
        return ["int", "0"]
    if h == "enum":
        return ["enum", "0"]
    if h == "str":
        return ["str", "-"]
    if h == "oct":
        return ["oct", "-"]
    if h == "bits":
        return ["bits", "-"]
    if h == "seqof":
        return ["list"]
    if h == "seq":
        return ["seq"] + [["none"] if k == "o" else default_val(t) for k, _, t in fields_of(ty)]
    if h == "choice":
        return ["choice", "0", default_val(ty[4])]
    raise ValueError(h)


def proto_eq(ty, a, b):
    """a.protobuf_eq(&b): component-wise; Option: both present -> protobuf_eq, one absent -> the other
    must be == T::default() (peq.rs); everything else is plain equality"""
    h = ty[0]
    if h == "seqof":
        return a[0] == "list" and b[0] == "list" and len(a) == len(b) and all(proto_eq(ty[4], x, y) for x, y in zip(a[1:], b[1:]))
    if h == "seq":
        fs = fields_of(ty)
        if a[0] != "seq" or b[0] != "seq" or len(a) != len(fs) + 1 or len(b) != len(fs) + 1:
            return False
        for (k, _, t), x, y in zip(fs, a[1:], b[1:]):
            if k == "o":
                if x[0] == "some" and y[0] == "some":
                    ok = proto_eq(t, x[1], y[1])
                elif x[0] == "some" and y[0] == "none":
                    ok = x[1] == default_val(t)
                elif x[0] == "none" and y[0] == "some":
                    ok = y[1] == default_val(t)
                else:
                    ok = x[0] == "none" and y[0] == "none"
            else:
                ok = proto_eq(t, x, y)
            if not ok:
                return False
        return True
    if h == "choice":
        if a[0] != "choice" or b[0] != "choice" or a[1] != b[1]:
            return False
        i = int(a[1])
        return i < len(ty) - 4 and proto_eq(ty[4 + i], a[2], b[2])
    return a == b


def pair_walk(ty, val, f, parent=None):
    """f(ty, val, parent_ty) on every (type node, value node) pair of a well-typed value"""
    f(ty, val, parent)
    h = ty[0]
    if h == "seqof":
        for x in val[1:]:
            pair_walk(ty[4], x, f, ty)
    elif h == "seq":
        for (k, _, t), x in zip(fields_of(ty), val[1:]):
            if k == "o":
                if x[0] == "some":
                    pair_walk(t, x[1], f, ty)
            else:
                pair_walk(t, x, f, ty)
    elif h == "choice":
        i = int(val[1])
        if i < len(ty) - 4:
            pair_walk(ty[4 + i], val[2], f, ty)


def writes_nothing(ty, val):
    """the protobuf writer emits no octet for this component"""
    h = ty[0]
    if h == "null":
        return True
    if h == "seqof":
        return all(writes_nothing(ty[4], x) for x in val[1:])
    return False


def rt_classes(ty, val):
    """known-finding classes of C17 a round-trip request lies in (computed from type and value)"""
    out = []

    def visit(t, v, parent):
        # (an extensible INTEGER outside its root was the class proto.int_ext_truncated until the
        # repair of F-proto-int-ext: no class any more, a recurrence is a violation; `int_regions`
        # shows in the histogram that the former witnesses are still in the stream)
        if t[0] == "choice":
            i = int(v[1])
            if i < len(t) - 4 and writes_nothing(t[4 + i], v[2]):
                out.append("proto.choice_empty_alt")
            elif i < len(t) - 4 and t[4 + i][0] == "seqof" and len(v[2]) > 2:
                out.append("proto.choice_list_alt")
        if t[0] == "seqof" and t[4][0] == "seqof" and len(v) > 1:
            out.append("proto.nested_list")
        if t[0] == "seqof" and t[4][0] == "null" and len(v) > 1:
            out.append("proto.list_of_null")
        if t[0] == "seq":
            # an OPTIONAL NULL that is present does not count, an absent one does: the reader decides
            # by looking for the *next* component's number
            fs = fields_of(t)
            comps = list(zip(fs, v[1:]))

            def silent(c):
                (k, _, ft), x = c
                if k == "o":
                    return x[0] == "none" or writes_nothing(ft, x[1])
                return writes_nothing(ft, x)
            for idx, ((k, _, ft), x) in enumerate(comps):
                if k == "o" and ft[0] == "null" and x[0] == "some" and idx + 1 < len(comps):
                    # misnumbering starts when the next component writes nothing, and shows when a
                    # later one writes something
                    if silent(comps[idx + 1]) and any(not silent(c) for c in comps[idx + 2:]):
                        out.append("proto.null_optional_shift")
    pair_walk(ty, val, visit)
    return out


def has_nested_list(ty):
    found = []

    def visit(t):
        if t[0] == "seqof" and t[4][0] == "seqof":
            found.append(1)
    walk_ty(ty, visit)
    return bool(found)


def walk_ty(ty, f):
    f(ty)
    h = ty[0]
    if h == "seqof":
        walk_ty(ty[4], f)
    elif h == "seq":
        for _, _, t in fields_of(ty):
            walk_ty(t, f)
    elif h == "choice":
        for alt in ty[4:]:
            walk_ty(alt, f)


# ------------------------------------------------------------------------- systematic boundary values

def extreme(ty, mode):
    """a value of the Rust type built the same way everywhere: `zero` = T::default(); `somezero` = the
    same with every OPTIONAL present; `tmin` / `tmax` = extremes of the Rust integer types, last
    enum / alternative, one-element lists, one-character strings; `minus1`"""
    h = ty[0]
    if h == "bool":
        return ["bool", "1" if mode in ("tmax", "minus1") else "0"]
    if h == "null":
        return ["null"]
    if h == "int":
        lo, hi = rust_range(ty)
        w, signed = int(ty[4]), ty[5] == "1"
        if mode == "tmin":
            x = lo if signed else 0
        elif mode == "tmax":
            x = hi if (signed or w < 64) else -1          # u64::MAX in the i64 view
        elif mode == "minus1":
            x = -1 if (signed or w == 64) else hi
        elif mode == "i64max":
            x = min(hi, I64_MAX)
        elif mode == "p30":
            x = min(hi, 1 << 30)                          # first value whose 32-bit zig-zag form has bit 31 set
        elif mode == "n30":
            x = max(lo if (signed or w == 64) else 0, -(1 << 30) - 1)
        elif mode == "p32":
            x = min(hi, (1 << 32) + 5)                    # was cut to 5 by `as u32`
        else:
            x = 0
        return ["int", str(x)]
    if h == "enum":
        return ["enum", str(int(ty[2]) - 1 if mode in ("tmax", "minus1") else 0)]
    if h == "str":
        return ["str", "41" if mode in ("tmax", "tmin") else "-"]
    if h == "oct":
        return ["oct", "00ff" if mode == "tmax" else ("00" if mode == "tmin" else "-")]
    if h == "bits":
        return ["bits", "101" if mode == "tmax" else ("0" if mode == "tmin" else "-")]
    if h == "seqof":
        if mode in ("zero", "somezero"):
            return ["list"]
        return ["list", extreme(ty[4], mode)] + ([extreme(ty[4], "zero")] if mode == "tmax" else [])
    if h == "seq":
        out = ["seq"]
        for k, _, t in fields_of(ty):
            if k == "o":
                out.append(["none"] if mode == "zero" else ["some", extreme(t, "zero" if mode == "somezero" else mode)])
            else:
                out.append(extreme(t, mode))
        return out
    if h == "choice":
        i = len(ty) - 5 if mode in ("tmax", "minus1") else 0
        return ["choice", str(i), extreme(ty[4 + i], mode)]
    raise ValueError(h)


# p30 / n30 / p32: the former witnesses of F-proto-int-ext(-width), kept as regression corpus
MODES = ["zero", "somezero", "tmin", "tmax", "minus1", "i64max", "p30", "n30", "p32"]


# ---------------------------------------------------------------------------------- wire helpers

def varint(n):
    out = bytearray()
    while n > 0x7F:
        out.append((n & 0x7F) | 0x80)
        n >>= 7
    out.append(n)
    return bytes(out)


def rd_varint(buf, pos, end):
    """standard protobuf varint (at most 10 octets): (value, new position) or None"""
    v, shift = 0, 0
    for _ in range(10):
        if pos >= end:
            return None
        b = buf[pos]
        pos += 1
        v |= (b & 0x7F) << shift
        shift += 7
        if b < 0x80:
            return v & M64, pos
    return None


def wire_fields(buf, pos=0, end=None):
    """[(number, wire type, value | bytes)] or None when the octets are not a well-formed message"""
    end = len(buf) if end is None else end
    out = []
    while pos < end:
        r = rd_varint(buf, pos, end)
        if r is None:
            return None
        key, pos = r
        num, wt = key >> 3, key & 7
        if num == 0:
            return None
        if wt == 0:
            r = rd_varint(buf, pos, end)
            if r is None:
                return None
            v, pos = r
        elif wt == 1:
            if pos + 8 > end:
                return None
            v, pos = int.from_bytes(buf[pos:pos + 8], "little"), pos + 8
        elif wt == 5:
            if pos + 4 > end:
                return None
            v, pos = int.from_bytes(buf[pos:pos + 4], "little"), pos + 4
        elif wt == 2:
            r = rd_varint(buf, pos, end)
            if r is None:
                return None
            n, pos = r
            if pos + n > end:
                return None
            v, pos = bytes(buf[pos:pos + n]), pos + n
        else:
            return None
        out.append((num, wt, v))
    return out


# ------------------------------------------------- range logic of ProtobufReader (classification only)

class Stop(Exception):
    """the reader returns Err(..) (kind None) or panics (kind = finding class)"""

    def __init__(self, kind):
        self.kind = kind


class PyReader:
    """follows `src/rw/proto_read.rs` far enough to say *where* a dev build unwinds; used only for
    `finding_class` of the hostile stream (which open finding a panicking request belongs to)"""

    def __init__(self, src):
        self.src = src

    def slice(self, a, b):
        if a > b or b > len(self.src):
            raise Stop("proto.truncated_nested")
        return a, b

    def rv(self, pos, end):
        """read_varint as coded: <= 10 octets, Err at end of the slice"""
        v, shift = 0, 0
        while shift < 64:
            if pos >= end:
                raise Stop(None)
            b = self.src[pos]
            pos += 1
            v |= ((b & 0x7F) << shift) & M64
            shift += 7
            if b < 0x80:
                break
        return v, pos

    def tag(self, pos, end):
        v, pos = self.rv(pos, end)
        t = v & 0xFFFFFFFF
        if (t & 7) not in (0, 1, 2, 5):
            raise Stop(None)
        return t >> 3, t & 7, pos

    def index(self, a, b):
        tags = []
        pos = a
        while pos < b:
            self.slice(pos, b)
            num, fmt, p = self.tag(pos, b)
            if fmt == 0:
                _, q = self.rv(p, b)
                cp, ln = p, q - p
            elif fmt == 1:
                cp, ln = p, 8
            elif fmt == 5:
                cp, ln = p, 4
            else:
                ln, cp = self.rv(p, b)
            if cp + ln > M64:
                raise Stop("proto.len_overflow")
            tags.append((num, fmt, cp, cp + ln))
            pos = cp + ln
        return [1, tags]

    @staticmethod
    def next(st, inc, filt):
        if st[0] == "root":
            return (st[1], st[2])
        nxt = st[0]
        if inc:
            st[0] += 1
        for i, (num, fmt, a, b) in enumerate(st[1]):
            if num == nxt and (filt is None or filt == fmt):
                del st[1][i]
                return (a, b)
        return None

    def reader(self, st, fmt):
        r = self.next(st, True, fmt) or (0, 0)
        return self.slice(*r)

    def read(self, ty, st):
        h = ty[0]
        if h in ("bool", "int"):
            a, b = self.reader(st, 0)
            if a < b:
                self.rv(a, b)
        elif h == "null":
            pass
        elif h == "enum":
            r = self.next(st, True, 0)
            idx = 0
            if r is not None:
                a, b = self.slice(*r)
                idx, _ = self.rv(a, b)
            if idx >= int(ty[2]):
                raise Stop(None)
        elif h == "str":
            a, b = self.reader(st, 2)
            try:
                bytes(self.src[a:b]).decode("utf-8")
            except UnicodeDecodeError:
                raise Stop(None)
        elif h == "oct":
            self.reader(st, 2)
        elif h == "bits":
            a, b = self.reader(st, 2)
            if b - a < 8:
                raise Stop("proto.bitstring_short")
        elif h == "seqof":
            if st[0] == "root":
                self.read(ty[4], ["root", st[1], st[2]])
                raise Stop("proto.nested_list")
            while True:
                r = self.next(st, False, None)
                if r is None:
                    break
                self.read(ty[4], ["root", r[0], r[1]])
            st[0] += 1
        elif h == "seq":
            r = self.next(st, True, 2) or (0, 0)
            inner = self.index(*r)
            for k, _, t in fields_of(ty):
                if k == "o":
                    if inner[0] == "root" or any(e[0] == inner[0] for e in inner[1]):
                        self.read(t, inner)
                    else:
                        inner[0] += 1
                else:
                    self.read(t, inner)
        elif h == "choice":
            r = self.next(st, True, None)
            if r is None:
                raise Stop(None)
            a, b = self.slice(*r)
            num, fmt, p = self.tag(a, b)
            if fmt == 2:
                _, p = self.rv(p, b)
            idx = max(num - 1, 0)
            if idx >= len(ty) - 4:
                raise Stop(None)
            self.read(ty[4 + idx], [1, [(1, fmt, p, b)]])

    def classify(self, ty):
        try:
            self.read(ty, ["root", 0, len(self.src)])
        except Stop as s:
            return s.kind
        except RecursionError:
            return None
        return None


# ------------------------------------------------------------------------------------- stream base

class ProtoBase(runner.Stream):
    prefixes = ["proto"]

    def prepare(self, harness, driver):
        self.h = harness
        self.d = driver
        self.desc = uperlib.zoo_desc(harness)
        self.names = sorted(self.desc)
        self.pty = {n: uperlib.parse_sx(t) for n, t in self.desc.items()}

    @staticmethod
    def req_name(req):
        return req.split(" ")[2]

    @staticmethod
    def req_items(req):
        return uperlib.split_sx(req.split(" ", 3)[3])

    def tag(self, req, ans):
        op = req.split(" ")[1]
        mod = self.req_name(req).split("::")[0] if len(req.split(" ")) > 2 else "-"
        a = ans.split(" ")
        extra = ""
        if a[0] == "err" and len(a) > 1:
            extra = ":" + a[1]
        elif a[0] == "ok" and len(a) > 2 and (a[2].startswith("readerr") or a[2] == "readpanic"):
            extra = ":" + a[2]
        if op in ("rt", "enc"):
            try:
                items = self.req_items(req)
                reg = int_regions(uperlib.parse_sx(items[0]), uperlib.parse_sx(items[1]))
            except (IndexError, ValueError):
                reg = []
            if reg:
                extra += ":int-" + "+".join(reg)
        return f"{op}:{mod}:{a[0]}{extra}"

    def nontrivial(self, req, ans):
        return ans.startswith("ok")

    def values(self, rng, k, max_list=4, names=None):
        names = self.names if names is None else names
        seeds = [(n, rng.next() % 10**9) for n in names for _ in range(k)]
        return uperlib.gen_values(seeds, "valid", max_list, self.h)

    def boundary(self, names=None):
        """(name, ty text, val text) for the systematic values of every type"""
        out = []
        for n in (self.names if names is None else names):
            ty = self.pty[n]
            seen = set()
            for m in MODES:
                v = uperlib.show_sx(extreme(ty, m))
                if v not in seen:
                    seen.add(v)
                    out.append((n, self.desc[n], v))
        return out


# ------------------------------------------------------------------------------------------- C17

class RoundTrip(ProtoBase):
    """every zoo type x generated and boundary values: write (both back ends), read back, compare up to
    proto3 default equivalence"""
    name = "proto-rt"

    def gen(self, rng, tier):
        k = 20 if tier == "quick" else 80
        vals = [(n, ty, val) for n, ty, val, _ in self.values(rng, k)]
        vals += self.boundary()
        reqs = []
        hang = 0
        for i, (n, ty, val) in enumerate(vals):
            if has_nested_list(self.pty[n]) and "proto.nested_list" in rt_classes(self.pty[n], uperlib.parse_sx(val)):
                # the reader does not terminate (the harness is killed by its address-space limit,
                # about two seconds each): a few witnesses are enough
                inner_nonempty = re.search(r"\(list \(list \(", val) is not None
                if inner_nonempty:
                    hang += 1
                    if hang > (2 if tier == "quick" else 6):
                        continue
            reqs.append(f"proto rt {n} {ty} {val}")
            if i % 2 == 0 or tier == "thorough":
                reqs.append(f"proto enc {n} {ty} {val}")
        return reqs

    def compare(self, req, impl, model):
        op = req.split(" ")[1]
        if op == "dec":
            # (replay of a request of the other stream)
            if impl == "abort" and model == "panic":
                return ProtoHostile().finding_class(req, impl) == "proto.nested_list"
            return impl == model
        if op == "rt":
            m = re.sub(r" peq:[01]$", "", model)
            # a reader that never returns: the process dies (`abort`), the model says `readpanic`
            if impl == "abort" and m.endswith(" readpanic"):
                return "proto.nested_list" in self.classes(req)
            return impl == m
        return re.sub(r" reuse:[01]$", "", impl) == model

    def classes(self, req):
        items = self.req_items(req)
        return rt_classes(uperlib.parse_sx(items[0]), uperlib.parse_sx(items[1]))

    def oracle(self, req, ans):
        op = req.split(" ")[1]
        if op not in ("rt", "enc"):
            return None
        items = self.req_items(req)
        ty, val = uperlib.parse_sx(items[0]), uperlib.parse_sx(items[1])
        if ans in ("panic", "abort"):
            return "panic/abort/hang while writing or reading back a value of a generated type"
        if ans.endswith(" reuse:0") and ty[0] != "choice":
            # (a root CHOICE leaves the writer in the nested state in the code as it is: reuse after a root
            # CHOICE is outside the property, which speaks of one value per writer)
            return "a writer that has already written this value writes different octets for it the second time"
        ans = re.sub(r" reuse:[01]$", "", ans)
        if not ans.startswith("ok "):
            return f"value of a generated type refused by the writer: {ans}"
        a = uperlib.split_sx(ans[3:])
        data = unhex(a[0])
        if ty[0] != "enum" and wire_fields(data) is None:
            return "the written octets are not a well-formed sequence of protobuf fields"
        if op == "enc":
            if a[1] != "slice:" + a[0]:
                return f"fixed-slice back end with a slice of exactly the needed length: {a[1][:80]} (growable: {a[0][:60]})"
            if a[2] not in ("short:err:nospace", "short:-"):
                return f"fixed-slice back end with one octet less did not fail with an I/O error: {a[2][:80]}"
            return None
        if a[1].startswith("readerr:") or a[1] == "readpanic":
            return f"the written octets cannot be read back: {a[1]}"
        back = uperlib.parse_sx(a[1])
        if not proto_eq(ty, val, back):
            return f"value read back is not protobuf-equal to the original: {a[1][:160]}"
        return None

    def oracle_model(self, req, ans, model_ans):
        """the model of ProtobufEq (Val.protoEq) against the relation computed here"""
        if req.split(" ")[1] != "rt" or not ans.startswith("ok "):
            return None
        m = re.search(r" peq:([01])$", model_ans)
        if not m:
            return None
        items = self.req_items(req)
        a = uperlib.split_sx(ans[3:])
        if a[1].startswith("readerr:") or a[1] == "readpanic":
            return None
        want = proto_eq(uperlib.parse_sx(items[0]), uperlib.parse_sx(items[1]), uperlib.parse_sx(a[1]))
        if (m.group(1) == "1") != want:
            return f"Val.protoEq of the model says {m.group(1)}, the relation read off peq.rs says {int(want)}"
        return None

    def finding_class(self, req, ans):
        if req.split(" ")[1] not in ("rt", "enc"):
            return None
        c = self.classes(req)
        return c[0] if c else None


def toggle(ty, val, rng):
    """flips the presence of OPTIONAL components: absent <-> present with T::default(), present -> absent"""
    h = ty[0]
    if h == "seq":
        out = ["seq"]
        for (k, _, t), x in zip(fields_of(ty), val[1:]):
            if k == "o":
                r = rng.below(3)
                if x[0] == "none":
                    out.append(["some", default_val(t)] if r else x)
                elif r == 0:
                    out.append(["none"])
                elif r == 1:
                    out.append(["some", toggle(t, x[1], rng)])
                else:
                    out.append(["some", default_val(t)])
            else:
                out.append(toggle(t, x, rng))
        return out
    if h == "seqof":
        return ["list"] + [toggle(ty[4], x, rng) for x in val[1:]]
    if h == "choice":
        i = int(val[1])
        return ["choice", val[1], toggle(ty[4 + i], val[2], rng)]
    return val


class PeqStream(ProtoBase):
    """`ProtobufEq`: the crate's implementations (leaf types, Vec<T>, Option<T>; SEQUENCE/CHOICE as the
    derive expands) against the relation of this file and, through the correspondence, against
    Val.protoEq of the model.  Pairs: a value and itself, another value, the value with OPTIONALs
    switched between absent and T::default()."""
    name = "proto-peq"

    def gen(self, rng, tier):
        k = 3 if tier == "quick" else 20
        names = [n for n in self.names if self.pty[n][0] != "enum" or True]
        vals = [(n, ty, val) for n, ty, val, _ in self.values(rng, k, names=names)]
        vals += [(n, ty, v) for (n, ty, v) in self.boundary(names) if rng.chance(1, 2)]
        byname = {}
        for n, ty, val in vals:
            byname.setdefault(n, []).append(val)
        reqs = []
        for n, ty, val in vals:
            pty = self.pty[n]
            v = uperlib.parse_sx(val)
            others = byname[n]
            cands = [val, others[rng.below(len(others))]]
            for _ in range(2):
                cands.append(uperlib.show_sx(toggle(pty, v, rng)))
            for w in cands:
                reqs.append(f"proto peq x {ty} {val} {w}")
        # two PRESENT optional values that differ only by default-ish components inside
        n = "zoo_nested::Outer2"
        if n in self.desc:
            inners = ["(seq (some (int 7)) (some (list)))", "(seq (some (int 7)) (none))", "(seq (some (int 0)) (none))", "(seq (none) (none))",
                      "(seq (none) (some (list)))", "(seq (some (int 7)) (some (list (int 0))))", "(seq (none) (some (list (int 0))))"]
            for a in inners:
                for b in inners:
                    reqs.append(f"proto peq x {self.desc[n]} (seq (some {a}) (int 3)) (seq (some {b}) (int 3))")
                reqs.append(f"proto peq x {self.desc[n]} (seq (some {a}) (int 3)) (seq (none) (int 3))")
        return reqs

    def compare(self, req, impl, model):
        if impl == "err unsupported":
            return model.startswith("ok ")
        return impl == model

    def oracle(self, req, ans):
        if req.split(" ")[1] != "peq":
            return None
        if ans == "err unsupported":
            return None
        if ans not in ("ok 0", "ok 1"):
            return f"unexpected answer {ans[:60]}"
        items = uperlib.split_sx(req.split(" ", 3)[3])
        want = proto_eq(uperlib.parse_sx(items[0]), uperlib.parse_sx(items[1]), uperlib.parse_sx(items[2]))
        if (ans == "ok 1") != want:
            return f"the crate's ProtobufEq says {ans[3:]}, the relation read off peq.rs says {int(want)}"
        return None

    def oracle_model(self, req, ans, model_ans):
        """also where the harness has no crate implementation to call: model vs. this file"""
        if req.split(" ")[1] != "peq" or model_ans not in ("ok 0", "ok 1"):
            return None
        items = uperlib.split_sx(req.split(" ", 3)[3])
        want = proto_eq(uperlib.parse_sx(items[0]), uperlib.parse_sx(items[1]), uperlib.parse_sx(items[2]))
        if (model_ans == "ok 1") != want:
            return f"Val.protoEq says {model_ans[3:]}, the relation read off peq.rs says {int(want)}"
        return None

    def tag(self, req, ans):
        items = uperlib.split_sx(req.split(" ", 3)[3])
        same = "same" if items[1] == items[2] else "diff"
        return f"peq:{same}:{ans}"

    def nontrivial(self, req, ans):
        items = uperlib.split_sx(req.split(" ", 3)[3])
        return items[1] != items[2]


# ------------------------------------------------------------------------------------ C04 (protobuf)

def mutate(data, rng):
    b = bytearray(data)
    for _ in range(rng.range(1, 3)):
        k = rng.below(6)
        if k == 0 and b:
            b = b[:rng.below(len(b))]
        elif k == 1 and b:
            i = rng.below(len(b))
            b[i] ^= 1 << rng.below(8)
        elif k == 2:
            i = rng.below(len(b) + 1)
            b[i:i] = rng.bytes(rng.range(1, 3))
        elif k == 3 and b:
            i = rng.below(len(b))
            del b[i:i + rng.range(1, 3)]
        elif k == 4 and b:
            i = rng.below(len(b))
            b[i] = rng.choice([0x00, 0x7F, 0x80, 0xFF, 0x0A, 0x12, 0x08, 0x09, 0x0D])
        else:
            i = rng.below(len(b) + 1)
            b[i:] = rng.bytes(rng.range(1, 10))
    return bytes(b)


CRAFTED = [
    "0a" + "ff" * 9 + "01",              # length 2^64-1: content_position + content_length overflows
    "0a" + "ff" * 8 + "7f",              # length 2^63-1: range end far beyond the source
    "0a05" + "0801",                     # announced 5, present 2
    "12" + "0a" + "08011202",            # second field, inner truncated
    "0a00", "0a0100", "0a07" + "00" * 7, "0a08" + "ff" * 8, "0a09" + "00" * 9,   # BIT STRING lengths 0..9
    "1200", "1a00", "2200",
    "09" + "0102", "0d" + "01", "09" + "00" * 8, "0d" + "00" * 4,                # fixed64 / fixed32, cut
    "08" + "ff" * 10 + "01", "08" + "80" * 9 + "01", "08" + "ff" * 9,            # over-long varints
    "0b", "0c", "0e", "0f",                                                      # wire types 3, 4, 6, 7
    "00", "80", "ff", "0a", "08", "f8ffffff0f00",
    "0a02" + "0a05",                     # nested message whose own field is cut
    "0a04" + "0a02" + "0a05",
]


class ProtoHostile(ProtoBase):
    """`proto dec` on truncations, bit flips, insertions, deletions of valid encodings, random and
    crafted octets.  Oracle (C04): the reader answers `ok` or `err`, never `panic`/`abort`."""
    name = "proto-hostile"

    def gen(self, rng, tier):
        k = 6 if tier == "quick" else 16
        per = 6 if tier == "quick" else 10
        vals = [(n, ty, val) for n, ty, val, _ in self.values(rng, k)]
        vals += [b for i, b in enumerate(self.boundary()) if i % 3 == 1]
        encs = vlib.run_lines(self.h, [f"proto enc {n} {ty} {val}" for n, ty, val in vals])
        reqs = []
        hang = {}
        seen_prefix = set()
        for (n, ty, val), e in zip(vals, encs):
            if not e.startswith("ok "):
                continue
            data = unhex(e.split(" ")[1])
            cand = [data]
            # every proper prefix of short encodings (each cuts some length-delimited field)
            if n not in seen_prefix and 0 < len(data) <= 40:
                seen_prefix.add(n)
                cand += [data[:i] for i in range(len(data))]
            for _ in range(per):
                cand.append(mutate(data, rng))
            for c in cand:
                reqs.append((n, c))
        for n in self.names:
            for _ in range(2 if tier == "quick" else 10):
                reqs.append((n, rng.bytes(rng.range(0, 14))))
            for _ in range(3 if tier == "quick" else 8):
                reqs.append((n, bytes.fromhex(CRAFTED[rng.below(len(CRAFTED))])))
        for c in CRAFTED:
            for n in ("zoo_nested::Outer", "zoo_nested::Blobs", "zoo_nested::Strs", "zoo_nested::PickDeep", "zoo_leaf::ListStr",
                      "zoo_leaf::BitsAny", "zoo_nested::Deep", "zoo_leaf::ListList", "zoo_leaf::Color", "zoo_nested::Pick"):
                if n in self.desc:
                    reqs.append((n, bytes.fromhex(c)))
        out = []
        for n, c in reqs:
            # a diverging reader costs about two seconds per request: keep a few per type
            if has_nested_list(self.pty[n]) and PyReader(c).classify(self.pty[n]) == "proto.nested_list":
                hang[n] = hang.get(n, 0) + 1
                if hang[n] > (3 if tier == "quick" else 8):
                    continue
            out.append(f"proto dec {n} {self.desc[n]} {vlib.hexs(c)}")
        return out

    def compare(self, req, impl, model):
        if impl == "abort" and model == "panic":
            return self.finding_class(req, impl) == "proto.nested_list"
        return impl == model

    def oracle(self, req, ans):
        if ans in ("panic", "abort") or "dump-error" in ans:
            return "protobuf reader panicked / did not return on untrusted input"
        if not (ans.startswith("ok ") or ans.startswith("err ")):
            return f"unexpected answer {ans[:60]}"
        return None

    def finding_class(self, req, ans):
        items = self.req_items(req)
        return PyReader(unhex(items[1])).classify(uperlib.parse_sx(items[0]))

    def tag(self, req, ans):
        a = ans.split(" ")
        cls = ""
        if a[0] in ("panic", "abort"):
            cls = ":" + str(ProtoHostile.finding_class(self, req, ans))
        return f"dec:{self.req_name(req).split('::')[0]}:{a[0]}{(':' + a[1]) if a[0] == 'err' and len(a) > 1 else ''}{cls}"

    def nontrivial(self, req, ans):
        return True


class DecCorrespondence(ProtoHostile):
    """the same requests as a pure correspondence stream (model of the reader vs. the reader): used by
    C17, whose statement does not speak about hostile input"""
    name = "proto-dec"

    def oracle(self, req, ans):
        return None

    def finding_class(self, req, ans):
        return None

    def compare(self, req, impl, model):
        if impl == "abort" and model == "panic":
            return ProtoHostile.finding_class(self, req, impl) == "proto.nested_list"
        return impl == model


# ------------------------------------------------------------------------------------------- C18
# proto3 schema reader (the subset the generator emits, read leniently), wire decoder, text reader

class Field:
    def __init__(self, name, ptype, number, repeated=False, oneof=False, nrep=0):
        self.name, self.ptype, self.number, self.repeated, self.oneof, self.nrep = name, ptype, number, repeated, oneof, nrep


class Message:
    def __init__(self, name, line):
        self.name, self.line, self.end = name, line, line
        self.fields = []        # declaration order; a oneof contributes its members (oneof=True)
        self.is_oneof = False


class Schema:
    def __init__(self, package):
        self.package = package
        self.messages = {}
        self.enums = {}         # name -> [value names in declaration order (number = index)]
        self.enum_lines = {}


def parse_proto(text):
    pkg = re.search(r"^package\s+([\w.]+);", text, flags=re.M)
    sc = Schema(pkg.group(1) if pkg else "")
    cur = None
    kind = None
    in_oneof = False
    for ln, line in enumerate(text.splitlines(), 1):
        s = line.strip()
        m = re.match(r"^(message|enum)\s+(\w+)\s*\{$", s)
        if m and cur is None:
            kind = m.group(1)
            if kind == "message":
                cur = Message(m.group(2), ln)
            else:
                cur = (m.group(2), [], ln)
            continue
        if cur is None:
            continue
        if kind == "enum":
            m = re.match(r"^(\w+)\s*=\s*(\d+);$", s)
            if m:
                cur[1].append((m.group(1), int(m.group(2))))
            elif s == "}":
                sc.enums[cur[0]] = cur[1]
                sc.enum_lines[cur[0]] = (cur[2], ln)
                cur = None
            continue
        if re.match(r"^oneof\s+\w+\s*\{$", s):
            in_oneof = True
            cur.is_oneof = True
            continue
        if s in ("}", "};"):
            if in_oneof:
                in_oneof = False
            else:
                cur.end = ln
                sc.messages[cur.name] = cur
                cur = None
            continue
        m = re.match(r"^((?:repeated\s+)*)([\w.]+)\s+(\w+)\s*=\s*(\d+);$", s)
        if m:
            nrep = len(m.group(1).split())
            cur.fields.append(Field(m.group(3), m.group(2), int(m.group(4)), nrep > 0, in_oneof, nrep))
    return sc


SCALARS = {"bool", "uint32", "uint64", "sint32", "sint64", "string", "bytes", "int32", "int64", "fixed32", "fixed64", "sfixed32", "sfixed64"}


def unzig(n):
    return (n >> 1) ^ -(n & 1)


def pb_scalar(ptype, wt, v):
    """value of a scalar field as a conforming proto3 parser sees it, or None if the wire type does
    not fit (then the field is unknown to the parser)"""
    if ptype in ("string", "bytes"):
        if wt != 2:
            return None
        if ptype == "string":
            try:
                v.decode("utf-8")
            except UnicodeDecodeError:
                raise ValueError("invalid UTF-8 in a string field")
        return bytes(v)
    if wt != 0:
        return None
    if ptype == "bool":
        return v != 0
    if ptype == "uint32":
        return v & 0xFFFFFFFF
    if ptype == "uint64":
        return v & M64
    if ptype == "sint32":
        return unzig(v & 0xFFFFFFFF)
    if ptype == "sint64":
        return unzig(v & M64)
    return v


def pb_decode(data, msg, sc):
    """wire decoder driven by the parsed schema: {field name: [values]}; unknown fields under `#n`.
    Raises ValueError when the octets are not a message."""
    fl = wire_fields(data)
    if fl is None:
        raise ValueError("not a well-formed message")
    byn = {f.number: f for f in msg.fields}
    tree = {}
    for num, wt, v in fl:
        f = byn.get(num)
        if f is None:
            tree.setdefault(f"#{num}", []).append(v)
            continue
        base = f.ptype.split(".")[-1]
        if base in sc.messages and f.ptype not in SCALARS:
            if wt != 2:
                tree.setdefault(f"#{num}", []).append(v)
                continue
            val = pb_decode(v, sc.messages[base], sc)
        elif base in sc.enums and f.ptype not in SCALARS:
            if wt == 2 and f.repeated:
                pos, vs = 0, []
                while pos < len(v):
                    r = rd_varint(v, pos, len(v))
                    if r is None:
                        raise ValueError("packed enum")
                    vs.append(enum_name(sc, base, r[0] & 0xFFFFFFFF))
                    pos = r[1]
                tree.setdefault(f.name, []).extend(vs)
                continue
            if wt != 0:
                tree.setdefault(f"#{num}", []).append(v)
                continue
            val = enum_name(sc, base, v & 0xFFFFFFFF)
        else:
            if f.repeated and wt == 2 and f.ptype not in ("string", "bytes"):
                pos, vs = 0, []
                while pos < len(v):
                    r = rd_varint(v, pos, len(v))
                    if r is None:
                        raise ValueError("packed scalar")
                    vs.append(pb_scalar(f.ptype, 0, r[0]))
                    pos = r[1]
                tree.setdefault(f.name, []).extend(vs)
                continue
            val = pb_scalar(f.ptype, wt, v)
            if val is None:
                tree.setdefault(f"#{num}", []).append(v)
                continue
        if f.repeated:
            tree.setdefault(f.name, []).append(val)
        else:
            if f.oneof:
                for g in msg.fields:
                    if g.oneof:
                        tree.pop(g.name, None)
            tree[f.name] = [val]          # last one wins
    return normalise(tree, msg, sc)


def enum_name(sc, ename, number):
    for nm, k in sc.enums[ename]:
        if k == number:
            return nm
    return number


def normalise(tree, msg, sc):
    """drops what a proto3 text dump does not show: singular scalar / enum fields with the default
    value outside a oneof"""
    out = {}
    byname = {f.name: f for f in msg.fields}
    for k, vs in tree.items():
        f = byname.get(k)
        if f is not None and not f.repeated and not f.oneof:
            base = f.ptype.split(".")[-1]
            is_msg = base in sc.messages and f.ptype not in SCALARS
            if not is_msg:
                v = vs[0]
                if base in sc.enums and f.ptype not in SCALARS:
                    if v == sc.enums[base][0][0] or v == 0:
                        continue
                elif v in (0, False, b""):
                    continue
        out[k] = vs
    return out


def unescape(s):
    out = bytearray()
    i = 0
    while i < len(s):
        c = s[i]
        if c != "\\":
            out += c.encode("utf-8")
            i += 1
            continue
        i += 1
        c = s[i]
        if c in "01234567":
            j = i
            while j < len(s) and j < i + 3 and s[j] in "01234567":
                j += 1
            out.append(int(s[i:j], 8) & 0xFF)
            i = j
            continue
        if c == "x":
            j = i + 1
            while j < len(s) and j < i + 3 and s[j] in "0123456789abcdefABCDEF":
                j += 1
            out.append(int(s[i + 1:j], 16))
            i = j
            continue
        out += {"n": b"\n", "r": b"\r", "t": b"\t", '"': b'"', "'": b"'", "\\": b"\\", "a": b"\a", "b": b"\b",
                "f": b"\f", "v": b"\v", "?": b"?"}[c]
        i += 1
    return bytes(out)


def parse_text(text, msg, sc):
    """protoc --decode output -> the same tree shape as pb_decode"""
    lines = [l for l in text.splitlines() if l.strip()]
    pos = 0

    def block(m):
        nonlocal pos
        tree = {}
        byname = {f.name: f for f in m.fields} if m else {}
        while pos < len(lines):
            s = lines[pos].strip()
            if s == "}":
                pos += 1
                return tree
            mm = re.match(r"^(\w+)\s*\{$", s)
            if mm:
                pos += 1
                k = mm.group(1)
                f = byname.get(k)
                sub = None
                if f is not None:
                    sub = sc.messages.get(f.ptype.split(".")[-1])
                v = block(sub)
                tree.setdefault(k if not k.isdigit() else f"#{k}", []).append(v)
                continue
            mm = re.match(r"^(\w+):\s*(.*)$", s)
            if not mm:
                raise ValueError(f"unreadable line in protoc output: {s[:60]}")
            pos += 1
            k, raw = mm.group(1), mm.group(2)
            if k.isdigit():
                tree.setdefault(f"#{k}", []).append(raw)
                continue
            f = byname.get(k)
            if raw.startswith('"'):
                v = unescape(raw[1:-1])
            elif raw in ("true", "false"):
                v = raw == "true"
            elif re.fullmatch(r"-?\d+", raw):
                v = int(raw)
            else:
                v = raw          # enum value name
            tree.setdefault(k, []).append(v)
        return tree
    t = block(msg)
    return t


def pack_bits(bits):
    out = bytearray()
    for i in range(0, len(bits), 8):
        chunk = bits[i:i + 8].ljust(8, "0")
        out.append(int(chunk, 2))
    return bytes(out)


class SchemaMismatch(Exception):
    pass


def expected_tree(ty, val, msg, sc):
    """what a proto3 parser must see for this value if bytes and schema agree: the components of the
    value under the declared field names (declaration order = component order)"""
    tree = {}

    def add(f, t, x, in_oneof):
        h = t[0]
        if h == "null":
            return                       # a NULL has no content: nothing to see (bytes field absent)
        if h == "seqof":
            if not f.repeated:
                raise SchemaMismatch(f"SEQUENCE OF component declared as non-repeated `{f.ptype} {f.name}`")
            for e in x[1:]:
                add(f, t[4], e, in_oneof)
            if len(x) > 1 or f.name in tree:
                tree.setdefault(f.name, [])
            return
        base = f.ptype.split(".")[-1]
        if h in ("seq", "choice"):
            sub = sc.messages.get(base)
            if sub is None:
                raise SchemaMismatch(f"component `{f.name}` needs a message type, declared `{f.ptype}`")
            v = expected_tree(t, x, sub, sc)
        elif h == "enum":
            if base not in sc.enums:
                raise SchemaMismatch(f"component `{f.name}` needs an enum type, declared `{f.ptype}`")
            v = enum_name(sc, base, int(x[1]))
        elif h == "bool":
            v = x[1] == "1"
        elif h == "int":
            v = int(x[1])
            # the value in the harness' i64 view; a 64-bit Rust type is u64 unless the lower bound is
            # negative (rule of the converter, C15), and then -1 stands for u64::MAX
            if int(t[4]) == 64 and (opt(t[1]) or 0) >= 0:
                v &= M64
        elif h == "str":
            v = unhex(x[1])
        elif h == "oct":
            v = unhex(x[1])
        elif h == "bits":
            b = "" if x[1] == "-" else x[1]
            v = pack_bits(b) + len(b).to_bytes(8, "big")
        else:
            raise ValueError(h)
        tree.setdefault(f.name, []).append(v)

    if ty[0] == "seq":
        fs = fields_of(ty)
        if len(fs) != len(msg.fields) or msg.is_oneof:
            raise SchemaMismatch(f"message {msg.name} declares {len(msg.fields)} fields for {len(fs)} components")
        for (k, _, t), x, f in zip(fs, val[1:], msg.fields):
            if k == "o":
                if x[0] == "none":
                    continue
                x = x[1]
            add(f, t, x, False)
    elif ty[0] == "choice":
        members = [f for f in msg.fields if f.oneof]
        i = int(val[1])
        if len(members) != len(ty) - 4:
            raise SchemaMismatch(f"oneof of {msg.name} has {len(members)} members for {len(ty) - 4} alternatives")
        add(members[i], ty[4 + i], val[2], True)
    else:
        raise ValueError(ty[0])
    return normalise(tree, msg, sc)


def canon(t):
    """unknown fields (`#n`) are compared by number and count only (protoc guesses their shape)"""
    if isinstance(t, dict):
        return {k: (vs if isinstance(vs, int) else len(vs) if k.startswith("#") else [canon(v) for v in vs])
                for k, vs in t.items() if isinstance(vs, int) or len(vs) > 0}
    return t


def show_tree(t, depth=0):
    if isinstance(t, dict):
        return "{" + ", ".join(f"{k}: [{', '.join(show_tree(v) for v in vs)}]" if isinstance(vs, list) else f"{k}: x{vs}"
                               for k, vs in sorted(t.items())) + "}"
    if isinstance(t, bytes):
        return '"' + t.hex() + '"'
    return str(t)


def find_protoc():
    """protoc, unless VERIF_NO_PROTOC is set (exercises the fallback path)"""
    if os.environ.get("VERIF_NO_PROTOC"):
        return None
    return shutil.which("protoc") or ("/usr/bin/protoc" if os.path.exists("/usr/bin/protoc") else None)


class Protoc:
    """the generated .proto files copied into a scratch directory, validated and used by protoc"""

    def __init__(self, harness):
        self.bin = find_protoc()
        self.dir = os.path.join(vlib.WORK, "proto_c18")
        shutil.rmtree(self.dir, ignore_errors=True)
        os.makedirs(os.path.join(self.dir, "orig"), exist_ok=True)
        os.makedirs(os.path.join(self.dir, "usable"), exist_ok=True)
        ans = vlib.run_lines(harness, ["proto files"])[0]
        assert ans.startswith("ok "), ans
        self.files = {}            # module name -> text
        for p in ans[3:].split(","):
            text = open(p, encoding="utf-8").read()
            base = os.path.basename(p)
            self.files[base[:-len(".proto")]] = text
            with open(os.path.join(self.dir, "orig", base), "w", encoding="utf-8") as f:
                f.write(text)
        self.schema = {m: parse_proto(t) for m, t in self.files.items()}
        # `import 'other.proto';`: the imported definitions are visible under their base names
        # (the zoo has no two definitions of one name)
        for m, t in self.files.items():
            for imp in re.findall(r"^import\s+['\"]([\w.]+)\.proto['\"];", t, flags=re.M):
                other = self.schema.get(imp)
                if other is not None:
                    for k, v in other.messages.items():
                        self.schema[m].messages.setdefault(k, v)
                    for k, v in other.enums.items():
                        self.schema[m].enums.setdefault(k, v)
        self.errors = {}           # (module, definition name) -> first protoc message inside it
        self.file_errors = {}      # module -> full protoc stderr of the unmodified file
        self.dropped = {}          # module -> set of definitions removed to obtain a usable file
        self.version = None
        if self.bin:
            rc, out, err = vlib.sh([self.bin, "--version"])
            self.version = out.strip()
            # imported files first: a file is validated against the usable copies of its imports
            deps = {m: [i for i in re.findall(r"^import\s+['\"]([\w.]+)\.proto['\"];", t, flags=re.M) if i in self.files]
                    for m, t in self.files.items()}
            done = []
            while len(done) < len(self.files):
                ready = [m for m in sorted(self.files) if m not in done and all(d in done for d in deps[m])]
                if not ready:          # import cycle: take them as they come
                    ready = [m for m in sorted(self.files) if m not in done]
                for m in ready:
                    self.validate(m)
                    done.append(m)

    def owner(self, module, line):
        sc = self.schema[module]
        for n, msg in sc.messages.items():
            if msg.line <= line <= msg.end:
                return n
        for n, (a, b) in sc.enum_lines.items():
            if a <= line <= b:
                return n
        return None

    def validate(self, module):
        """protoc on the unmodified file; when it is rejected, the definitions protoc points at are
        removed (and whatever refers to them) until the rest is accepted, so that the other messages of
        the module can still be decoded"""
        text = self.files[module]
        dropped = set()
        first = True
        for _ in range(40):
            path = os.path.join(self.dir, "usable", module + ".proto")
            with open(path, "w", encoding="utf-8") as f:
                f.write(self.strip(module, text, dropped))
            rc, out, err = vlib.sh([self.bin, "-I", os.path.join(self.dir, "usable"), "-o", os.devnull, path])
            if first:
                first = False
                if rc != 0:
                    self.file_errors[module] = err.strip()
                    rc0, out0, err0 = vlib.sh([self.bin, "-I", os.path.join(self.dir, "orig"), "-o", os.devnull,
                                               os.path.join(self.dir, "orig", module + ".proto")])
                    for l in err0.splitlines():
                        mm = re.match(r"^[^:]+:(\d+):\d+:\s*(.*)$", l)
                        if mm:
                            o = self.owner(module, int(mm.group(1)))
                            if o:
                                self.errors.setdefault((module, o), mm.group(2))
            if rc == 0:
                break
            progress = False
            stripped = self.strip(module, text, dropped).splitlines()
            for l in err.splitlines():
                mm = re.match(r"^[^:]+:(\d+):\d+:\s*(.*)$", l)
                if mm:
                    # line numbers refer to the stripped file: map through the definition header lines
                    ln = int(mm.group(1))
                    name = None
                    for i in range(min(ln, len(stripped)) - 1, -1, -1):
                        h = re.match(r"^(message|enum)\s+(\w+)\s*\{$", stripped[i].strip())
                        if h:
                            name = h.group(2)
                            break
                    if name and name not in dropped:
                        dropped.add(name)
                        progress = True
            if not progress:
                break
        self.dropped[module] = dropped

    def strip(self, module, text, dropped):
        if not dropped:
            return text
        out, skip = [], False
        for line in text.splitlines():
            h = re.match(r"^(message|enum)\s+(\w+)\s*\{$", line.strip())
            if h and not skip and h.group(2) in dropped and not line.startswith(" "):
                skip = True
            if not skip:
                out.append(line)
            elif line == "}":
                skip = False
        return "\n".join(out) + "\n"

    def decode(self, module, message, data):
        """protoc --decode: text or raises ValueError"""
        sc = self.schema[module]
        p = subprocess.run([self.bin, "-I", os.path.join(self.dir, "usable"), f"--decode={sc.package}.{message}",
                            os.path.join(self.dir, "usable", module + ".proto")], input=data, capture_output=True, timeout=60)
        if p.returncode != 0:
            raise ValueError("protoc: " + p.stderr.decode("utf-8", "replace").strip()[:200])
        return p.stdout.decode("utf-8", "replace")

    def decode_batch(self, module, message, datas):
        """many values of one message type in one protoc call through a scratch wrapper message
        (`repeated <Message> items = 1;` in a separate file importing the generated one);
        returns a list of texts, or None when protoc rejects the batch"""
        sc = self.schema[module]
        wrap = os.path.join(self.dir, "usable", f"batch_{module}_{message}.proto")
        with open(wrap, "w", encoding="utf-8") as f:
            f.write(f"syntax = 'proto3';\npackage verifbatch;\nimport '{module}.proto';\n"
                    f"message Batch {{\n  repeated {sc.package}.{message} items = 1;\n}}\n")
        blob = b"".join(b"\x0a" + varint(len(d)) + d for d in datas)
        p = subprocess.run([self.bin, "-I", os.path.join(self.dir, "usable"), "--decode=verifbatch.Batch", wrap],
                           input=blob, capture_output=True, timeout=120)
        os.remove(wrap)
        if p.returncode != 0:
            return None
        text = p.stdout.decode("utf-8", "replace")
        items, cur, depth = [], None, 0
        for line in text.splitlines():
            if depth == 0:
                if line.startswith("items {"):
                    cur, depth = [], 1
                continue
            if line.rstrip().endswith("{"):
                depth += 1
            if line.strip() == "}":
                depth -= 1
                if depth == 0:
                    items.append("\n".join(cur) + "\n")
                    continue
            cur.append(line)
        return items if len(items) == len(datas) else None


class SchemaAgree(ProtoBase):
    """C18: (a) every generated definition is valid proto3 (protoc accepts it), (b) the octets written
    for a value parse under the generated schema, with an independent decoder, to the same field values"""
    name = "proto-schema"

    def prepare(self, harness, driver):
        super().prepare(harness, driver)
        if getattr(self, "pc", None) is None:
            self.pc = Protoc(harness)
            self.pre = {}
            self.set_types = self.find_sets()
        self.decoder = "protoc " + (self.pc.version or "") if self.pc.bin else "built-in wire decoder (protoc not found)"

    def find_sets(self):
        """generated types that are SETs (top-level or inline), and every message type that contains
        one: their components are written in canonical tag order"""
        ans = vlib.run_lines(self.h, ["proto sets"])[0]
        sets = set(x for x in ans[3:].split(",") if x) if ans.startswith("ok") else set()
        out = set(sets)
        # transitive closure over the field types of the generated messages
        changed = True
        while changed:
            changed = False
            for module, sc in self.pc.schema.items():
                for mname, msg in sc.messages.items():
                    full = f"{module}::{mname}"
                    if full in out:
                        continue
                    for f in msg.fields:
                        base = f.ptype.split(".")[-1]
                        if any(x.split("::")[1] == base for x in out):
                            out.add(full)
                            changed = True
                            break
        self.plain_sets = sets
        return out

    def message_of(self, name):
        module, tyname = name.split("::")
        sc = self.pc.schema.get(module)
        if sc is None:
            return module, None, None
        return module, sc, sc.messages.get(tyname)

    def gen(self, rng, tier):
        reqs = [f"proto schema {n}" for n in self.names]
        # the schema model against the text of the real definitions
        reqs += [f"proto wire {n} {self.desc[n]}" for n in self.names if n not in self.plain_sets]
        k = 10 if tier == "quick" else 60
        vals = [(n, ty, val) for n, ty, val, _ in self.values(rng, k)]
        vals += self.boundary()
        for n, ty, val in vals:
            if self.pty[n][0] == "enum":
                continue                     # an ENUMERATED is a proto enum, not a message
            reqs.append(f"proto enc {n} {ty} {val}")
        self.predecode(reqs)
        return reqs

    def predecode(self, reqs):
        """one protoc call per message type over the octets the harness produces"""
        if not self.pc.bin:
            return
        encs = [r for r in reqs if r.startswith("proto enc ")]
        ans = vlib.run_lines(self.h, encs)
        groups = {}
        for r, a in zip(encs, ans):
            if a.startswith("ok "):
                groups.setdefault(self.req_name(r), []).append((r, a, unhex(a.split(" ")[1])))
        for n, lst in groups.items():
            module, sc, msg = self.message_of(n)
            if msg is None or msg.name in self.pc.dropped.get(module, ()):
                continue
            texts = self.pc.decode_batch(module, msg.name, [d for _, _, d in lst])
            if texts is None:
                continue
            for (r, a, d), t in zip(lst, texts):
                self.pre[(r, a.split(" ")[1])] = t

    def compare(self, req, impl, model):
        if req.split(" ")[1] == "schema":
            return True
        if req.split(" ")[1] == "rt":
            return impl == re.sub(r" peq:[01]$", "", model)
        return re.sub(r" reuse:[01]$", "", impl) == model

    def ensure(self):
        """--replay does not call prepare()"""
        if getattr(self, "pc", None) is None:
            self.prepare(uperlib.harness_bin(), None)

    def oracle(self, req, ans):
        op = req.split(" ")[1]
        if op not in ("schema", "wire", "enc"):
            return None
        self.ensure()
        n = self.req_name(req)
        module, sc, msg = self.message_of(n)
        tyname = n.split("::")[1]
        if op == "enc" and ans.endswith(" reuse:0") and self.pty.get(n, ["?"])[0] != "choice":
            return ("the octets a writer appends for this value after it has already written it once are not the "
                    "message the schema describes (they differ from the octets of a fresh writer)")
        ans = re.sub(r" reuse:[01]$", "", ans)
        if op == "schema":
            if not ans.startswith("ok "):
                return f"no definition for the type in the generated .proto: {ans}"
            # built-in check of the two shapes proto3 forbids and the generator can emit
            builtin = None
            if msg is not None:
                for f in msg.fields:
                    if f.nrep > 1:
                        builtin = f"`repeated repeated {f.ptype} {f.name}` is not proto3"
                    elif f.oneof and f.repeated:
                        builtin = f"`repeated {f.ptype} {f.name}` inside a oneof is not proto3"
            if not self.pc.bin:
                return f"(built-in check) {builtin}" if builtin else None
            e = self.pc.errors.get((module, tyname))
            if e:
                return f"protoc rejects the generated definition: {e[:160]}"
            if builtin:
                return f"(checker) the built-in check refuses a definition protoc accepts: {builtin}"
            return None
        if op == "wire":
            # numbering is declared once per definition: 1..n without gaps (enum: 0..n-1)
            if not ans.startswith("ok "):
                return f"no definition: {ans}"
            a = ans.split(" ")
            if a[1] in ("msg", "oneof") and a[2] != "-":
                nums = [int(x.split(":")[0]) for x in a[2].split(",")]
                if nums != list(range(1, len(nums) + 1)):
                    return f"field numbers are not 1..n: {nums}"
                if "undefined" in a[2]:
                    return "a field refers to a type that is defined nowhere in the generated files"
            elif a[1] == "enum-misnumbered":
                return "enum values are not numbered 0..n-1"
            return None
        if ans in ("panic", "abort"):
            return "panic/abort"
        if not ans.startswith("ok "):
            return None
        items = self.req_items(req)
        ty, val = uperlib.parse_sx(items[0]), uperlib.parse_sx(items[1])
        hexd = ans.split(" ")[1]
        data = unhex(hexd)
        if sc is None or msg is None:
            return "the generated .proto has no message for this type"
        try:
            want = expected_tree(ty, val, msg, sc)
        except SchemaMismatch as e:
            return f"schema does not fit the type: {e}"
        # independent decoder 1: built-in
        try:
            got_py = pb_decode(data, msg, sc)
        except ValueError as e:
            got_py = None
            py_err = str(e)
        got = got_py
        how = "built-in decoder"
        if self.pc.bin and msg.name not in self.pc.dropped.get(module, ()):
            how = "protoc --decode"
            text = self.pre.get((req, hexd))
            try:
                if text is None:
                    text = self.pc.decode(module, msg.name, data)
                got = parse_text(text, msg, sc)
            except ValueError as e:
                return f"protoc cannot parse the octets under the generated schema: {e}"
            got = canon(got)
            if got_py is not None:
                got_py = canon(got_py)
            if got_py is not None and got != got_py:
                return f"(checker) built-in decoder and protoc disagree: {show_tree(got_py)[:100]} vs {show_tree(got)[:100]}"
        if got is None:
            return f"the octets do not parse under the generated schema: {py_err}"
        got, want = canon(got), canon(want)
        if got != want:
            return f"{how} sees {show_tree(got)[:150]} but the value is {show_tree(want)[:150]}"
        return None

    def finding_class(self, req, ans):
        op = req.split(" ")[1]
        if op not in ("schema", "enc"):
            return None
        self.ensure()
        n = self.req_name(req)
        ty = self.pty.get(n)
        if op == "schema":
            bad = []

            def visit(t):
                if t[0] == "seqof" and t[4][0] == "seqof":
                    bad.append("proto.schema_repeated_repeated")
                if t[0] == "choice" and any(a[0] == "seqof" for a in t[4:]):
                    bad.append("proto.schema_repeated_in_oneof")
            walk_ty(ty, visit)
            if not bad and self.pc.bin:
                module, sc, msg = self.message_of(n)
                e = self.pc.errors.get((module, n.split("::")[1])) or ""
                # two names of one message that differ only in case / an underscore (`readOnly`, `readonly`)
                if "JSON camel-case name of field" in e:
                    return "proto.json_name_conflict"
            return bad[0] if bad else None
        items = self.req_items(req)
        ty, val = uperlib.parse_sx(items[0]), uperlib.parse_sx(items[1])
        out = []

        def visit(t, v, parent):
            if t[0] == "seq":
                fs = fields_of(t)
                seen_null = False
                for (k, _, ft), x in zip(fs, v[1:]):
                    if seen_null:
                        out.append("proto.null_field_number")
                    if ft[0] == "null":
                        seen_null = True
            # (proto.int_ext_width — extensible INTEGER written in the 32-bit encoding of its root
            # under a 64-bit schema type — is repaired: no class, a recurrence is a violation)
            if t[0] == "seqof" and t[4][0] == "seqof":
                out.append("proto.schema_repeated_repeated")
            if t[0] == "choice" and any(a[0] == "seqof" for a in t[4:]):
                out.append("proto.schema_repeated_in_oneof")
        pair_walk(ty, val, visit)
        if n in self.set_types:
            out.append("proto.set_field_order")
        return out[0] if out else None

    def tag(self, req, ans):
        op = req.split(" ")[1]
        if op == "schema":
            return "schema:" + ans.split(" ")[0]
        if op == "wire":
            return "wire:" + " ".join(ans.split(" ")[:2])
        return super().tag(req, ans) + (":protoc" if self.pc.bin else ":builtin")


# ------------------------------------------------------------------------------ C18: "for every module"

PROTO_WORDS = ["message", "enum", "package", "syntax", "repeated", "oneof", "import", "option", "reserved", "returns",
               "rpc", "service", "stream", "map", "bool", "string", "bytes", "uint32", "double", "float", "true", "false",
               "max", "to", "extend", "extensions", "group", "public", "weak", "optional", "required", "inf", "nan", "value"]

GEN_MODULE_NAMES = ["Simple", "Fleet-Module", "FleetModule", "My-Module-Defs", "ITS-Container", "CAM-PDU-Descriptions",
                    "ISO-8859", "X-509", "A", "Ab-Cd-Ef", "Abc2", "Abc-2x", "My-Mod3-X", "UPPER", "UPPER-Case", "Camel-CaseName",
                    "Ends-With-", "PKIX1Explicit88", "Mod-a-b", "Package", "Message", "Syntax", "Module"]

GEN_OIDS = ["", "{ iso(1) standard(0) 4711 }", "{ itu-t(0) identified-organization(4) etsi(0) its(5) }", "{ 1 2 3 }",
            "{ iso standard 8859 }", "{ joint-iso-itu-t(2) ds(5) module(1) x-509(7) 2nd(2) }", "{ iso(1) package(2) message(3) }"]

GEN_CLASSES = [
    (r"Expected identifier\. \[`package ;`\]", "proto.package_empty"),
    (r"Fields in oneofs must not have labels", "proto.schema_repeated_in_oneof"),
    (r"repeated repeated|Missing field number|Expected \"=\"", "proto.schema_repeated_repeated"),
]


class ProtoGen(ProtoBase):
    """C18, first half of the statement: for every module the generated .proto file is valid proto3.
    The real generator (harness op `proto gen`) writes the files for generated module texts — module names,
    object identifiers, component / type / item names that are proto3 keywords, random structures — and
    protoc must accept them.  Exploration level: protoc is the oracle, nothing of it is modelled."""
    name = "proto-gen"

    def prepare(self, harness, driver):
        super().prepare(harness, driver)
        self.bin = find_protoc()
        self.scratch = os.path.join(vlib.WORK, "proto_gen")
        shutil.rmtree(self.scratch, ignore_errors=True)
        os.makedirs(self.scratch, exist_ok=True)
        self.verdicts = {}

    @staticmethod
    def module_text(name, oid, body):
        return f"{name} {oid} DEFINITIONS AUTOMATIC TAGS ::= BEGIN\n{body}\nEND\n"

    def gen(self, rng, tier):
        reqs = []
        body = "T ::= SEQUENCE { a INTEGER (0..255), b BOOLEAN OPTIONAL }\nE ::= ENUMERATED { x, y }\nC ::= CHOICE { p T, q E }"
        for n in GEN_MODULE_NAMES:
            for oid in (GEN_OIDS if tier == "thorough" else GEN_OIDS[:1]):
                reqs.append("proto gen " + vlib.hexs(self.module_text(n, oid, body).encode()))
        for oid in GEN_OIDS:
            reqs.append("proto gen " + vlib.hexs(self.module_text("Oid-Mod", oid, body).encode()))
        for w in PROTO_WORDS:
            up = w[0].upper() + w[1:]
            b = (f"{up} ::= SEQUENCE {{ {w} INTEGER (0..7), other BOOLEAN }}\n"
                 f"E{up} ::= ENUMERATED {{ {w}, other }}\n"
                 f"C{up} ::= CHOICE {{ {w} BOOLEAN, other {up} }}\n"
                 f"L{up} ::= SEQUENCE OF {up}")
            reqs.append("proto gen " + vlib.hexs(self.module_text("Words", "", b).encode()))
        # two modules, the second imports from the first (with and without object identifiers)
        for n1, n2 in (("Base-Types", "User-Types"), ("ITS-Container", "CAM-PDU"), ("Lib", "App-2")):
            for oid in GEN_OIDS[:2]:
                a = self.module_text(n1, oid, "Colour ::= ENUMERATED { red, green }\nCar ::= SEQUENCE { c Colour }")
                b = self.module_text(n2, "", f"IMPORTS Colour, Car FROM {n1} {oid};\nFleet ::= SEQUENCE OF Car\n"
                                     "Paint ::= SEQUENCE { main Colour, others SEQUENCE OF Colour, pick CHOICE { a Car, b Colour } }")
                reqs.append("proto gen " + vlib.hexs(a.encode()) + "," + vlib.hexs(b.encode()))
        # names that contain the name of their own / another type: enum values live in the scope of the package,
        # the prefix the generator adds has to keep them apart
        for ty, other in (("DoorState", "Door"), ("Mode", "Mo"), ("Level-Kind", "Level"), ("A", "A-B")):
            lo = ty[0].lower() + ty[1:]
            lo = "".join("-" + c.lower() if c.isupper() else c for c in lo)
            b = (f"{ty} ::= ENUMERATED {{ unknown, open, closed, {lo}-unknown, {lo}-open }}\n"
                 f"{other} ::= ENUMERATED {{ front, rear, {lo}-open, {lo}-closed, unknown }}\n"
                 f"Use{ty.replace('-', '')} ::= SEQUENCE {{ a {ty}, b {other}, c ENUMERATED {{ first, b-{lo}, {lo} }} }}\n"
                 f"Pick{ty.replace('-', '')} ::= CHOICE {{ {lo} {ty}, {lo}-open {other}, open BOOLEAN }}")
            reqs.append("proto gen " + vlib.hexs(self.module_text("Names-In-Names", "", b).encode()))
        # random structures with harmless identifiers (generator of C09)
        from checks import c09
        c09.CLEAN[0] = True
        try:
            r = rng.fork("gen")
            for i in range(150 if tier == "quick" else 1500):
                m = c09.rnd_module(r, name=r.choice(["Rnd-Mod", "RndMod", "Rnd-Mod-2"]))
                reqs.append("proto gen " + vlib.hexs(c09.r_module(m).encode()))
        finally:
            c09.CLEAN[0] = False
        return reqs

    def compare(self, req, impl, model):
        return True          # no model: protoc decides

    def verdict(self, req, ans):
        if req in self.verdicts:
            return self.verdicts[req]
        v = None
        if ans.startswith("ok") and self.bin:
            d = os.path.join(self.scratch, str(len(self.verdicts)))
            os.makedirs(d, exist_ok=True)
            files = []
            for item in ans.split(" ")[1:]:
                f, c = item.split(":")
                f = unhex(f).decode("utf-8", "replace")
                if "/" in f or not f.endswith(".proto") or f in files:
                    v = ("bad-file-name", f"file name `{f}`")
                    break
                files.append(f)
                open(os.path.join(d, f), "wb").write(unhex(c))
            if v is None:
                for f in files:
                    rc, out, err = vlib.sh([self.bin, "-I", d, "-o", os.devnull, os.path.join(d, f)])
                    if rc != 0:
                        lines = [l for l in err.splitlines() if "warning" not in l]
                        first = lines[0] if lines else err[:200]
                        text = open(os.path.join(d, f), encoding="utf-8", errors="replace").read()
                        m = re.match(r"^[^:]+:(\d+):", first)
                        src = text.splitlines()[int(m.group(1)) - 1].strip() if m and int(m.group(1)) <= len(text.splitlines()) else ""
                        v = ("protoc", f"protoc rejects {f}: {first.split(': ', 1)[-1][:120]} [`{src[:80]}`]")
                        break
            shutil.rmtree(d, ignore_errors=True)
        self.verdicts[req] = v
        return v

    def oracle(self, req, ans):
        if ans in ("panic", "abort", "hang"):
            return "the generator panics"
        v = self.verdict(req, ans)
        return v[1] if v else None

    ANON_INNER = re.compile(r"^\s*[\w-]+\s*::=\s*(?:\[[^\]]*\]\s*)?(?:SEQUENCE|SET)\s*(?:\(\s*SIZE\s*\([^)]*\)\s*\))?\s*OF\s+"
                            r"(?:\[[^\]]*\]\s*)?(?:SEQUENCE|SET|CHOICE|ENUMERATED)\s*\{", re.M)

    def finding_class(self, req, ans):
        v = self.verdict(req, ans)
        if not v:
            return None
        for pat, cls in GEN_CLASSES:
            if re.search(pat, v[1]):
                return cls
        if '"value" is already defined' in v[1]:
            texts = [unhex(h).decode("utf-8", "replace") for h in req.split(" ")[2].split(",")]
            if any(re.search(r"CHOICE\s*\{[^{}]*\bvalue\s", t) for t in texts):
                return "proto.oneof_name_collision"
        if "is already defined" in v[1]:
            texts = [unhex(h).decode("utf-8", "replace") for h in req.split(" ")[2].split(",")]
            if any(self.ANON_INNER.search(t) for t in texts):
                return "proto.schema_anonymous_inner"
        return None

    def tag(self, req, ans):
        v = self.verdict(req, ans) if ans.startswith("ok") else None
        return "gen:" + ans.split(" ")[0] + (":" + ans.split(" ")[1].split(":")[0] if ans.startswith("err") else "") + (":rejected" if v else "")

    def nontrivial(self, req, ans):
        return ans.startswith("ok")


# ------------------------------------------------------------- C18: the `package` line and the file name

PKG_ALPHABET = "ABCDEFGHIJKLMNOPQRSTUVWXYZabcdefghijklmnopqrstuvwxyz0123456789-_"
PKG_IDENT = re.compile(r"^[A-Za-z_][A-Za-z0-9_]*$")
PKG_SUFFIXES = ["", "Module", "_Module", "-Module", "Module_Module", "_ModuleModule", "ModuleModule", "module", "MODULE",
                "-", "_", "-2", "_2", "2"]
PKG_STEMS = ["", "A", "a", "Ab", "AB", "ABc", "ABC", "aB", "aBC", "aBc", "A-B", "A-b", "a-B", "A-1", "A1", "1A", "1a", "A-1b",
             "A--B", "A_B", "A__B", "A-_B", "_A", "-A", "_a", "-a", "A-", "A_", "-", "_", "--", "__", "-_", "_-", "0", "007",
             "X-509", "ISO-8859", "UPPER", "UPPERCase", "UPPER-Case", "camelCase", "Camel-CaseName", "Rnd-Mod-2", "RndMod",
             "Fleet", "My-Module-Defs", "ModuleX", "Module-X", "Module", "PKIX1Explicit88", "Mod-a-b", "Z9-9Z", "a1B2c3",
             "ITS-Container", "CAM-PDU-Descriptions", "Ends-With-", "Package", "Message", "Syntax", "X", "x", "I", "IO", "IoT"]
# characters the tokenizer puts into a text token as well (ASCII): never part of an X.680 name
PKG_WIDE = "!#$%&*+/<>?@\\^`|~"
PKG_OID_NAMES = ["iso", "standard", "itu-t", "joint-iso-itu-t", "identified-organization", "x-509", "2nd", "-a", "_a", "a-",
                 "a_", "A", "FooBar", "fooBar", "ABc", "a--b", "a_b", "a-B", "package", "message", "x1", "1x", "-", "_", "0a"]
PKG_OID_NUMBERS = [0, 1, 2, 7, 9, 10, 88, 4711, 8859, 65535, 4294967295, 4294967296, (1 << 63), (1 << 64) - 1]


def pkg_nice(name):
    """`make_name_nice` (asn/model.rs): one trailing `_Module`, then one trailing `Module`"""
    for suffix in ("_Module", "Module"):
        if name.endswith(suffix):
            name = name[:len(name) - len(suffix)]
    return name


def pkg_oid_of_text(text):
    """`{ iso(1) standard(0) 4711 }` -> oid token of the `package` ops (classification of `read_oid`)"""
    inner = text.strip()
    if not inner:
        return "-"
    parts = inner.strip("{} ").split()
    if not parts:
        return "empty"
    out = []
    for p in parts:
        m = re.match(r"^([^()]+)\((\d+)\)$", p)
        if m:
            out.append(f"nn:{vlib.hexs(m.group(1).encode())}:{m.group(2)}")
        elif p.isdigit():
            out.append(f"u:{p}")
        else:
            out.append(f"n:{vlib.hexs(p.encode())}")
    return ",".join(out)


def pkg_parse_oid(token):
    """oid token -> None | list of ("n", name) / ("nn", name, k) / ("u", k)"""
    if token == "-":
        return None
    if token == "empty":
        return []
    out = []
    for part in token.split(","):
        f = part.split(":")
        if f[0] == "u":
            out.append(("u", int(f[1])))
        else:
            out.append((f[0], unhex(f[1]).decode()) + ((int(f[2]),) if f[0] == "nn" else ()))
    return out


class ProtoPackage(ProtoBase):
    """C18, the `package` line and the file name of a generated .proto file: `proto package` asks the pipeline of
    `Converter::to_protobuf` (make_names_nice, to_rust, to_protobuf, generate_file) for a module of that name,
    `proto package-fn` the functions `model_to_package` / `model_file_name` on the argument as it is, `proto istoken`
    the real tokenizer whether a text is one text token (model: `TokenText`).  The model is Proto/Package.lean (exact
    equality); the oracle is the statement of Props/C18Pkg.lean (package_valid, oid_package_valid, file_name_shape,
    alphabet_is_one_token) decided in Python on the implementation's answer.  It never demands a defect: an empty
    package is accepted where the theorem allows it, names outside the alphabet are compared only."""
    name = "proto-package"

    def prepare(self, harness, driver):
        self.h = harness
        self.d = driver

    @staticmethod
    def req(op, name, oid="-"):
        return f"proto {op} {vlib.hexs(name.encode())} {oid}"

    @staticmethod
    def rnd_name(r, alphabet=PKG_ALPHABET):
        kind = r.below(6)
        n = r.range(1, 3) if kind == 0 else r.range(1, 14)
        if kind == 1:      # words separated by hyphens / underscores, as real module names are
            words = []
            for _ in range(r.range(1, 4)):
                w = "".join(r.choice("ABCDEFGHIJKLMNOPQRSTUVWXYZ") if r.chance(1, 3) else r.choice("abcdefghijklmnopqrstuvwxyz0123456789")
                            for _ in range(r.range(1, 5)))
                words.append(w)
            s = r.choice(["-", "_", "-", "--", "-_"]).join(words)
        elif kind == 2:    # few symbols: long runs of capitals, digits and separators
            s = "".join(r.choice("AAb1-_") for _ in range(n))
        else:
            s = "".join(r.choice(alphabet) for _ in range(n))
        if r.chance(1, 3):
            s += r.choice(PKG_SUFFIXES)
        return s

    @staticmethod
    def rnd_oid(r):
        k = r.below(8)
        if k == 0:
            return "empty"
        parts = []
        for _ in range(r.range(1, 5)):
            form = r.below(3)
            nm = r.choice(PKG_OID_NAMES) if r.chance(1, 2) else ProtoPackage.rnd_name(r)
            num = r.choice(PKG_OID_NUMBERS) if r.chance(1, 2) else r.below(1 << r.range(1, 64))
            if form == 0:
                parts.append(f"n:{vlib.hexs(nm.encode())}")
            elif form == 1:
                parts.append(f"nn:{vlib.hexs(nm.encode())}:{num}")
            else:
                parts.append(f"u:{num}")
        return ",".join(parts)

    def gen(self, rng, tier):
        reqs = []
        ops = ("package", "package-fn")
        # 1. corpus: every stem x every suffix, the pools of proto-gen
        names = list(GEN_MODULE_NAMES)
        names += [s + x for s in PKG_STEMS for x in PKG_SUFFIXES]
        oids = [pkg_oid_of_text(t) for t in GEN_OIDS] + ["empty"]
        for n in names:
            for op in ops:
                reqs.append(self.req(op, n))
        for n in GEN_MODULE_NAMES + ["Oid-Mod", "Module", "-", ""]:
            for o in oids:
                reqs.append(self.req("package", n, o))
        # 2. exhaustive: every text of at most 4 (thorough: 5) symbols of {A, b, 1, -, _}
        small = [""]
        layer = [""]
        for _ in range(4 if tier == "quick" else 5):
            layer = [w + c for w in layer for c in "Ab1-_"]
            small += layer
        for n in small:
            reqs.append(self.req("package-fn", n))
        for n in small[:156]:
            reqs.append(self.req("package", n))
            reqs.append(self.req("package", n + "Module"))
        # 3. object identifier components: every boundary name in both name forms, every boundary number
        for nm in PKG_OID_NAMES + PKG_STEMS:
            if nm:
                reqs.append(self.req("package-fn", "X", f"n:{vlib.hexs(nm.encode())}"))
                reqs.append(self.req("package-fn", "X", f"nn:{vlib.hexs(nm.encode())}:7"))
        for k in PKG_OID_NUMBERS:
            reqs.append(self.req("package-fn", "X", f"u:{k}"))
        for n in small[:156]:
            if n:
                reqs.append(self.req("package-fn", "X", f"n:{vlib.hexs(n.encode())},u:1"))
        # 4. text-token characters outside the alphabet (correspondence, and the alphabet hypothesis is sharp)
        for c in PKG_WIDE:
            for n in (c, "A" + c + "B", "a" + c, c + "1", "A-" + c + "Module"):
                reqs.append(self.req("package-fn", n))
                reqs.append(self.req("package", n))
            reqs.append(self.req("package-fn", "X", f"n:{vlib.hexs(('a' + c).encode())}"))
        # 5. the tokenizer: which texts are ONE text token (predicate TokenText of the model; real Tokenizer::parse)
        printable = [chr(c) for c in range(0x20, 0x7f)]
        special = list(":;=(){}.,[]'\"") + ["-", "/", "*", "A", " ", "_"]
        texts = printable + [a + b for a in special for b in special]
        layer = [""]
        for _ in range(4):
            layer = [w + c for w in layer for c in "-/*A"]
            texts += layer
        texts += names[:400] + [c + "A" for c in printable] + ["A" + c for c in printable] + ["A" + c + "B" for c in printable]
        r = rng.fork("tokens")
        for i in range(300 if tier == "quick" else 6000):
            texts.append("".join(r.choice(printable) if r.chance(1, 4) else r.choice(PKG_ALPHABET + "/*")
                                 for _ in range(r.range(1, 10))))
        for t in texts:
            if t:
                reqs.append(f"proto istoken {vlib.hexs(t.encode())}")
        # 6. random
        r = rng.fork("names")
        k = 2400 if tier == "quick" else 32000
        for i in range(k):
            n = self.rnd_name(r)
            reqs.append(self.req(ops[i % 2], n))
        r = rng.fork("oids")
        for i in range(k // 4):
            reqs.append(self.req(ops[i % 2], self.rnd_name(r), self.rnd_oid(r)))
        r = rng.fork("wide")
        for i in range(k // 16):
            reqs.append(self.req(ops[i % 2], self.rnd_name(r, PKG_ALPHABET + PKG_WIDE)))
        return reqs

    @staticmethod
    def parts(req, ans):
        f = req.split(" ")
        a = ans.split(" ")
        if f[1] == "istoken":
            return f[1], unhex(f[2]).decode(), None, a[1], ""
        name = unhex(f[2]).decode()
        oid = pkg_parse_oid(f[3])
        return f[1], name, oid, unhex(a[1]).decode("utf-8", "replace"), unhex(a[2]).decode("utf-8", "replace")

    @staticmethod
    def in_alphabet(s):
        return all(c in PKG_ALPHABET for c in s)

    def oracle(self, req, ans):
        if ans in ("panic", "abort", "hang"):
            return "the generator panics"
        if not ans.startswith("ok "):
            return f"unexpected answer `{ans}`"
        op, name, oid, package, file = self.parts(req, ans)
        if op == "istoken":
            # theorem alphabet_is_one_token: the names the statement speaks about do reach the generator
            if name and self.in_alphabet(name) and "--" not in name and package != "1":
                return f"`{name}` is not delivered as one text token"
            return None
        # what reaches the functions: `make_name_nice` is applied by the parser (op `package` only); the Rust-side
        # mangling in between changes no letter or digit into something else and nothing else into one
        seen = pkg_nice(name) if op == "package" else name
        comps = package.split(".") if package else []
        if oid is None:
            if self.in_alphabet(name):
                # empty ONLY in the characterised case (a repair that invents a name there is welcome);
                # otherwise: identifiers
                if package == "" and any(c.isalnum() for c in seen):
                    return f"package of `{name}` is empty although a letter or digit is left of the name (`{seen}`)"
                for c in comps:
                    if not PKG_IDENT.match(c):
                        return f"package `{package}` of `{name}`: component `{c}` is not an identifier"
            # names with other characters: outside the statement (theorem package_line_valid_iff says the
            # package is then NOT a fullIdent; the oracle does not demand a defect), correspondence only
        else:
            good = all(e[0] == "u" or (e[1] != "" and self.in_alphabet(e[1])) for e in oid)
            if good and oid:
                if len(comps) != len(oid):
                    return f"package `{package}`: {len(comps)} components for {len(oid)} object identifier components"
                for c in comps:
                    if not PKG_IDENT.match(c):
                        return f"package `{package}`: component `{c}` is not an identifier"
                for c, e in zip(comps, oid):
                    if e[0] == "u" and str(e[1]) not in c:
                        return f"package `{package}`: component `{c}` for the number {e[1]}"
        if self.in_alphabet(name):
            if not file.endswith(".proto") or "/" in file:
                return f"file name `{file}` of `{name}`"
        elif not file.endswith(".proto"):
            return f"file name `{file}` of `{name}`"
        return None

    def tag(self, req, ans):
        if not ans.startswith("ok "):
            return req.split(" ")[1] + ":" + ans.split(" ")[0]
        op, name, oid, package, file = self.parts(req, ans)
        if op == "istoken":
            return f"istoken:{'alpha' if self.in_alphabet(name) else 'wide'}:{package}"
        kind = "noid" if oid is None else ("oid0" if not oid else "oid")
        alpha = "alpha" if self.in_alphabet(name) else "wide"
        comps = package.split(".") if package else []
        shape = "empty" if not comps else ("n%d" % min(len(comps), 4)) + ("+underscore" if any(c.startswith("_") for c in comps) else "")
        if comps and not all(PKG_IDENT.match(c) for c in comps):
            shape += "+invalid"
        return f"{op}:{kind}:{alpha}:{shape}"

    def nontrivial(self, req, ans):
        return ans.startswith("ok ") and ans.split(" ")[1] not in ("-", "0")
