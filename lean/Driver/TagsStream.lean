import Asn1Verif.Base.Text
import Asn1Verif.Codegen.Tags
/- line protocol, stream `tags` (C16); request grammar: see harness/src/tags.rs -/
namespace Driver.TagsStream
open Asn1Verif Asn1Verif.Text Asn1Verif.Codegen.Tags

/-- splits at `sep` outside of `[..]` -/
def splitTop (sep : Char) (s : String) : List String :=
  let rec go (cs : List Char) (depth : Nat) (cur : List Char) (acc : List String) : List String :=
    match cs with
    | [] => (String.ofList cur.reverse :: acc).reverse
    | c :: rest =>
      if c = '[' then go rest (depth + 1) (c :: cur) acc
      else if c = ']' then go rest (depth - 1) (c :: cur) acc
      else if c = sep ∧ depth = 0 then go rest depth [] (String.ofList cur.reverse :: acc)
      else go rest depth (c :: cur) acc
  go s.toList 0 [] []

def isDigits (cs : List Char) : Bool := !cs.isEmpty && cs.length ≤ 18 && cs.all Char.isDigit

/-- component names: one lower-case letter and digits -/
def isFieldName (s : String) : Bool :=
  match s.toList with
  | c :: rest => c.isLower && rest.all Char.isDigit
  | [] => false

/-- type names: an upper-case letter, then letters and digits; `Tst…` is reserved for the type
    under test and the inline types the converter extracts from it -/
def isTypeName (s : String) : Bool :=
  match s.toList with
  | c :: rest => c.isUpper && rest.all Char.isAlphanum && !s.startsWith "Tst"
  | [] => false

def parseTag (s : String) : Option (Option Tag) :=
  if s = "-" then some none else
  match s.toList with
  | c :: ds =>
    if isDigits ds then
      let n := (String.ofList ds).toNat!
      if c = 'U' then some (some (Tag.universal n))
      else if c = 'A' then some (some (Tag.application n))
      else if c = 'C' then some (some (Tag.contextSpecific n))
      else if c = 'P' then some (some (Tag.priv n))
      else none
    else none
  | [] => none

def builtinOf (s : String) : Option Builtin :=
  match s with
  | "bool" => some .boolean
  | "int" => some .integer
  | "bits" => some .bitString
  | "octs" => some .octetString
  | "null" => some .null
  | "enum" => some .enumerated
  | "utf8" => some .utf8String
  | "num" => some .numericString
  | "print" => some .printableString
  | "vis" => some .visibleString
  | "ia5" => some .ia5String
  | "seq" => some .sequence
  | "seqof" => some .sequenceOf
  | "set" => some .set
  | "setof" => some .setOf
  | _ => none

/-- `alts` with the `...` markers removed, and the `extension_after` index the real CHOICE
    parser computes (`Choice::try_from`: a marker in front of the first alternative or a second
    marker is a parse error there — such requests are not well-formed here) -/
partial def parseTy (s : String) : Option Ty :=
  match builtinOf s with
  | some k => some (.builtin k)
  | none =>
    if s.startsWith "@" then
      let n := (s.drop 1).toString
      if isTypeName n then some (.ref n) else none
    else if s.startsWith "ch[" ∧ s.endsWith "]" then
      let body := ((s.drop 3).dropEnd 1).toString
      let rec go (items : List String) (alts : List (Option Tag × Ty)) (ext : Option Nat) :
          Option Ty :=
        match items with
        | [] => if alts.isEmpty then none else some (.choice alts.reverse ext)
        | "..." :: rest =>
          if alts.isEmpty || ext.isSome then none else go rest alts (some (alts.length - 1))
        | it :: rest =>
          match it.splitOn "~" with
          | tg :: tyParts =>
            if tyParts.isEmpty then none else
            match parseTag tg, parseTy (String.intercalate "~" tyParts) with
            | some tg, some ty => go rest ((tg, ty) :: alts) ext
            | _, _ => none
          | [] => none
      go (splitTop '|' body) [] none
    else none

def parseField (s : String) : Option Field :=
  match s.splitOn ":" with
  | name :: tg :: tyParts =>
    if tyParts.isEmpty ∨ !isFieldName name then none else
    let tys := String.intercalate ":" tyParts
    let (tys, pres) :=
      if tys.endsWith "?" then ((tys.dropEnd 1).toString, Presence.optional)
      else if tys.endsWith "!" then ((tys.dropEnd 1).toString, Presence.default)
      else (tys, Presence.required)
    if pres = .default ∧ tys ≠ "bool" ∧ tys ≠ "int" then none else
    match parseTag tg, parseTy tys with
    | some tg, some ty => some { name := name, tag := tg, ty := ty, presence := pres }
    | _, _ => none
  | _ => none

def parseComponents (s : String) : Option Components :=
  if s = "-" then some { fields := [], markers := [] } else
  let rec go (items : List String) (fs : List Field) (ms : List Nat) : Option Components :=
    match items with
    | [] => some { fields := fs.reverse, markers := ms.reverse }
    | "..." :: rest => go rest fs (fs.length :: ms)
    | it :: rest =>
      match parseField it with
      | some f => go rest (f :: fs) ms
      | none => none
  go (splitTop ',' s) [] []

def parseDef (s : String) : Option Def :=
  match s.splitOn "=" with
  | [name, rest] =>
    match rest.splitOn ":" with
    | tg :: tyParts =>
      if tyParts.isEmpty ∨ !isTypeName name then none else
      match parseTag tg, parseTy (String.intercalate ":" tyParts) with
      | some tg, some ty => some { name := name, tag := tg, ty := ty }
      | _, _ => none
    | [] => none
  | _ => none

def parseEnv (s : String) : Option Env :=
  if s = "-" then some [] else (splitTop ';' s).mapM parseDef

def tagStr (t : Tag) : String :=
  let c := if t.cls = Consts.TAG_RANK_Universal then "U"
    else if t.cls = Consts.TAG_RANK_Application then "A"
    else if t.cls = Consts.TAG_RANK_ContextSpecific then "C"
    else "P"
  c ++ toString t.num

def listStr (xs : List String) : String := if xs.isEmpty then "-" else String.intercalate "," xs

def emittedStr (e : Emitted) : String :=
  let tags := e.order.map fun n =>
    match e.tags.find? (fun p => p.1 == n) with
    | some p => tagStr p.2
    | none => "?"
  listStr e.order ++ " " ++ listStr tags ++ " " ++
    (match e.extAfter with | some n => toString n | none => "none") ++ " " ++ tagStr e.ownTag

def run (o : EncodingOrdering) (comps defs : String) : String :=
  match parseComponents comps, parseEnv defs with
  | some c, some env =>
    -- the type under test is a definition of the module as well (`Tst`); it contains no
    -- reference to itself and nothing refers to it
    match emit env o c with
    | none => "abort"      -- unreachable (`C16.pipeline_terminates`): the resolver always returns
    | some r => render emittedStr r
  | _, _ => "bad-op"

def handle (args : List String) : String :=
  let go (kind comps defs : String) : String :=
    if kind = "set" ∨ kind = "set!" then run .sort comps defs
    else if kind = "seq" ∨ kind = "seq!" then run .keep comps defs
    else "bad-op"
  match args with
  | [kind, comps] => go kind comps "-"
  | [kind, comps, defs] => go kind comps defs
  | _ => "bad-op"

end Driver.TagsStream
