import Asn1Verif.Base.Text
/- line protocol, stream `tags` — not implemented yet -/
namespace Driver.TagsStream
def handle (_args : List String) : String := "bad-op"
end Driver.TagsStream
