import Asn1Verif.Base.Text
/- line protocol, stream `der` — not implemented yet -/
namespace Driver.DerStream
def handle (_args : List String) : String := "bad-op"
end Driver.DerStream
