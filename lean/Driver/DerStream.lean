import Asn1Verif.Base.Text
import Asn1Verif.Der.Basic
/- line protocol, stream `der` (C20): the model's answers to the requests of `harness/src/der.rs` -/
namespace Driver.DerStream
open Asn1Verif Asn1Verif.Der Asn1Verif.Text

def parseClass (s : String) : Option TagClass :=
  if s = "u" then some .universal
  else if s = "a" then some .application
  else if s = "c" then some .contextSpecific
  else if s = "p" then some .private_
  else none

def classStr : TagClass → String
  | .universal => "u"
  | .application => "a"
  | .contextSpecific => "c"
  | .private_ => "p"

def tagStr (t : Tag) : String := classStr t.cls ++ ":" ++ toString t.number

/-- `u64`/`usize` token -/
def parseU64 (s : String) : Option Nat := do
  let n ← parseNat s
  if n < 2 ^ 64 then some n else none

def parseU32 (s : String) : Option Nat := do
  let n ← parseNat s
  if n < 2 ^ 32 then some n else none

def parseI64 (s : String) : Option Int := do
  let i ← parseInt s
  if inI64 i then some i else none

def parseTag (k n : String) : Option Tag := do
  let c ← parseClass k
  let n ← parseU64 n
  pure ⟨c, n⟩

def parseNumTy (s : String) : Option NumTy :=
  if s = "u8" then some ⟨false, 8⟩ else if s = "u16" then some ⟨false, 16⟩
  else if s = "u32" then some ⟨false, 32⟩ else if s = "u64" then some ⟨false, 64⟩
  else if s = "i8" then some ⟨true, 8⟩ else if s = "i16" then some ⟨true, 16⟩
  else if s = "i32" then some ⟨true, 32⟩ else if s = "i64" then some ⟨true, 64⟩
  else none

/-- tag numbers for which the harness has a type-level constraint (`with_tag!` in der.rs) -/
def typeLevelNumbers : List Nat := [0, 1, 2, 10, 30, 31, 63, 64, 300]

def parseTypeLevelTag (k n : String) : Option Tag := do
  let t ← parseTag k n
  if typeLevelNumbers.contains t.number then some t else none

/-- enumerations of the harness (`with_enum!` in der.rs) -/
def enumCounts : List Nat :=
  [1, 2, 3, 127, 128, 129, 255, 256, 257, 65536, 4294967297, 9223372036854775809,
   18446744073709551615]

def enumTags : List Tag :=
  [⟨.universal, 10⟩, ⟨.application, 31⟩, ⟨.contextSpecific, 0⟩, ⟨.private_, 63⟩, ⟨.universal, 64⟩]

def parseEnum (count k n : String) : Option (Nat × Tag) := do
  let c ← parseU64 count
  let t ← parseTag k n
  if enumCounts.contains c ∧ enumTags.contains t then some (c, t) else none

/-- the enumerations `asn_to_rust!` generates in der.rs: tag and variant count (the harness
    reports the compiled constants under `ginfo`, so the table is checked on every run) -/
def generatedEnum (which : String) : Option (Tag × Nat) :=
  if which = "small" then some (⟨.universal, 10⟩, 3)
  else if which = "tagged" then some (⟨.application, 5⟩, 5)
  else if which = "big" then some (⟨.universal, 10⟩, 260)
  else none

/-- answer of a round-trip request: the writer's bytes, then what the reader made of
    `written ++ post` -/
def rtAnswer {α : Type} (show_ : α → String) (post : List Byte) (written : Outcome (List Byte))
    (read : List Byte → Outcome (α × List Byte)) : String :=
  match written with
  | .panic => "panic"
  | .err k => "err " ++ toString k
  | .ok w =>
    let all := w ++ post
    match read all with
    | .panic => "panic"
    | .err k => "ok " ++ bytesToHex w ++ " err:" ++ toString k
    | .ok (v, rest) =>
      "ok " ++ bytesToHex w ++ " " ++ show_ v ++ " " ++ toString (all.length - rest.length)

/-- answer of a hostile-read request -/
def rdAnswer {α : Type} (show_ : α → String) (inp : List Byte)
    (r : Outcome (α × List Byte)) : String :=
  match r with
  | .panic => "panic"
  | .err k => "err " ++ toString k
  | .ok (v, rest) => "ok " ++ show_ v ++ " " ++ toString (inp.length - rest.length)

def natStr (n : Nat) : String := toString n
def intStr (i : Int) : String := toString i

def handle (args : List String) : String :=
  match args with
  | ["len", n, post] =>
    match parseU64 n, hexToBytes post with
    | some n, some post => rtAnswer natStr post (writeLengthC n) readLength
    | _, _ => "bad-op"
  | ["rlen", h] =>
    match hexToBytes h with
    | some bs => rdAnswer natStr bs (readLength bs)
    | none => "bad-op"
  | ["id", k, n, post] =>
    match parseTag k n, hexToBytes post with
    | some t, some post => rtAnswer tagStr post (.ok (writeIdentifier t)) readIdentifier
    | _, _ => "bad-op"
  | ["rid", h] =>
    match hexToBytes h with
    | some bs => rdAnswer tagStr bs (readIdentifier bs)
    | none => "bad-op"
  | ["bool", v, post] =>
    match parseBool v, hexToBytes post with
    | some v, some post => rtAnswer boolStr post (.ok (writeBoolean v)) readBoolean
    | _, _ => "bad-op"
  | ["rbool", h] =>
    match hexToBytes h with
    | some bs => rdAnswer boolStr bs (readBoolean bs)
    | none => "bad-op"
  | ["i64", v, post] =>
    match parseI64 v, hexToBytes post with
    | some v, some post =>
      let w := writeIntegerI64 v
      rtAnswer intStr post (.ok w) (readIntegerI64 w.length)
    | _, _ => "bad-op"
  | ["u64", v, post] =>
    match parseU64 v, hexToBytes post with
    | some v, some post =>
      let w := writeIntegerU64 v
      rtAnswer natStr post (.ok w) (readIntegerU64 w.length)
    | _, _ => "bad-op"
  | ["ri64", bl, h] =>
    match parseU32 bl, hexToBytes h with
    | some bl, some bs => rdAnswer intStr bs (readIntegerI64 bl bs)
    | _, _ => "bad-op"
  | ["ru64", bl, h] =>
    match parseU32 bl, hexToBytes h with
    | some bl, some bs => rdAnswer natStr bs (readIntegerU64 bl bs)
    | _, _ => "bad-op"
  | ["number", ty, k, n, v, post] =>
    match parseNumTy ty, parseTypeLevelTag k n, parseInt v, hexToBytes post with
    | some ty, some t, some v, some post =>
      if ty.InRange v then rtAnswer intStr post (writeNumberC ty t v) (readNumber ty t)
      else "bad-op"
    | _, _, _, _ => "bad-op"
  | ["rnumber", ty, k, n, h] =>
    match parseNumTy ty, parseTypeLevelTag k n, hexToBytes h with
    | some ty, some t, some bs => rdAnswer intStr bs (readNumber ty t bs)
    | _, _, _ => "bad-op"
  | ["boolean", k, n, v, post] =>
    match parseTypeLevelTag k n, parseBool v, hexToBytes post with
    | some t, some v, some post =>
      rtAnswer boolStr post (.ok (writeBooleanTlv t v)) (readBooleanTlv t)
    | _, _, _ => "bad-op"
  | ["rboolean", k, n, h] =>
    match parseTypeLevelTag k n, hexToBytes h with
    | some t, some bs => rdAnswer boolStr bs (readBooleanTlv t bs)
    | _, _ => "bad-op"
  | ["enum", count, k, n, index, post] =>
    match parseEnum count k n, parseU64 index, hexToBytes post with
    | some (c, t), some i, some post =>
      if i < c then rtAnswer natStr post (writeEnumeratedC t i) (readEnumerated t c) else "bad-op"
    | _, _, _ => "bad-op"
  | ["renum", count, k, n, h] =>
    match parseEnum count k n, hexToBytes h with
    | some (c, t), some bs => rdAnswer natStr bs (readEnumerated t c bs)
    | _, _ => "bad-op"
  | ["genum", which, index, post] =>
    match generatedEnum which, parseU64 index, hexToBytes post with
    | some (t, c), some i, some post =>
      if i < c then rtAnswer natStr post (writeEnumeratedC t i) (readEnumerated t c) else "bad-op"
    | _, _, _ => "bad-op"
  | ["rgenum", which, h] =>
    match generatedEnum which, hexToBytes h with
    | some (t, c), some bs => rdAnswer natStr bs (readEnumerated t c bs)
    | _, _ => "bad-op"
  | ["ginfo", which] =>
    match generatedEnum which with
    | some (t, c) => "ok " ++ tagStr t ++ " " ++ toString c
    | none => "bad-op"
  | _ => "bad-op"

end Driver.DerStream
