import Asn1Verif.Base.Text
import Asn1Verif.Bits.Buffer
/- line protocol, stream `bits` (L0) -/
namespace Driver.BitsStream
open Asn1Verif Asn1Verif.Bits Asn1Verif.Text

def pairStr (p : List Byte × Nat) : String := bytesToHex p.1 ++ " " ++ toString p.2

/-- one operation on a `BitBuffer`; returns new state and the textual result -/
def bufOp (b : BitBuffer) (tok : String) : Option (Outcome (BitBuffer × String)) :=
  match tok.splitOn ":" with
  | ["wb", x] => do
    let x ← parseBool x
    pure ((b.writeBit x).bind fun b' => .ok (b', "ok"))
  | ["w", hex, off, len] => do
    let src ← hexToBytes hex; let off ← parseNat off; let len ← parseNat len
    pure ((b.writeBitsWithOffsetLen src off len).bind fun b' => .ok (b', "ok"))
  | ["wo", hex, off] => do
    let src ← hexToBytes hex; let off ← parseNat off
    pure ((b.writeBitsWithOffset src off).bind fun b' => .ok (b', "ok"))
  | ["wl", hex, len] => do
    let src ← hexToBytes hex; let len ← parseNat len
    pure ((b.writeBitsWithLen src len).bind fun b' => .ok (b', "ok"))
  | ["ww", hex] => do
    let src ← hexToBytes hex
    pure ((b.writeBits src).bind fun b' => .ok (b', "ok"))
  | ["patch", pos, x] => do
    let pos ← parseNat pos; let x ← parseBool x
    pure ((b.patchBit pos x).bind fun b' => .ok (b', "ok"))
  | ["init", hex, len] => do
    let bs ← hexToBytes hex; let len ← parseNat len
    if len > bs.length * 8 then none else
    pure ((BitBuffer.fromBits bs len).bind fun b' => .ok (b', "ok"))
  | "at" :: pos :: "wb" :: [x] => do
    let pos ← parseNat pos; let x ← parseBool x
    pure ((b.atPos pos fun b => b.writeBit x).bind fun b' => .ok (b', "ok"))
  | "at" :: pos :: "w" :: [hex, off, len] => do
    let pos ← parseNat pos; let src ← hexToBytes hex; let off ← parseNat off; let len ← parseNat len
    pure ((b.atPos pos fun b => b.writeBitsWithOffsetLen src off len).bind fun b' => .ok (b', "ok"))
  | "at" :: pos :: "wo" :: [hex, off] => do
    let pos ← parseNat pos; let src ← hexToBytes hex; let off ← parseNat off
    pure ((b.atPos pos fun b => b.writeBitsWithOffset src off).bind fun b' => .ok (b', "ok"))
  | "at" :: pos :: "wl" :: [hex, len] => do
    let pos ← parseNat pos; let src ← hexToBytes hex; let len ← parseNat len
    pure ((b.atPos pos fun b => b.writeBitsWithLen src len).bind fun b' => .ok (b', "ok"))
  | "at" :: pos :: "ww" :: [hex] => do
    let pos ← parseNat pos; let src ← hexToBytes hex
    pure ((b.atPos pos fun b => b.writeBits src).bind fun b' => .ok (b', "ok"))
  | ["rb"] => pure (b.readBit.bind fun (x, b') => .ok (b', boolStr x))
  | ["r", dstlen, off, len] => do
    let n ← parseNat dstlen; let off ← parseNat off; let len ← parseNat len
    pure ((b.readBitsWithOffsetLen (List.replicate n 0#8) off len).bind
      fun (d, b') => .ok (b', bytesToHex d))
  | ["ro", dstlen, off] => do
    let n ← parseNat dstlen; let off ← parseNat off
    pure ((b.readBitsWithOffset (List.replicate n 0#8) off).bind fun (d, b') => .ok (b', bytesToHex d))
  | ["rl", dstlen, len] => do
    let n ← parseNat dstlen; let len ← parseNat len
    pure ((b.readBitsWithLen (List.replicate n 0#8) len).bind fun (d, b') => .ok (b', bytesToHex d))
  | ["rr", dstlen] => do
    let n ← parseNat dstlen
    pure ((b.readBits (List.replicate n 0#8)).bind fun (d, b') => .ok (b', bytesToHex d))
  | _ => none

/-- runs the operations; an `Err` leaves the state as it is (the real buffer is not modified by a
    failing call) and the sequence continues; a panic ends the sequence -/
def bufOps (b : BitBuffer) (toks : List String) (acc : List String) : String :=
  match toks with
  | [] => String.intercalate " " (acc.reverse ++
      ["|", bytesToHex b.buffer, toString b.wp, toString b.rp])
  | t :: rest =>
    match bufOp b t with
    | none => "bad-op"
    | some (.ok (b', s)) => bufOps b' rest (s :: acc)
    | some (.err k) => bufOps b rest (("err:" ++ toString k) :: acc)
    | some .panic => String.intercalate " " (acc.reverse ++ ["panic"])

def viewOp (b : BitsView) (tok : String) : Option (Outcome (BitsView × String)) :=
  match tok.splitOn ":" with
  | ["rb"] => pure (b.readBit.bind fun (x, b') => .ok (b', boolStr x))
  | ["r", dstlen, off, len] => do
    let n ← parseNat dstlen; let off ← parseNat off; let len ← parseNat len
    pure ((b.readBitsWithOffsetLen (List.replicate n 0#8) off len).bind
      fun (d, b') => .ok (b', bytesToHex d))
  | ["ro", dstlen, off] => do
    let n ← parseNat dstlen; let off ← parseNat off
    pure ((b.readBitsWithOffset (List.replicate n 0#8) off).bind fun (d, b') => .ok (b', bytesToHex d))
  | ["rl", dstlen, len] => do
    let n ← parseNat dstlen; let len ← parseNat len
    pure ((b.readBitsWithLen (List.replicate n 0#8) len).bind fun (d, b') => .ok (b', bytesToHex d))
  | ["rr", dstlen] => do
    let n ← parseNat dstlen
    pure ((b.readBits (List.replicate n 0#8)).bind fun (d, b') => .ok (b', bytesToHex d))
  | ["pos", p] => do
    let p ← parseNat p
    let b' := b.setPos p
    pure (.ok (b', toString b'.pos))
  | ["len", l] => do
    let l ← parseNat l
    let b' := b.setLen l
    pure (.ok (b', toString b'.len))
  | ["rem"] => pure (.ok (b, toString b.remaining))
  | _ => none

def viewOps (b : BitsView) (toks : List String) (acc : List String) : String :=
  match toks with
  | [] => String.intercalate " " (acc.reverse ++ ["|", toString b.pos, toString b.len])
  | t :: rest =>
    match viewOp b t with
    | none => "bad-op"
    | some (.ok (b', s)) => viewOps b' rest (s :: acc)
    | some (.err k) => viewOps b rest (("err:" ++ toString k) :: acc)
    | some .panic => String.intercalate " " (acc.reverse ++ ["panic"])

def handle (args : List String) : String :=
  match args with
  | ["sw", dst, pos, src, off, len] =>
    match hexToBytes dst, parseNat pos, hexToBytes src, parseNat off, parseNat len with
    | some dst, some pos, some src, some off, some len =>
      render pairStr (sliceWriteBitsWithOffsetLen dst pos src off len)
    | _, _, _, _, _ => "bad-op"
  | ["sr", src, pos, dst, off, len] =>
    match hexToBytes src, parseNat pos, hexToBytes dst, parseNat off, parseNat len with
    | some src, some pos, some dst, some off, some len =>
      render pairStr (sliceReadBitsWithOffsetLen src pos dst off len)
    | _, _, _, _, _ => "bad-op"
  | ["swo", dst, pos, src, off] =>
    match hexToBytes dst, parseNat pos, hexToBytes src, parseNat off with
    | some dst, some pos, some src, some off => render pairStr (sliceWriteBitsWithOffset dst pos src off)
    | _, _, _, _ => "bad-op"
  | ["sro", src, pos, dst, off] =>
    match hexToBytes src, parseNat pos, hexToBytes dst, parseNat off with
    | some src, some pos, some dst, some off => render pairStr (sliceReadBitsWithOffset src pos dst off)
    | _, _, _, _ => "bad-op"
  | ["swb", dst, pos, x] =>
    match hexToBytes dst, parseNat pos, parseBool x with
    | some dst, some pos, some x => render pairStr (sliceWriteBit dst pos x)
    | _, _, _ => "bad-op"
  | ["srb", src, pos] =>
    match hexToBytes src, parseNat pos with
    | some src, some pos => render (fun (p : Bool × Nat) => boolStr p.1 ++ " " ++ toString p.2) (sliceReadBit src pos)
    | _, _ => "bad-op"
  | "buf" :: ops => bufOps {} ops []
  | "view" :: hex :: len :: ops =>
    match hexToBytes hex, parseNat len with
    | some bs, some len =>
      match BitsView.fromSliceLen bs len with
      | .ok v => viewOps v ops []
      | .err k => "err " ++ toString k
      | .panic => "panic"
    | _, _ => "bad-op"
  | _ => "bad-op"

end Driver.BitsStream
