import Asn1Verif.Base.Text
/- line protocol, stream `per` — not implemented yet -/
namespace Driver.PerStream
def handle (_args : List String) : String := "bad-op"
end Driver.PerStream
