import Asn1Verif.Base.Text
import Asn1Verif.Per.Prim
/- line protocol, stream `per` (L1) -/
namespace Driver.PerStream
open Asn1Verif Asn1Verif.Per Asn1Verif.Text

def fnvBits (bs : Bits) : Nat :=
  bs.foldl (fun h b => ((h ^^^ b.toNat) * 0x100000001b3) % 2 ^ 64) 0xcbf29ce484222325

def hex16 (n : Nat) : String :=
  String.ofList ((List.range 16).map fun i => hexDigit ((n / 16 ^ (15 - i)) % 16))

def genBytes (n seed : Nat) : List (BitVec 8) :=
  (List.range n).map fun i => BitVec.ofNat 8 ((i * 37 + seed * 101 + i / 256) % 2 ^ 64 % 256)

def wr (o : Outcome Bits) : String := render bitsToString o

def rd {α : Type} (f : α → String) (total : Nat) (o : Outcome (α × Bits)) : String :=
  render (fun (p : α × Bits) => f p.1 ++ " " ++ toString (total - p.2.length)) o

def inU64 (n : Nat) : Bool := n ≤ U64_MAX
def optInU64 : Option Nat → Bool
  | none => true
  | some n => inU64 n

def handle (args : List String) : String :=
  match args with
  | ["w-nnbi", lb, ub, v] =>
    match parseOptNat lb, parseOptNat ub, parseNat v with
    | some lb, some ub, some v => if optInU64 lb && optInU64 ub && inU64 v then wr (wNNBI lb ub v) else "bad-op"
    | _, _, _ => "bad-op"
  | ["w-len", lb, ub, v] =>
    match parseOptNat lb, parseOptNat ub, parseNat v with
    | some lb, some ub, some v =>
      if optInU64 lb && optInU64 ub && inU64 v then
        render (fun (p : Bits × Option Nat) => bitsToString p.1 ++ " " ++
          (match p.2 with | none => "none" | some f => toString f)) (wLen lb ub v)
      else "bad-op"
    | _, _, _ => "bad-op"
  | ["w-2s", bl, v] =>
    match parseNat bl, parseInt v with
    | some bl, some v => if inU64 bl && inI64 v then wr (w2s bl v) else "bad-op"
    | _, _ => "bad-op"
  | ["w-con", lb, ub, v] =>
    match parseInt lb, parseInt ub, parseInt v with
    | some lb, some ub, some v => if inI64 lb && inI64 ub && inI64 v then wr (wConstrained lb ub v) else "bad-op"
    | _, _, _ => "bad-op"
  | ["w-small", v] =>
    match parseNat v with
    | some v => if inU64 v then wr (wSmall v) else "bad-op"
    | _ => "bad-op"
  | ["w-semi", lb, v] =>
    match parseInt lb, parseInt v with
    | some lb, some v => if inI64 lb && inI64 v then wr (wSemi lb v) else "bad-op"
    | _, _ => "bad-op"
  | ["w-unc", v] =>
    match parseInt v with
    | some v => if inI64 v then wr (wUnconstrained v) else "bad-op"
    | _ => "bad-op"
  | ["w-idx", std, ext, i] =>
    match parseNat std, parseBool ext, parseNat i with
    | some std, some ext, some i => if inU64 std && inU64 i then wr (wIndex std ext i) else "bad-op"
    | _, _, _ => "bad-op"
  | ["w-oct", lb, ub, ext, h] =>
    match parseOptNat lb, parseOptNat ub, parseBool ext, hexToBytes h with
    | some lb, some ub, some ext, some d => if optInU64 lb && optInU64 ub then wr (wOctets lb ub ext d) else "bad-op"
    | _, _, _, _ => "bad-op"
  | ["w-bits", lb, ub, ext, b] =>
    match parseOptNat lb, parseOptNat ub, parseBool ext, parseBits b with
    | some lb, some ub, some ext, some d => if optInU64 lb && optInU64 ub then wr (wBitString lb ub ext d) else "bad-op"
    | _, _, _, _ => "bad-op"
  | ["rt-octn", lb, ub, ext, n, seed] =>
    match parseOptNat lb, parseOptNat ub, parseBool ext, parseNat n, parseNat seed with
    | some lb, some ub, some ext, some n, some seed =>
      let data := genBytes n seed
      match wOctets lb ub ext data with
      | .ok bits =>
        let rt := match rOctets lb ub ext bits with
          | .ok (v, rest) => boolStr (v == data) ++ " " ++ toString rest.length
          | .err k => "readerr:" ++ toString k
          | .panic => "readpanic"
        "ok " ++ toString bits.length ++ " " ++ hex16 (fnvBits bits) ++ " " ++ rt
      | .err k => "err " ++ toString k
      | .panic => "panic"
    | _, _, _, _, _ => "bad-op"
  | ["rt-bitsn", lb, ub, ext, n, seed] =>
    match parseOptNat lb, parseOptNat ub, parseBool ext, parseNat n, parseNat seed with
    | some lb, some ub, some ext, some n, some seed =>
      let data := (bytesBits (genBytes ((n + 7) / 8) seed)).take n
      match wBitString lb ub ext data with
      | .ok bits =>
        let rt := match rBitString lb ub ext bits with
          | .ok (v, rest) => boolStr (v == data) ++ " " ++ toString rest.length
          | .err k => "readerr:" ++ toString k
          | .panic => "readpanic"
        "ok " ++ toString bits.length ++ " " ++ hex16 (fnvBits bits) ++ " " ++ rt
      | .err k => "err " ++ toString k
      | .panic => "panic"
    | _, _, _, _, _ => "bad-op"
  | ["r-nnbi", lb, ub, b] =>
    match parseOptNat lb, parseOptNat ub, parseBits b with
    | some lb, some ub, some b => if optInU64 lb && optInU64 ub then rd toString b.length (rNNBI lb ub b) else "bad-op"
    | _, _, _ => "bad-op"
  | ["r-len", lb, ub, b] =>
    match parseOptNat lb, parseOptNat ub, parseBits b with
    | some lb, some ub, some b => if optInU64 lb && optInU64 ub then rd toString b.length (rLen lb ub b) else "bad-op"
    | _, _, _ => "bad-op"
  | ["r-2s", bl, b] =>
    match parseNat bl, parseBits b with
    | some bl, some b => if inU64 bl then rd toString b.length (r2s bl b) else "bad-op"
    | _, _ => "bad-op"
  | ["r-con", lb, ub, b] =>
    match parseInt lb, parseInt ub, parseBits b with
    | some lb, some ub, some b => if inI64 lb && inI64 ub then rd toString b.length (rConstrained lb ub b) else "bad-op"
    | _, _, _ => "bad-op"
  | ["r-small", b] =>
    match parseBits b with
    | some b => rd toString b.length (rSmall b)
    | _ => "bad-op"
  | ["r-semi", lb, b] =>
    match parseInt lb, parseBits b with
    | some lb, some b => if inI64 lb then rd toString b.length (rSemi lb b) else "bad-op"
    | _, _ => "bad-op"
  | ["r-unc", b] =>
    match parseBits b with
    | some b => rd toString b.length (rUnconstrained b)
    | _ => "bad-op"
  | ["r-idx", std, ext, b] =>
    match parseNat std, parseBool ext, parseBits b with
    | some std, some ext, some b => if inU64 std then rd toString b.length (rIndex std ext b) else "bad-op"
    | _, _, _ => "bad-op"
  | ["r-oct", lb, ub, ext, b] =>
    match parseOptNat lb, parseOptNat ub, parseBool ext, parseBits b with
    | some lb, some ub, some ext, some b =>
      if optInU64 lb && optInU64 ub then rd bytesToHex b.length (rOctets lb ub ext b) else "bad-op"
    | _, _, _, _ => "bad-op"
  | ["r-bits", lb, ub, ext, b] =>
    match parseOptNat lb, parseOptNat ub, parseBool ext, parseBits b with
    | some lb, some ub, some ext, some b =>
      if optInU64 lb && optInU64 ub then rd bitsToString b.length (rBitString lb ub ext b) else "bad-op"
    | _, _, _, _ => "bad-op"
  | _ => "bad-op"

end Driver.PerStream
