import Asn1Verif.Uper.Sexpr
import Asn1Verif.Proto.Codec
import Asn1Verif.Proto.Schema
/- line protocol, stream `proto` (C17, C18, protobuf part of C04) -/
namespace Driver.ProtoStream
open Asn1Verif Asn1Verif.Uper Asn1Verif.Proto Asn1Verif.Text

/-- the reader variant the code currently is: selected by the translator (`Gen/Consts.lean`),
    `none` = unchecked lengths (panics), `some` = with the bound checks of the fix: commits -/
def currentFix : Option Asn1Verif.Proto.Fix :=
  if Asn1Verif.Consts.PROTO_READER_CHECKED then some ⟨.endOfStream, true⟩ else none


def rest (args : List String) : Option (List Sx) := sxParse (sxTokens (String.intercalate " " args))

/-- `<hex>` / `err:<class>` / `panic` -/
def short (o : Outcome (List (BitVec 8))) : String :=
  match o with
  | .ok b => bytesToHex b
  | .err k => "err:" ++ toString k
  | .panic => "panic"

def handle (args : List String) : String :=
  match args with
  | ["files"] => "skip"
  | ["sets"] => "skip"
  | "schema" :: _ => "skip"
  | "gen" :: _ => "skip"
  | "enc" :: _ :: r =>
    match rest r with
    | some [t, v] =>
      match tyOfSx t, valOfSx v with
      | some t, some v =>
        match encode t v with
        | .ok bytes =>
          let n := bytes.length
          let exact := short (encodeTo ⟨some n, []⟩ t v)
          let less := if n = 0 then "-" else
            match encodeTo ⟨some (n - 1), []⟩ t v with
            | .ok b => "ok:" ++ bytesToHex b
            | .err k => "err:" ++ toString k
            | .panic => "panic"
          "ok " ++ bytesToHex bytes ++ " slice:" ++ exact ++ " short:" ++ less
        | .err .illTyped => "bad-op"
        | .err k => "err " ++ toString k
        | .panic => "panic"
      | _, _ => "bad-op"
    | _ => "bad-op"
  | "rt" :: _ :: r =>
    match rest r with
    | some [t, v] =>
      match tyOfSx t, valOfSx v with
      | some t, some v =>
        match encode t v with
        | .ok bytes =>
          match decode currentFix t bytes with
          | .ok v' =>
            "ok " ++ bytesToHex bytes ++ " " ++ valToSx v' ++ " eq:" ++ boolStr (v == v') ++
              " peq:" ++ boolStr (Val.protoEq t v v')
          | .err k => "ok " ++ bytesToHex bytes ++ " readerr:" ++ toString k
          | .panic => "ok " ++ bytesToHex bytes ++ " readpanic"
        | .err .illTyped => "bad-op"
        | .err k => "err " ++ toString k
        | .panic => "panic"
      | _, _ => "bad-op"
    | _ => "bad-op"
  | "dec" :: _ :: r =>
    match rest r with
    | some [t, Sx.atom h] =>
      match tyOfSx t, hexToBytes h with
      | some t, some bytes => render valToSx (decode currentFix t bytes)
      | _, _ => "bad-op"
    | _ => "bad-op"
  -- the same input under the repaired reader (DESIGN.md R7/R10): never compared with the code
  | "decfix" :: _ :: r =>
    match rest r with
    | some [t, Sx.atom h] =>
      match tyOfSx t, hexToBytes h with
      | some t, some bytes => render valToSx (decode (some ⟨.endOfStream, true⟩) t bytes)
      | _, _ => "bad-op"
    | _ => "bad-op"
  -- `peq x <Ty> <Val> <Val>`: the model of `ProtobufEq` (the harness answers `err unsupported` for
  -- shapes it has no crate implementation to call: compared only where it answers `ok`)
  | "peq" :: _ :: r =>
    match rest r with
    | some [t, a, b] =>
      match tyOfSx t, valOfSx a, valOfSx b with
      | some t, some a, some b => "ok " ++ boolStr (Val.protoEq t a b)
      | _, _, _ => "bad-op"
    | _ => "bad-op"
  -- schema model: `wire <name> <Ty>` -> numbers and declared types of the generated definition
  | "wire" :: _ :: r =>
    match rest r with
    | some [t] =>
      match tyOfSx t with
      | some t => "ok " ++ Schema.render t
      | none => "bad-op"
    | _ => "bad-op"
  | _ => "bad-op"

end Driver.ProtoStream
