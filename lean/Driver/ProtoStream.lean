import Asn1Verif.Uper.Sexpr
import Asn1Verif.Proto.Codec
import Asn1Verif.Proto.Schema
import Asn1Verif.Proto.Package
/- line protocol, stream `proto` (C17, C18, protobuf part of C04) -/
namespace Driver.ProtoStream
open Asn1Verif Asn1Verif.Uper Asn1Verif.Proto Asn1Verif.Text

/-- the reader variant the code currently is: selected by the translator (`Gen/Consts.lean`),
    `none` = unchecked lengths (panics), `some` = with the bound checks of the fix: commits -/
def currentFix : Option Asn1Verif.Proto.Fix :=
  if Asn1Verif.Consts.PROTO_READER_CHECKED then some ⟨.endOfStream, true⟩ else none


def rest (args : List String) : Option (List Sx) := sxParse (sxTokens (String.intercalate " " args))

/-- `<hex>` / `err:<class>` / `panic` -/
def short (o : Outcome (List (BitVec 8))) : String :=
  match o with
  | .ok b => bytesToHex b
  | .err k => "err:" ++ toString k
  | .panic => "panic"

/-! ### `package` / `package-fn`: Proto/Package.lean -/

/-- hex of ASCII bytes → characters; `none` = malformed, `some none` = contains a non-ASCII byte -/
def nameOfHex (s : String) : Option (Option (List Char)) :=
  match hexToBytes s with
  | none => none
  | some bs =>
    if bs.all (fun b => b.toNat < 128) then some (some (bs.map fun b => Char.ofNat b.toNat))
    else some none

def hexOfName (n : List Char) : String :=
  bytesToHex (n.map fun c => BitVec.ofNat 8 c.toNat)

/-- a `u64` in decimal digits -/
def u64OfString (s : String) : Option Nat :=
  if s.isEmpty || !s.toList.all Char.isDigit then none else
  match s.toNat? with
  | some k => if k < 2 ^ 64 then some k else none
  | none => none

/-- one component `n:<hex>` / `nn:<hex>:<u64>` / `u:<u64>`; `some none` = non-ASCII name -/
def oidCompOfToken (t : String) : Option (Option Package.OidComp) :=
  match t.splitOn ":" with
  | ["n", h] =>
    match nameOfHex h with
    | none => none
    | some none => some none
    | some (some n) => some (some (.nameForm n))
  | ["nn", h, k] =>
    match nameOfHex h, u64OfString k with
    | none, _ => none
    | _, none => none
    | some none, _ => some none
    | some (some n), some k => some (some (.nameAndNumberForm n k))
  | ["u", k] => (u64OfString k).map fun k => some (.numberForm k)
  | _ => none

def oidCompsOfTokens : List String → Option (Option (List Package.OidComp))
  | [] => some (some [])
  | t :: ts =>
    match oidCompOfToken t, oidCompsOfTokens ts with
    | none, _ => none
    | _, none => none
    | some (some c), some (some cs) => some (some (c :: cs))
    | _, _ => some none

/-- `-` = no object identifier, `empty` = `{ }`, else components joined by `,` -/
def oidOfToken (t : String) : Option (Option (Option Package.Oid)) :=
  if t = "-" then some (some none)
  else if t = "empty" then some (some (some []))
  else
    match oidCompsOfTokens (t.splitOn ",") with
    | none => none
    | some none => some none
    | some (some cs) => some (some (some cs))

def packageAnswer (h oid : String) (pkg : List Char → Option Package.Oid → List Char)
    (file : List Char → List Char) : String :=
  match nameOfHex h, oidOfToken oid with
  | none, _ => "bad-op"
  | _, none => "bad-op"
  | some (some n), some (some o) => "ok " ++ hexOfName (pkg n o) ++ " " ++ hexOfName (file n)
  | _, _ => "skip"

def handle (args : List String) : String :=
  match args with
  | ["package", h, oid] => packageAnswer h oid Package.packageOfModule Package.fileNameOfModule
  | ["istoken", h] =>
    match nameOfHex h with
    | none => "bad-op"
    | some none => "skip"
    | some (some n) => "ok " ++ boolStr (Package.TokenText n)
  | ["package-fn", h, oid] => packageAnswer h oid Package.modelToPackage Package.modelFileName
  | ["files"] => "skip"
  | ["sets"] => "skip"
  | "schema" :: _ => "skip"
  | "gen" :: _ => "skip"
  | "enc" :: _ :: r =>
    match rest r with
    | some [t, v] =>
      match tyOfSx t, valOfSx v with
      | some t, some v =>
        match encode t v with
        | .ok bytes =>
          let n := bytes.length
          let exact := short (encodeTo ⟨some n, []⟩ t v)
          let less := if n = 0 then "-" else
            match encodeTo ⟨some (n - 1), []⟩ t v with
            | .ok b => "ok:" ++ bytesToHex b
            | .err k => "err:" ++ toString k
            | .panic => "panic"
          "ok " ++ bytesToHex bytes ++ " slice:" ++ exact ++ " short:" ++ less
        | .err .illTyped => "bad-op"
        | .err k => "err " ++ toString k
        | .panic => "panic"
      | _, _ => "bad-op"
    | _ => "bad-op"
  | "rt" :: _ :: r =>
    match rest r with
    | some [t, v] =>
      match tyOfSx t, valOfSx v with
      | some t, some v =>
        match encode t v with
        | .ok bytes =>
          match decode currentFix t bytes with
          | .ok v' =>
            "ok " ++ bytesToHex bytes ++ " " ++ valToSx v' ++ " eq:" ++ boolStr (v == v') ++
              " peq:" ++ boolStr (Val.protoEq t v v')
          | .err k => "ok " ++ bytesToHex bytes ++ " readerr:" ++ toString k
          | .panic => "ok " ++ bytesToHex bytes ++ " readpanic"
        | .err .illTyped => "bad-op"
        | .err k => "err " ++ toString k
        | .panic => "panic"
      | _, _ => "bad-op"
    | _ => "bad-op"
  | "dec" :: _ :: r =>
    match rest r with
    | some [t, Sx.atom h] =>
      match tyOfSx t, hexToBytes h with
      | some t, some bytes => render valToSx (decode currentFix t bytes)
      | _, _ => "bad-op"
    | _ => "bad-op"
  -- the same input under the repaired reader (DESIGN.md R7/R10): never compared with the code
  | "decfix" :: _ :: r =>
    match rest r with
    | some [t, Sx.atom h] =>
      match tyOfSx t, hexToBytes h with
      | some t, some bytes => render valToSx (decode (some ⟨.endOfStream, true⟩) t bytes)
      | _, _ => "bad-op"
    | _ => "bad-op"
  -- `peq x <Ty> <Val> <Val>`: the model of `ProtobufEq` (the harness answers `err unsupported` for
  -- shapes it has no crate implementation to call: compared only where it answers `ok`)
  | "peq" :: _ :: r =>
    match rest r with
    | some [t, a, b] =>
      match tyOfSx t, valOfSx a, valOfSx b with
      | some t, some a, some b => "ok " ++ boolStr (Val.protoEq t a b)
      | _, _, _ => "bad-op"
    | _ => "bad-op"
  -- schema model: `wire <name> <Ty>` -> numbers and declared types of the generated definition
  | "wire" :: _ :: r =>
    match rest r with
    | some [t] =>
      match tyOfSx t with
      | some t => "ok " ++ Schema.render t
      | none => "bad-op"
    | _ => "bad-op"
  | _ => "bad-op"

end Driver.ProtoStream
