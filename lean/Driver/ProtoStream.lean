import Asn1Verif.Base.Text
/- line protocol, stream `proto` — not implemented yet -/
namespace Driver.ProtoStream
def handle (_args : List String) : String := "bad-op"
end Driver.ProtoStream
