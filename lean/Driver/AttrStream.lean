import Asn1Verif.Base.Text
/- line protocol, stream `attr` — not implemented yet -/
namespace Driver.AttrStream
def handle (_args : List String) : String := "bad-op"
end Driver.AttrStream
