import Asn1Verif.Base.Text
import Asn1Verif.Codegen.Attr
/- line protocol, stream `attr` (C08): attribute printer and parser answered by the model -/
namespace Driver.AttrStream
open Asn1Verif Asn1Verif.Text Asn1Verif.Codegen.Names Asn1Verif.Codegen.Attr

/-! ### text helpers -/

def strOf (n : List Char) : String := String.ofList n

def hexOfChars (n : List Char) : String :=
  bytesToHex (n.map fun c => BitVec.ofNat 8 c.toNat)

def charsOfHex (s : String) : Option (List Char) :=
  (hexToBytes s).bind fun bs =>
    if bs.all (fun b => b.toNat < 128) then some (bs.map fun b => Char.ofNat b.toNat) else none

/-- splits at commas that are not inside parentheses -/
def splitTop (s : List Char) : List (List Char) :=
  let rec go (s : List Char) (depth : Nat) (cur : List Char) (acc : List (List Char)) :=
    match s with
    | [] => (cur.reverse :: acc).reverse
    | c :: r =>
      if c = '(' then go r (depth + 1) (c :: cur) acc
      else if c = ')' then go r (depth - 1) (c :: cur) acc
      else if c = ',' ∧ depth = 0 then go r depth [] (cur.reverse :: acc)
      else go r depth (c :: cur) acc
  go s 0 [] []

/-- `name(args)` → (name, args split at top-level commas); a bare name has no args -/
def call (s : List Char) : Option (List Char × List (List Char)) :=
  match s.span (· ≠ '(') with
  | (name, []) => some (name, [])
  | (name, _ :: rest) =>
    match rest.reverse with
    | ')' :: inner => some (name, splitTop inner.reverse)
    | _ => none

def natOf (s : List Char) : Option Nat := (strOf s).toNat?
def intOf (s : List Char) : Option Int := (strOf s).toInt?
def flagOf (s : List Char) : Option Bool := parseBool (strOf s)
def optIntOf (s : List Char) : Option (Option Int) :=
  if s = "none".toList then some none else (intOf s).map some

def sizeOf? (s : List Char) : Option Size := do
  let (n, args) ← call s
  match strOf n, args with
  | "any", [] => some .any
  | "fix", [a, e] => do some (.fix (← natOf a) (← flagOf e))
  | "range", [a, b, e] => do some (.range (← natOf a) (← natOf b) (← flagOf e))
  | _, _ => none

def tagOf (s : List Char) : Option (Option Tag) :=
  if s = "none".toList then some none else
  match s with
  | k :: r => do
    let n ← natOf r
    if k = 'u' then some (some (.universal n))
    else if k = 'a' then some (some (.application n))
    else if k = 'c' then some (some (.contextSpecific n))
    else if k = 'p' then some (some (.priv n))
    else none
  | [] => none

def litOf (s : List Char) : Option Lit :=
  match s with
  | 'b' :: r => (flagOf r).map .bool
  | 'i' :: r => (intOf r).map .int
  | 's' :: r => (charsOfHex (strOf r)).map .str
  | 'o' :: r => (hexToBytes (strOf r)).map fun bs => .octets (bs.map (·.toNat))
  | 'e' :: r =>
    match r.span (· ≠ '.') with
    | (a, _ :: b) => some (.enumVariant a b)
    | _ => none
  | _ => none

def constsOf (s : List Char) : Option (List (Name × Int)) :=
  if s = ['-'] then some [] else
  ((strOf s).splitOn ":").mapM fun c =>
    match c.toList.span (· ≠ '=') with
    | (n, _ :: v) => (intOf v).map fun i => (n, i)
    | _ => none

def charsetOf (s : List Char) : Option Charset :=
  match strOf s with
  | "utf8" => some .utf8 | "numeric" => some .numeric | "printable" => some .printable
  | "ia5" => some .ia5 | "visible" => some .visible | _ => none

def typeOf : Nat → List Char → Option AType
  | 0, _ => none
  | fuel + 1, s => do
    let (n, args) ← call s
    match strOf n, args with
    | "bool", [] => some .boolean
    | "null", [] => some .null
    | "int", [a, b, e, cs] => do
      some (.integer (← optIntOf a) (← optIntOf b) (← flagOf e) (← constsOf cs))
    | "str", [c, sz] => do some (.string (← sizeOf? sz) (← charsetOf c))
    | "oct", [sz] => do some (.octetString (← sizeOf? sz))
    | "bits", [sz] => do some (.bitString (← sizeOf? sz))
    | "opt", [t] => do some (.optional (← typeOf fuel t))
    | "def", [t, l] => do some (.default (← typeOf fuel t) (← litOf l))
    | "seqof", [sz, t] => do some (.sequenceOf (← typeOf fuel t) (← sizeOf? sz))
    | "setof", [sz, t] => do some (.setOf (← typeOf fuel t) (← sizeOf? sz))
    | "ref", [nm, tg] => do some (.complex nm (← tagOf tg))
    | _, _ => none

/-- constants of every integer of the spec, in order of appearance (what the harness hands to the
    real `Field::with_constants`), and the type without them -/
def stripConsts : AType → AType × List (Name × Int)
  | .integer a b e cs => (.integer a b e [], cs)
  | .optional t => let (t', cs) := stripConsts t; (.optional t', cs)
  | .default t v => let (t', cs) := stripConsts t; (.default t' v, cs)
  | .sequenceOf t s => let (t', cs) := stripConsts t; (.sequenceOf t' s, cs)
  | .setOf t s => let (t', cs) := stripConsts t; (.setOf t' s, cs)
  | t => (t, [])

/-- a spec the harness can turn into a `RustType`: an integer with an open bound is a `u64` -/
def representable : AType → Bool
  | .integer (some _) (some _) _ _ => true
  | .integer a b _ _ => decide (0 ≤ a.getD 0) && decide (0 ≤ b.getD 0)
  | .optional t | .default t _ | .sequenceOf t _ | .setOf t _ => representable t
  | _ => true

def fieldOfSpec (spec : String) : Option FieldIn :=
  match spec.splitOn ";" with
  | [t, tg] => do
    let ty ← typeOf (t.length + 1) t.toList
    let tag ← tagOf tg.toList
    if !representable ty then none else
    let (ty', cs) := stripConsts ty
    some { ty := ty', tag := tag, consts := cs }
  | _ => none

/-! ### rendering -/

def hex2 (n : Nat) : String := String.ofList [hexDigit (n / 16 % 16), hexDigit (n % 16)]

def tokStr : Tok → String
  | .ident s => "i:" ++ strOf s
  | .num n => "n:" ++ toString n
  | .hex n => "n:0x" ++ hex2 n
  | .str s => "s:" ++ hexOfChars s
  | .punct c => "p:" ++ String.singleton c
  | .lp => "(" | .rp => ")" | .lb => "[" | .rb => "]"

def sizeStr : Size → String
  | .any => "any"
  | .fix n e => s!"fix({n},{boolStr e})"
  | .range a b e => s!"range({a},{b},{boolStr e})"

def tagStr : Option Tag → String
  | none => "none"
  | some (.universal n) => s!"u{n}"
  | some (.application n) => s!"a{n}"
  | some (.contextSpecific n) => s!"c{n}"
  | some (.priv n) => s!"p{n}"

def litStr : Lit → String
  | .bool b => "b" ++ boolStr b
  | .int i => "i" ++ toString i
  | .str s => "s" ++ hexOfChars s
  | .octets bs => "o" ++ bytesToHex (bs.map fun b => BitVec.ofNat 8 b)
  | .enumVariant a b => "e" ++ strOf a ++ "." ++ strOf b

def optIntStr : Option Int → String
  | none => "none"
  | some i => toString i

def csStr : Charset → String
  | .utf8 => "utf8" | .numeric => "numeric" | .printable => "printable" | .ia5 => "ia5"
  | .visible => "visible"

def typeStr : AType → String
  | .boolean => "bool"
  | .null => "null"
  | .integer a b e cs =>
    let c := if cs.isEmpty then "-" else
      String.intercalate ":" (cs.map fun (n, v) => strOf n ++ "=" ++ toString v)
    s!"int({optIntStr a},{optIntStr b},{boolStr e},{c})"
  | .string sz cs => s!"str({csStr cs},{sizeStr sz})"
  | .octetString sz => s!"oct({sizeStr sz})"
  | .bitString sz => s!"bits({sizeStr sz})"
  | .optional t => s!"opt({typeStr t})"
  | .default t v => s!"def({typeStr t},{litStr v})"
  | .sequenceOf t sz => s!"seqof({sizeStr sz},{typeStr t})"
  | .setOf t sz => s!"setof({sizeStr sz},{typeStr t})"
  | .complex n tg => s!"ref({(strOf n).replace " " ""},{tagStr tg})"

def roleStr (r : Role) : String := typeStr r.ty ++ ";" ++ tagStr r.tag

/-! ### lexer for the `rt` op (the subset of Rust's token grammar that attributes use) -/

def isIdStart (c : Char) : Bool := c.isAlpha || c == '_'
def isIdCont (c : Char) : Bool := c.isAlphanum || c == '_'

def hexNat (s : List Char) : Option Nat :=
  s.foldlM (fun acc c => (hexVal c).map fun v => acc * 16 + v) 0

/-- `none` = not lexable by this subset (the driver then answers `skip`) -/
def lex : Nat → List Char → Option (List Tok)
  | 0, _ => none
  | _, [] => some []
  | fuel + 1, c :: r =>
    if c = ' ' ∨ c = '\n' ∨ c = '\t' then lex fuel r
    else if c = '(' then (lex fuel r).map (.lp :: ·)
    else if c = ')' then (lex fuel r).map (.rp :: ·)
    else if c = '[' then (lex fuel r).map (.lb :: ·)
    else if c = ']' then (lex fuel r).map (.rb :: ·)
    else if isIdStart c then
      let (w, rest) := (c :: r).span isIdCont
      -- byte / raw string and byte char literals (`b"…"`, `r"…"`, `b'a'`) are outside the subset
      if (w == ['b'] || w == ['r'] || w == ['b', 'r']) &&
          (match rest with | d :: _ => d == '"' || d == '\'' || d == '#' | [] => false) then none else
      (lex fuel rest).map (.ident w :: ·)
    else if c.isDigit then
      match c, r with
      | '0', 'x' :: r1 =>
        let (w, rest) := r1.span fun d => (hexVal d).isSome
        if w.isEmpty || (match rest with | d :: _ => isIdCont d | [] => false) then none else
        (hexNat w).bind fun n => (lex fuel rest).map (.hex n :: ·)
      | _, _ =>
        let (w, rest) := (c :: r).span Char.isDigit
        -- a suffix, a float or an exponent is outside the subset
        match rest with
        | d :: _ => if isIdCont d then none else
            (natOf w).bind fun n => (lex fuel rest).map (.num n :: ·)
        | [] => (natOf w).bind fun n => (lex fuel rest).map (.num n :: ·)
    else if c = '"' then
      let (w, rest) := r.span (· ≠ '"')
      if w.any (· = '\\') then none else
      match rest with
      | _ :: rest' => (lex fuel rest').map (.str w :: ·)
      | [] => none
    else if c = ',' ∨ c = '.' ∨ c = ':' ∨ c = '-' ∨ c = '<' ∨ c = '>' ∨ c = '=' ∨ c = ';' ∨ c = '+'
        ∨ c = '*' ∨ c = '!' ∨ c = '&' ∨ c = '|' ∨ c = '#' ∨ c = '?' ∨ c = '@' ∨ c = '^' ∨ c = '%'
        ∨ c = '~' ∨ c = '/' ∨ c = '$' then
      (lex fuel r).map (.punct c :: ·)
    else none

/-- groups must nest properly, parenthesis with parenthesis, bracket with bracket; the stack
    holds `true` for an open `(` and `false` for an open `[` -/
def balancedS : List Bool → List Tok → Bool
  | st, [] => st.isEmpty
  | st, .lp :: r => balancedS (true :: st) r
  | st, .lb :: r => balancedS (false :: st) r
  | true :: st, .rp :: r => balancedS st r
  | false :: st, .rb :: r => balancedS st r
  | _, .rp :: _ => false
  | _, .rb :: _ => false
  | st, _ :: r => balancedS st r

def balanced (_ : Nat) (ts : List Tok) : Bool := balancedS [] ts

/-- string literals are printed raw between quotes: the token-level printer is faithful only when
    no character needs escaping -/
def plain : AType → Bool
  | .default t (.str s) => plain t && !(s.any fun c => c = '"' ∨ c = '\\' ∨ c.toNat < 32)
  | .optional t | .default t _ | .sequenceOf t _ | .setOf t _ => plain t
  | _ => true

def handle (args : List String) : String :=
  match args with
  | ["print", spec] =>
    if spec.toList.any (fun c => c.toNat ≥ 128) then "skip" else
    match fieldOfSpec spec with
    | none => "bad-op"
    | some f =>
      if !plain f.ty then "skip" else
      "ok " ++ String.intercalate " " ((fieldToks f).map tokStr)
  | ["prt", spec] =>
    match fieldOfSpec spec with
    | none => "bad-op"
    | some f =>
      if !plain f.ty then "skip" else
      -- the Rust type the generator prints for a top-level reference is the referenced name
      let rustTy := match f.ty with | .complex n _ => n | _ => []
      match parseField rustTy (fieldToks f) with
      | some r => "ok " ++ roleStr r
      | none => "err parse"
  | ["rt", attrHex, tyHex] =>
    match charsOfHex attrHex, charsOfHex tyHex with
    | some text, some ty =>
      match lex (text.length + 1) text with
      | none => "skip"
      | some toks =>
        if !balanced 0 toks then "err lex" else
        match parseField (ty.filter (· ≠ ' ')) toks with
        | some r => "ok " ++ roleStr r
        | none => "err parse"
    | _, _ => "skip"
  | "reparse" :: _ => "skip"
  | _ => "bad-op"

end Driver.AttrStream
