import Asn1Verif.Base.Text
import Asn1Verif.Front.Parser
import Asn1Verif.Front.Resolve
/-
  line protocol, stream `parse` (front end: tokens → `Model<Asn<Unresolved>>` → resolve)

    parse mod  <hex text>          → ok <dump of the unresolved model> | err <class>
    parse rt   <hex text> [...]    → ok <unresolved dump> <resolved dump | err:<class>> | err <class>
                                     (further arguments are for the oracle and ignored)
    parse fuzz <hex text>          → ok | err parse:<class> | err resolve:<class> | skip

  The text is tokenized by `simpleTokenize`: split at blanks (` `, `\t`, `\r`, `\n`) and at the 13
  separator characters.  That agrees with the real tokenizer on text without comments, without
  control characters and — for the literal reconstruction — with one blank between the tokens of
  a string literal (canonical rendering).  `fuzz` answers `skip` outside that domain.

  The canonical dump (one token, no blanks) is documented in tools/front_gen.py.
-/
namespace Driver.ParseStream
open Asn1Verif Asn1Verif.Front.Syn Asn1Verif.Text

/-! ### text → tokens -/

def isSeparatorChar (c : Char) : Bool :=
  c = ':' || c = ';' || c = '=' || c = '(' || c = ')' || c = '{' || c = '}' || c = '.' ||
  c = ',' || c = '[' || c = ']' || c = '\'' || c = '"'

def isBlank (c : Char) : Bool := c = ' ' || c = '\t' || c = '\r' || c = '\n'

def flush (cur : List Char) (acc : List Token) : List Token :=
  if cur.isEmpty then acc else .text (String.ofList cur.reverse) :: acc

/-- State of the splitter inside a `"…"` / `'…'` literal.  The real parser rebuilds the text of a
    literal from token *columns*: a token that starts `g` columns after the end of the previous one
    is preceded by `g` blanks (none before the first token).  The parser model works without
    locations and inserts exactly one blank (canonical layout); for `g ≥ 2` the other `g - 1` blanks
    are made part of the token text here (a separator inside a literal then becomes a text token,
    which `stringLoop` treats alike), so that model and code denote the same string for every
    one-line layout whose tokens are at least one blank apart. -/
structure LitSt where
  lit : Option Char := none      -- the open delimiter
  seen : Bool := false           -- a token of the literal has been read
  blanks : Nat := 0              -- blanks since the end of the previous token

def LitSt.pad (l : LitSt) : List Char :=
  if l.lit.isSome && l.seen then List.replicate (l.blanks - 1) ' ' else []

def tokenizeAux (aware : Bool) : List Char → List Char → List Token → LitSt → List Token
  | [], cur, acc, _ => (flush cur acc).reverse
  | c :: rest, cur, acc, l =>
    if isBlank c then
      let l := if cur.isEmpty then { l with blanks := l.blanks + 1 } else { l with blanks := 1, seen := true }
      tokenizeAux aware rest [] (flush cur acc) l
    else if isSeparatorChar c then
      let l := if cur.isEmpty then l else { l with blanks := 0, seen := true }
      let acc := flush cur acc
      match l.lit with
      | some d =>
        if c = d then tokenizeAux aware rest [] (.sep c :: acc) {}
        else
          let tok : Token := if l.pad.isEmpty then .sep c else .text (String.ofList (l.pad ++ [c]))
          tokenizeAux aware rest [] (tok :: acc) { l with blanks := 0, seen := true }
      | none =>
        if aware && (c = '"' || c = '\'') then tokenizeAux aware rest [] (.sep c :: acc) { lit := some c }
        else tokenizeAux aware rest [] (.sep c :: acc) l
    else
      -- `cur` is reversed: the padding goes underneath the first character of a new token
      let cur := if cur.isEmpty then c :: l.pad else c :: cur
      tokenizeAux aware rest cur acc l

/-- `aware = true` (texts of the grammar-based generators, where a `"` / `'` only ever delimits a
    literal): gaps inside literals are kept as described at `LitSt`.  `aware = false` (`parse fuzz`:
    arbitrary texts, a stray delimiter may appear where the parser reads no literal; the answer
    carries no literal anyway): the plain blank/separator splitter. -/
def simpleTokenize (s : String) (aware : Bool := true) : List Token := tokenizeAux aware s.toList [] [] {}

def decodeText (hex : String) : Option String := do
  let bs ← hexToBytes hex
  String.fromUTF8? (ByteArray.mk (bs.map fun b => b.toNat.toUInt8).toArray)

/-! ### canonical dump -/

def sx (head : String) (args : List String) : String :=
  "(" ++ String.intercalate "," (head :: args) ++ ")"

def hexOfString (s : String) : String :=
  String.join (s.toUTF8.toList.map fun b => byteToHex (BitVec.ofNat 8 b.toNat))

def hexOfBytes (bs : List Nat) : String :=
  String.join (bs.map fun b => byteToHex (BitVec.ofNat 8 b))

def dumpTag : Option Tag → String
  | none => "-"
  | some (.universal n) => "U" ++ toString n
  | some (.application n) => "A" ++ toString n
  | some (.contextSpecific n) => "C" ++ toString n
  | some (.priv n) => "P" ++ toString n

def dumpCharset : Charset → String
  | .utf8 => "utf8" | .numeric => "numeric" | .printable => "printable"
  | .ia5 => "ia5" | .visible => "visible"

def dumpBool (b : Bool) : String := if b then "1" else "0"

def dumpLor {α : Type} (f : α → String) : LitOrRef α → String
  | .lit a => f a
  | .ref n => "@" ++ n

def dumpSize {α : Type} (f : α → String) : Size α → String
  | .any => "any"
  | .fix n e => sx "fix" [f n, dumpBool e]
  | .range a b e => sx "range" [f a, f b, dumpBool e]

def dumpOpt {α : Type} (f : α → String) : Option α → String
  | none => "-"
  | some a => f a

/-- marker position as the number of root components (`extension_after + 1`) -/
def dumpExt : Option Nat → String
  | none => "-"
  | some k => toString (k + 1)

def dumpLit : LiteralValue → String
  | .boolean b => sx "b" [dumpBool b]
  | .string s => sx "s" [hexOfString s]
  | .integer i => sx "i" [toString i]
  | .octetString bs => sx "o" [hexOfBytes bs]
  | .enumeratedVariant t v => sx "e" [t, v]

def dumpConstants {α : Type} (f : α → String) (cs : List (String × α)) : String :=
  sx "c" (cs.map fun (n, v) => "(" ++ n ++ "," ++ f v ++ ")")

def dumpEnum (e : Enumerated) : String :=
  sx "enum" (dumpExt e.extAfter :: e.variants.map fun v => sx "v" [v.name, dumpOpt toString v.number])

section
variable {S I C : Type} (fS : S → String) (fI : I → String) (fC : C → String)

mutual
def dumpTy : Ty S I C → String
  | .boolean => "bool"
  | .null => "null"
  | .integer r cs => sx "int" [dumpOpt fI r.min, dumpOpt fI r.max, dumpBool r.ext, dumpConstants toString cs]
  | .string s c => sx "str" [dumpCharset c, dumpSize fS s]
  | .octetString s => sx "oct" [dumpSize fS s]
  | .bitString s cs => sx "bit" [dumpSize fS s, dumpConstants toString cs]
  | .optional t => sx "opt" [dumpTy t]
  | .sequence fs e => sx "seq" (dumpExt e :: dumpFields fs)
  | .sequenceOf t s => sx "seqof" [dumpSize fS s, dumpTy t]
  | .set fs e => sx "set" (dumpExt e :: dumpFields fs)
  | .setOf t s => sx "setof" [dumpSize fS s, dumpTy t]
  | .enumerated e => dumpEnum e
  | .choice vs e => sx "choice" (dumpExt e :: dumpVariants vs)
  | .typeReference n t => sx "ref" [n, dumpTag t]
def dumpFields : Fields S I C → List String
  | .nil => []
  | .cons n t ty d rest => sx "f" [n, dumpTag t, dumpTy ty, dumpOpt fC d] :: dumpFields rest
def dumpVariants : Variants S I C → List String
  | .nil => []
  | .cons n t ty rest => sx "a" [n, dumpTag t, dumpTy ty] :: dumpVariants rest
end

def dumpOidComponent : OidComponent → String
  | .nameForm n => sx "n" [n]
  | .numberForm k => sx "u" [toString k]
  | .nameAndNumberForm n k => sx "nn" [n, toString k]

def dumpOid : Option Oid → String
  | none => "-"
  | some cs => sx "oid" (cs.map dumpOidComponent)

def dumpImport (i : Import) : String :=
  sx "imp" [i.«from», dumpOid i.fromOid, sx "w" i.what]

def dumpModule (m : Module S I C) : String :=
  sx "mod" [m.name, dumpOid m.oid,
    sx "imports" (m.imports.map dumpImport),
    sx "vrefs" (m.valueReferences.map fun v => sx "vr" [v.name, dumpTy fS fI fC v.ty, dumpLit v.value]),
    sx "defs" (m.definitions.map fun d => sx "def" [d.name, dumpTag d.tag, dumpTy fS fI fC d.ty])]
end

def dumpU (m : UModule) : String :=
  dumpModule (dumpLor toString) (dumpLor toString) (dumpLor dumpLit) m

def dumpR (m : RModule) : String :=
  dumpModule toString toString dumpLit m

/-! ### requests -/

def errStr (e : FErr) : String := toString e

def noComment : List Char → Bool
  | '-' :: '-' :: _ => false
  | '/' :: '*' :: _ => false
  | _ :: r => noComment r
  | [] => true

/-- text on which `simpleTokenize` agrees with the real tokenizer: printable ASCII and blanks,
    no comment opener -/
def inTokenDomain (s : String) : Bool :=
  let cs := s.toList
  cs.all (fun c => (c.toNat ≥ 32 && c.toNat < 127) || c = '\n' || c = '\t' || c = '\r')
    && noComment cs

/-- … and on which the outcome class does not depend on the column layout of literals: the
    content of a `"…"` literal never decides between ok and err, that of a `'…'H/B` literal does
    when it is spread over several lines (columns restart) -/
def inFuzzDomain (s : String) : Bool :=
  let cs := s.toList
  inTokenDomain s && !(cs.contains '\'' && (cs.contains '\n' || cs.contains '\r'))

def handle (args : List String) : String :=
  match args with
  | ["mod", hex] =>
    match decodeText hex with
    | none => "bad-op"
    | some text =>
      if !inTokenDomain text then "skip" else
      match parseModule (simpleTokenize text) with
      | .ok m => "ok " ++ dumpU m
      | .error e => "err " ++ errStr e
  | "rt" :: hex :: _ =>
    match decodeText hex with
    | none => "bad-op"
    | some text =>
      if !inTokenDomain text then "skip" else
      match parseModule (simpleTokenize text) with
      | .ok m =>
        "ok " ++ dumpU m ++ " " ++
          (match tryResolve m with
           | .ok r => dumpR r
           | .error e => "err:" ++ errStr e)
      | .error e => "err " ++ errStr e
  | ["fuzz", hex] =>
    match decodeText hex with
    | none => "bad-op"
    | some text =>
      if !inFuzzDomain text then "skip"
      else match parseModule (simpleTokenize text false) with
        | .error e => "err parse:" ++ errStr e
        | .ok m =>
          match tryResolve m with
          | .error e => "err resolve:" ++ errStr e
          | .ok _ => "ok"
  | _ => "bad-op"

end Driver.ParseStream
