import Asn1Verif.Base.Text
/- line protocol, stream `parse` — not implemented yet -/
namespace Driver.ParseStream
def handle (_args : List String) : String := "bad-op"
end Driver.ParseStream
