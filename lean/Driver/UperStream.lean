import Asn1Verif.Uper.Sexpr
import Asn1Verif.Uper.Impl
import Asn1Verif.Uper.Scope
import Asn1Verif.X691.Encode
/- line protocol, stream `uper` (L2) -/
namespace Driver.UperStream
open Asn1Verif Asn1Verif.Uper Asn1Verif.Per Asn1Verif.Text

def rest (args : List String) : Option (List Sx) := sxParse (sxTokens (String.intercalate " " args))

def errStr (k : ErrKind) : String := toString k

/-- an ill-typed request is `bad-op` on both sides -/
def renderOr {α : Type} (f : α → String) : Outcome α → String
  | .ok a => "ok " ++ f a
  | .err .illTyped => "bad-op"
  | .err k => "err " ++ toString k
  | .panic => "panic"

def decodeStr (t : Ty) (bits : Bits) : Except String (String × Nat) :=
  match dec t bits 0 with
  | .ok (v, p) => .ok (valToSx v, p)
  | .err k => .error (toString k)
  | .panic => .error "PANIC"

/-- several values through one writer, then read back in order from one reader -/
def many (items : List (Ty × Val)) : String :=
  let rec wr (items : List (Ty × Val)) (acc : Bits) : Outcome Bits :=
    match items with
    | [] => .ok acc
    | (t, v) :: r =>
      match enc t v with
      | .ok b => wr r (acc ++ b)
      | .err k => .err k
      | .panic => .panic
  match wr items [] with
  | .err .illTyped => "bad-op"
  | .err k => "err " ++ toString k
  | .panic => "panic"
  | .ok bits =>
    let rec rd (items : List (Ty × Val)) (pos : Nat) (acc : List String) : List String × Nat :=
      match items with
      | [] => (acc.reverse, pos)
      | (t, _) :: r =>
        match dec t bits pos with
        | .ok (v, p) => rd r p (valToSx v :: acc)
        | .err k => ((("readerr:" ++ toString k) :: acc).reverse, pos)
        | .panic => (("readpanic" :: acc).reverse, pos)
    let (outs, pos) := rd items 0 []
    String.intercalate " " (["ok", bitsToString bits] ++ outs ++ [toString (bits.length - pos)])

/-! ### every request of the ops `enc`, `rt`, `dec`, `conf`, `cross`, `many` is answered by the
     compositional mirror (`Uper/Impl.lean`: `enc`, `dec`, `many`) AND by the faithful scope machine
     (`Uper/Scope.lean`: `encS`, `decS`, `manyS`); the two answers have to be the same -/

def encS (t : Ty) (v : Val) : Outcome Bits :=
  match Scope.encode t v with
  | .ok w => .ok w.bits
  | .err k => .err k
  | .panic => .panic

def decS (t : Ty) (bits : Bits) (pos : Nat) : Outcome (Val × Nat) :=
  match Scope.decode t bits pos with
  | .ok (v, r) => .ok (v, r.pos)
  | .err k => .err k
  | .panic => .panic

def decAnswer (r : Outcome (Val × Nat)) : String :=
  renderOr (fun (p : Val × Nat) => valToSx p.1 ++ " " ++ toString p.2) r

def rtWith (E : Ty → Val → Outcome Bits) (D : Ty → Bits → Nat → Outcome (Val × Nat)) (t : Ty) (v : Val) :
    String :=
  match E t v with
  | .ok bits =>
    match D t bits 0 with
    | .ok (v', p) => "ok " ++ bitsToString bits ++ " " ++ valToSx v' ++ " " ++ toString (bits.length - p)
    | .err k => "ok " ++ bitsToString bits ++ " readerr:" ++ toString k ++ " -"
    | .panic => "ok " ++ bitsToString bits ++ " readpanic -"
  | .err .illTyped => "bad-op"
  | .err k => "err " ++ toString k
  | .panic => "panic"

def crossWith (E : Ty → Val → Outcome Bits) (D : Ty → Bits → Nat → Outcome (Val × Nat)) (tw : Ty) (v : Val)
    (tr : Ty) (sentinel : Bits) : String :=
  match E tw v with
  | .ok bits =>
    let r := match D tr (bits ++ sentinel) 0 with
      | .ok (v', p) => valToSx v' ++ " " ++ toString p
      | .err k => "readerr:" ++ toString k ++ " -"
      | .panic => "readpanic -"
    "ok " ++ bitsToString bits ++ " " ++ r
  | .err .illTyped => "bad-op"
  | .err k => "err " ++ toString k
  | .panic => "panic"

/-- one writer, one reader -/
def manyS (items : List (Ty × Val)) : String :=
  let rec wr (items : List (Ty × Val)) (w : Scope.W) : Outcome Scope.W :=
    match items with
    | [] => .ok w
    | (t, v) :: r =>
      match Scope.write t v w with
      | .ok w' => wr r w'
      | .err k => .err k
      | .panic => .panic
  match wr items (Scope.W.fresh false) with
  | .err .illTyped => "bad-op"
  | .err k => "err " ++ toString k
  | .panic => "panic"
  | .ok w =>
    let bits := w.bits
    let rec rd (items : List (Ty × Val)) (r : Scope.R) (acc : List String) : List String × Nat :=
      match items with
      | [] => (acc.reverse, r.pos)
      | (t, _) :: rest =>
        match Scope.read t bits r with
        | .ok (v, r') => rd rest r' (valToSx v :: acc)
        | .err k => ((("readerr:" ++ toString k) :: acc).reverse, r.pos)
        | .panic => (("readpanic" :: acc).reverse, r.pos)
    let (outs, pos) := rd items { pos := 0, len := bits.length, scope := none } []
    String.intercalate " " (["ok", bitsToString bits] ++ outs ++ [toString (bits.length - pos)])

/-- a request of more than 24000 characters (a list of ≈ 2500 elements, a string of 12000
    characters, an input of 24000 bits) is answered by the compositional mirror alone: both readers
    are quadratic in the length of the input (`inp.drop pos`, `inp.length` per primitive,
    `raw.drop` per character) and such requests (lists and strings of 16K+ items, there for the
    fragmentation of the length determinant, which both models take from the same L1 functions)
    keep the compositional mirror busy for 10–60 s -/
def big (args : List String) : Bool := (args.map String.length).foldl (· + ·) 0 > 24000

/-- `a`: the answer of the compositional mirror, `b`: the answer of the scope machine -/
def same (a b : String) : String := if a == b then a else "scope-mismatch " ++ a ++ " | " ++ b

def handle (args : List String) : String :=
  match args with
  | ["list"] => "skip"
  -- the order of the variants of a generated enum is that of the ASN.1 text (expected names computed by
  -- tools/consts_stream.py; nothing of the naming is modelled here)
  | ["variants", _, expected] => "ok " ++ expected
  | "desc" :: _ => "skip"
  | "gen" :: _ => "skip"
  | "enc" :: _ :: r =>
    match rest r with
    | some [t, v] =>
      match tyOfSx t, valOfSx v with
      | some t, some v =>
        if !t.consistent then "inconsistent-descriptor"
        else if big args then renderOr bitsToString (enc t v)
        else same (renderOr bitsToString (enc t v)) (renderOr bitsToString (encS t v))
      | _, _ => "bad-op"
    | _ => "bad-op"
  | ["charset", cs, lo, hi] =>
    match charsetOf cs, parseNat lo, parseNat hi with
    | some cs, some lo, some hi =>
      "ok " ++ String.ofList ((List.range (hi - lo)).map fun i =>
        let cp := lo + i
        if 0xD800 ≤ cp ∧ cp < 0xE000 ∨ cp ≥ 0x110000 then 'x'
        else if cs.isValid cp then '1' else '0')
    | _, _, _ => "bad-op"
  | "desccheck" :: _ :: r =>
    match rest r with
    | some [t] =>
      match tyOfSx t with
      | some ty => if ty.consistent then "ok " ++ String.intercalate " " r else "inconsistent-descriptor"
      | none => "bad-op"
    | _ => "bad-op"
  | "conf" :: _ :: r =>
    match rest r with
    | some [t, v] =>
      match tyOfSx t, valOfSx v with
      | some t, some v =>
        if t.consistent then
          (if big args then renderOr bitsToString (enc t v)
           else same (renderOr bitsToString (enc t v)) (renderOr bitsToString (encS t v))) ++ " x691:" ++
            (match X691.encode t v with | some b => bitsToString b | none => "none")
        else "inconsistent-descriptor"
      | _, _ => "bad-op"
    | _ => "bad-op"
  | "xenc" :: _ :: r =>
    match rest r with
    | some [t, v] =>
      match tyOfSx t, valOfSx v with
      | some t, some v =>
        (match X691.encode t v with | some b => "ok " ++ bitsToString b | none => "none")
      | _, _ => "bad-op"
    | _ => "bad-op"
  | "xdec" :: _ :: r =>
    match rest r with
    | some [t, _, Sx.atom b] =>
      match tyOfSx t, parseBits b with
      | some t, some bits =>
        if t.consistent then
          renderOr (fun (p : Val × Nat) => valToSx p.1 ++ " " ++ toString p.2) (dec t bits 0)
        else "inconsistent-descriptor"
      | _, _ => "bad-op"
    | _ => "bad-op"
  | "dec" :: _ :: r =>
    match rest r with
    | some [t, Sx.atom b] =>
      match tyOfSx t, parseBits b with
      | some t, some bits =>
        if !t.consistent then "inconsistent-descriptor"
        else if big args then decAnswer (dec t bits 0)
        else same (decAnswer (dec t bits 0)) (decAnswer (decS t bits 0))
      | _, _ => "bad-op"
    | _ => "bad-op"
  | "rt" :: _ :: r =>
    match rest r with
    | some [t, v] =>
      match tyOfSx t, valOfSx v with
      | some t, some v =>
        if !t.consistent then "inconsistent-descriptor"
        else if big args then rtWith enc dec t v
        else same (rtWith enc dec t v) (rtWith encS decS t v)
      | _, _ => "bad-op"
    | _ => "bad-op"
  | "many" :: r =>
    match rest r with
    | some items =>
      let rec triples (l : List Sx) : Option (List (Ty × Val)) :=
        match l with
        | [] => some []
        | _ :: t :: v :: r => do
          let t ← tyOfSx t
          let v ← valOfSx v
          let r ← triples r
          pure ((t, v) :: r)
        | _ => none
      match triples items with
      | some l => if l.isEmpty then "bad-op" else if l.all (·.1.consistent) then
          (if big args then many l else same (many l) (manyS l)) else "inconsistent-descriptor"
      | none => "bad-op"
    | none => "bad-op"
  | "cross" :: r =>
    match rest r with
    | some [_, tw, v, _, tr, Sx.atom s] =>
      match tyOfSx tw, valOfSx v, tyOfSx tr, parseBits s with
      | some tw, some v, some tr, some sentinel =>
        if !(tw.consistent && tr.consistent) then "inconsistent-descriptor"
        else if big args then crossWith enc dec tw v tr sentinel
        else same (crossWith enc dec tw v tr sentinel) (crossWith encS decS tw v tr sentinel)
      | _, _, _, _ => "bad-op"
    | _ => "bad-op"
  | _ => "bad-op"

end Driver.UperStream
