import Asn1Verif.Uper.Sexpr
import Asn1Verif.Uper.Impl
import Asn1Verif.X691.Encode
/- line protocol, stream `uper` (L2) -/
namespace Driver.UperStream
open Asn1Verif Asn1Verif.Uper Asn1Verif.Per Asn1Verif.Text

def rest (args : List String) : Option (List Sx) := sxParse (sxTokens (String.intercalate " " args))

def errStr (k : ErrKind) : String := toString k

/-- an ill-typed request is `bad-op` on both sides -/
def renderOr {α : Type} (f : α → String) : Outcome α → String
  | .ok a => "ok " ++ f a
  | .err .illTyped => "bad-op"
  | .err k => "err " ++ toString k
  | .panic => "panic"

def decodeStr (t : Ty) (bits : Bits) : Except String (String × Nat) :=
  match dec t bits 0 with
  | .ok (v, p) => .ok (valToSx v, p)
  | .err k => .error (toString k)
  | .panic => .error "PANIC"

/-- several values through one writer, then read back in order from one reader -/
def many (items : List (Ty × Val)) : String :=
  let rec wr (items : List (Ty × Val)) (acc : Bits) : Outcome Bits :=
    match items with
    | [] => .ok acc
    | (t, v) :: r =>
      match enc t v with
      | .ok b => wr r (acc ++ b)
      | .err k => .err k
      | .panic => .panic
  match wr items [] with
  | .err .illTyped => "bad-op"
  | .err k => "err " ++ toString k
  | .panic => "panic"
  | .ok bits =>
    let rec rd (items : List (Ty × Val)) (pos : Nat) (acc : List String) : List String × Nat :=
      match items with
      | [] => (acc.reverse, pos)
      | (t, _) :: r =>
        match dec t bits pos with
        | .ok (v, p) => rd r p (valToSx v :: acc)
        | .err k => ((("readerr:" ++ toString k) :: acc).reverse, pos)
        | .panic => (("readpanic" :: acc).reverse, pos)
    let (outs, pos) := rd items 0 []
    String.intercalate " " (["ok", bitsToString bits] ++ outs ++ [toString (bits.length - pos)])

def handle (args : List String) : String :=
  match args with
  | ["list"] => "skip"
  | "desc" :: _ => "skip"
  | "gen" :: _ => "skip"
  | "enc" :: _ :: r =>
    match rest r with
    | some [t, v] =>
      match tyOfSx t, valOfSx v with
      | some t, some v => if t.consistent then renderOr bitsToString (enc t v) else "inconsistent-descriptor"
      | _, _ => "bad-op"
    | _ => "bad-op"
  | ["charset", cs, lo, hi] =>
    match charsetOf cs, parseNat lo, parseNat hi with
    | some cs, some lo, some hi =>
      "ok " ++ String.ofList ((List.range (hi - lo)).map fun i =>
        let cp := lo + i
        if 0xD800 ≤ cp ∧ cp < 0xE000 ∨ cp ≥ 0x110000 then 'x'
        else if cs.isValid cp then '1' else '0')
    | _, _, _ => "bad-op"
  | "desccheck" :: _ :: r =>
    match rest r with
    | some [t] =>
      match tyOfSx t with
      | some ty => if ty.consistent then "ok " ++ String.intercalate " " r else "inconsistent-descriptor"
      | none => "bad-op"
    | _ => "bad-op"
  | "conf" :: _ :: r =>
    match rest r with
    | some [t, v] =>
      match tyOfSx t, valOfSx v with
      | some t, some v =>
        if t.consistent then
          renderOr bitsToString (enc t v) ++ " x691:" ++
            (match X691.encode t v with | some b => bitsToString b | none => "none")
        else "inconsistent-descriptor"
      | _, _ => "bad-op"
    | _ => "bad-op"
  | "xenc" :: _ :: r =>
    match rest r with
    | some [t, v] =>
      match tyOfSx t, valOfSx v with
      | some t, some v =>
        (match X691.encode t v with | some b => "ok " ++ bitsToString b | none => "none")
      | _, _ => "bad-op"
    | _ => "bad-op"
  | "xdec" :: _ :: r =>
    match rest r with
    | some [t, _, Sx.atom b] =>
      match tyOfSx t, parseBits b with
      | some t, some bits =>
        if t.consistent then
          renderOr (fun (p : Val × Nat) => valToSx p.1 ++ " " ++ toString p.2) (dec t bits 0)
        else "inconsistent-descriptor"
      | _, _ => "bad-op"
    | _ => "bad-op"
  | "dec" :: _ :: r =>
    match rest r with
    | some [t, Sx.atom b] =>
      match tyOfSx t, parseBits b with
      | some t, some bits =>
        if t.consistent then
          renderOr (fun (p : Val × Nat) => valToSx p.1 ++ " " ++ toString p.2) (dec t bits 0)
        else "inconsistent-descriptor"
      | _, _ => "bad-op"
    | _ => "bad-op"
  | "rt" :: _ :: r =>
    match rest r with
    | some [t, v] =>
      match tyOfSx t, valOfSx v with
      | some t, some v =>
        if !t.consistent then "inconsistent-descriptor" else
        match enc t v with
        | .ok bits =>
          match dec t bits 0 with
          | .ok (v', p) => "ok " ++ bitsToString bits ++ " " ++ valToSx v' ++ " " ++ toString (bits.length - p)
          | .err k => "ok " ++ bitsToString bits ++ " readerr:" ++ toString k ++ " -"
          | .panic => "ok " ++ bitsToString bits ++ " readpanic -"
        | .err .illTyped => "bad-op"
        | .err k => "err " ++ toString k
        | .panic => "panic"
      | _, _ => "bad-op"
    | _ => "bad-op"
  | "many" :: r =>
    match rest r with
    | some items =>
      let rec triples (l : List Sx) : Option (List (Ty × Val)) :=
        match l with
        | [] => some []
        | _ :: t :: v :: r => do
          let t ← tyOfSx t
          let v ← valOfSx v
          let r ← triples r
          pure ((t, v) :: r)
        | _ => none
      match triples items with
      | some l => if l.isEmpty then "bad-op" else if l.all (·.1.consistent) then many l else "inconsistent-descriptor"
      | none => "bad-op"
    | none => "bad-op"
  | "cross" :: r =>
    match rest r with
    | some [_, tw, v, _, tr, Sx.atom s] =>
      match tyOfSx tw, valOfSx v, tyOfSx tr, parseBits s with
      | some tw, some v, some tr, some sentinel =>
        if !(tw.consistent && tr.consistent) then "inconsistent-descriptor" else
        match enc tw v with
        | .ok bits =>
          let r := match dec tr (bits ++ sentinel) 0 with
            | .ok (v', p) => valToSx v' ++ " " ++ toString p
            | .err k => "readerr:" ++ toString k ++ " -"
            | .panic => "readpanic -"
          "ok " ++ bitsToString bits ++ " " ++ r
        | .err .illTyped => "bad-op"
        | .err k => "err " ++ toString k
        | .panic => "panic"
      | _, _, _, _ => "bad-op"
    | _ => "bad-op"
  | _ => "bad-op"

end Driver.UperStream
