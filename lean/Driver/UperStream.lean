import Asn1Verif.Base.Text
/- line protocol, stream `uper` — not implemented yet -/
namespace Driver.UperStream
def handle (_args : List String) : String := "bad-op"
end Driver.UperStream
