import Driver.BitsStream
/-
  Line-protocol driver: one request per line on stdin, one answer per line on stdout.
  Imports model files only (no Mathlib/Batteries), so it links as a native executable.
-/
open Asn1Verif

def answer (line : String) : String :=
  match (line.trimAscii.toString.splitOn " ").filter (· ≠ "") with
  | "bits" :: args => Driver.BitsStream.handle args
  | _ => "bad-op"

partial def loop (h : IO.FS.Stream) (out : IO.FS.Stream) : IO Unit := do
  let line ← h.getLine
  if line.isEmpty then return ()
  out.putStrLn (answer line)
  loop h out

def main : IO Unit := do
  let stdin ← IO.getStdin
  let stdout ← IO.getStdout
  loop stdin stdout
