import Driver.BitsStream
import Driver.PerStream
import Driver.DerStream
import Driver.InttypeStream
import Driver.TokStream
import Driver.TagsStream
import Driver.NamesStream
import Driver.AttrStream
import Driver.ParseStream
import Driver.ResolveStream
import Driver.ProtoStream
import Driver.UperStream
import Driver.FrontStream
/-
  Line-protocol driver: one request per line on stdin, one answer per line on stdout.
  Imports model files only (no Mathlib/Batteries), so it links as a native executable.
-/
open Asn1Verif

def answer (line : String) : String :=
  match (line.trimAscii.toString.splitOn " ").filter (· ≠ "") with
  | "bits" :: args => Driver.BitsStream.handle args
  | "per" :: args => Driver.PerStream.handle args
  | "der" :: args => Driver.DerStream.handle args
  | "inttype" :: args => Driver.InttypeStream.handle args
  | "tok" :: args => Driver.TokStream.handle args
  | "tags" :: args => Driver.TagsStream.handle args
  | "names" :: args => Driver.NamesStream.handle args
  | "attr" :: args => Driver.AttrStream.handle args
  | "parse" :: args => Driver.ParseStream.handle args
  | "resolve" :: args => Driver.ResolveStream.handle args
  | "proto" :: args => Driver.ProtoStream.handle args
  | "uper" :: args => Driver.UperStream.handle args
  | "front" :: args => Driver.FrontStream.handle args
  | _ => "bad-op"

partial def loop (h : IO.FS.Stream) (out : IO.FS.Stream) : IO Unit := do
  let line ← h.getLine
  if line.isEmpty then return ()
  out.putStrLn (answer line)
  loop h out

def main : IO Unit := do
  let stdin ← IO.getStdin
  let stdout ← IO.getStdout
  loop stdin stdout
