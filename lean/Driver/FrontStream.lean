import Asn1Verif.Base.Text
import Asn1Verif.Front.TotalFront
/-
  line protocol, stream `front` (C14): the composed front end of `Front/TotalFront.lean`

    front total <hex text> → ok | err parse:<class> | err resolve:<class> | panic tokenizer
                           | skip

  The answer is `frontEnd text` — tokenizer model (`Front/Tokenizer.lean`: comments, control
  characters, Unicode, locations), `bridge`, parser model, single-module resolver model — rendered
  in the format of the harness (which appends the offending token to a parse error; the check
  compares the class only).  The mirror never answers `abort` (`C14.front_end_resolve_total`);
  a process abort of the real front end is a disagreement.  `to_rust` / `to_protobuf` have no
  mirror here.

  `skip` (outside the domain of the mirror):
    * a `'` token followed, up to the next `'` token, by a token on another line: the real
      parser rebuilds a literal from token *columns*, the parser model assumes one line (header of
      `Front/Parser.lean`); on one line both give the same outcome class,
    * a non-ASCII numeric character (`char::is_numeric` in `read_oid` is modelled for ASCII,
      DESIGN A.4): Arabic-Indic / full-width digits, superscripts and vulgar fractions of Latin-1.
-/
namespace Driver.FrontStream
open Asn1Verif Asn1Verif.Front Asn1Verif.Text

def decodeText (hex : String) : Option (List Char) := do
  let bs ← hexToBytes hex
  let s ← String.fromUTF8? (ByteArray.mk (bs.map fun b => UInt8.ofNat b.toNat).toArray)
  pure s.toList

def Token.line : Token → Nat
  | .text loc _ => loc.line
  | .separator loc _ => loc.line

def Token.isQuote : Token → Bool
  | .separator _ c => c == '\''
  | .text _ _ => false

/-- is one of the tokens up to and including the next `'` on a line other than `line`? -/
def spansLinesAny (line : Nat) : List Token → Bool
  | [] => false
  | t :: rest =>
    if Token.isQuote t then Token.line t != line
    else Token.line t != line || spansLinesAny line rest

/-- some `'` token whose span up to the next `'` token leaves its line — provided that span
    closes at all -/
def multiLineQuote : List Token → Bool
  | [] => false
  | t :: rest =>
    (Token.isQuote t && rest.any Token.isQuote && spansLinesAny (Token.line t) rest) ||
      multiLineQuote rest

def foreignNumeric (c : Char) : Bool :=
  let n := c.toNat
  (0x0660 ≤ n && n ≤ 0x0669) || (0x06F0 ≤ n && n ≤ 0x06F9) || (0xFF10 ≤ n && n ≤ 0xFF19) ||
  n == 0xB2 || n == 0xB3 || n == 0xB9 || (0xBC ≤ n && n ≤ 0xBE)

def total (cs : List Char) : String :=
  if cs.any foreignNumeric then "skip" else
  match tokenize cs with
  | .panic => "panic tokenizer"
  | .err _ => "panic tokenizer"      -- unreachable (`C13.tokenize_never_err`)
  | .ok ts =>
    if multiLineQuote ts then "skip" else
    match parseResolve (ts.map bridge) with
    | .ok _ => "ok"
    | .error (.parse, e) => "err parse:" ++ toString e
    | .error (.resolve, e) => "err resolve:" ++ toString e

def handle (args : List String) : String :=
  match args with
  | ["total", hex] =>
    match decodeText hex with
    | some cs => total cs
    | none => "bad-op"
  | _ => "bad-op"

end Driver.FrontStream
