import Asn1Verif.Base.Text
/- line protocol, stream `front` — not implemented yet -/
namespace Driver.FrontStream
def handle (_args : List String) : String := "bad-op"
end Driver.FrontStream
