import Driver.ParseStream
/-
  line protocol, stream `resolve` (front end: several modules through `tryResolveAll`)

    resolve mods  <hex1>,<hex2>,…          → ok <dump1> <dump2> … | err <class>
    resolve subst <mods A> <mods B> [...]  → <answer for A> || <answer for B>
    resolve perm  <hex1>,<hex2>,… [...]    → the answer for every load order (dumps put back into
                                              request order), joined by ` || `

  The resolver always answers (`C12.chase_total`, `C14.resolver_total`): a cyclic import of an
  undefined name is `err resolve-reference`.  An `abort` of the real resolver (stack overflow, as
  before the repair of the import chase) has no counterpart here and is a disagreement.
  Texts are tokenized as in the stream `parse`.
-/
namespace Driver.ResolveStream
open Asn1Verif Asn1Verif.Front.Syn Asn1Verif.Text Driver.ParseStream

def textsOf (arg : String) : Option (List String) :=
  if arg = "-" then some [] else (arg.splitOn ",").mapM decodeText

def parseAll : List String → List Nat → Except String (List UModule)
  | _, [] => .ok []
  | texts, i :: rest =>
    match parseModule (simpleTokenize (texts.getD i "")) with
    | .error e => .error ("err parse:" ++ toString i ++ ":" ++ errStr e)
    | .ok m => do
      let ms ← parseAll texts rest
      pure (m :: ms)

/-- position of `i` in the load order -/
def posOf (order : List Nat) (i : Nat) : Nat := (order.idxOf i)

def resolveInOrder (texts : List String) (order : List Nat) : String :=
  if texts.any (fun t => !inTokenDomain t) then "skip" else
  match parseAll texts order with
  | .error s => s
  | .ok ms =>
    match tryResolveAll ms with
    | .error e => "err " ++ errStr e
    | .ok rs =>
      let dumps := (List.range texts.length).map fun i =>
        match rs[posOf order i]? with
        | some r => dumpR r
        | none => ""
      String.intercalate " " ("ok" :: dumps)

def insertEverywhere (x : Nat) : List Nat → List (List Nat)
  | [] => [[x]]
  | y :: ys => (x :: y :: ys) :: (insertEverywhere x ys).map (y :: ·)

/-- all permutations of `0..n-1` in lexicographic order -/
def permsLex : Nat → List Nat → List (List Nat)
  | 0, _ => [[]]
  | fuel + 1, avail =>
    if avail.isEmpty then [[]] else
    avail.flatMap fun i => (permsLex fuel (avail.filter (· ≠ i))).map (i :: ·)

def handle (args : List String) : String :=
  match args with
  | "mods" :: ms :: _ =>
    match textsOf ms with
    | none => "bad-op"
    | some texts => resolveInOrder texts (List.range texts.length)
  | "subst" :: a :: b :: _ =>
    match textsOf a, textsOf b with
    | some ta, some tb =>
      resolveInOrder ta (List.range ta.length) ++ " || " ++ resolveInOrder tb (List.range tb.length)
    | _, _ => "bad-op"
  | "perm" :: ms :: _ =>
    match textsOf ms with
    | none => "bad-op"
    | some texts =>
      if texts.length > 4 then "bad-op" else
      String.intercalate " || "
        ((permsLex texts.length (List.range texts.length)).map (resolveInOrder texts))
  | _ => "bad-op"

end Driver.ResolveStream
