import Asn1Verif.Base.Text
/- line protocol, stream `resolve` — not implemented yet -/
namespace Driver.ResolveStream
def handle (_args : List String) : String := "bad-op"
end Driver.ResolveStream
