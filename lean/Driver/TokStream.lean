import Asn1Verif.Base.Text
/- line protocol, stream `tok` — not implemented yet -/
namespace Driver.TokStream
def handle (_args : List String) : String := "bad-op"
end Driver.TokStream
