import Asn1Verif.Base.Text
import Asn1Verif.Front.Tokenizer
/-
  line protocol, stream `tok` (front end, C13/C14): the tokenizer model

  `tok lex <hex of UTF-8 text>`         -> `ok <n> <tok>;<tok>;…` (`-` for no token) | `panic`
  `tok layout <hex of UTF-8 text> <…>`  -> the same; the further arguments (expected items and
                                           locations) are only read by the oracle
  token: `T:<line>:<column>:<hex of text>` | `S:<line>:<column>:<hex of char>`
  Input that is not valid UTF-8 is not a request (`bad-op`).
-/
namespace Driver.TokStream
open Asn1Verif Asn1Verif.Front Asn1Verif.Text

def utf8Hex (cs : List Char) : String :=
  bytesToHex ((String.ofList cs).toUTF8.toList.map fun b => BitVec.ofNat 8 b.toNat)

def tokStr : Token → String
  | .text loc s => s!"T:{loc.line}:{loc.column}:{utf8Hex s}"
  | .separator loc c => s!"S:{loc.line}:{loc.column}:{utf8Hex [c]}"

def toksStr (ts : List Token) : String :=
  toString ts.length ++ " " ++ (if ts.isEmpty then "-" else String.intercalate ";" (ts.map tokStr))

def decodeText (hex : String) : Option (List Char) := do
  let bs ← hexToBytes hex
  let s ← String.fromUTF8? (ByteArray.mk (bs.map fun b => UInt8.ofNat b.toNat).toArray)
  pure s.toList

def lex (hex : String) : String :=
  match decodeText hex with
  | some cs => render toksStr (tokenize cs)
  | none => "bad-op"

def handle (args : List String) : String :=
  match args with
  | ["lex", hex] => lex hex
  | ["layout", hex, _, _] => lex hex
  | _ => "bad-op"

end Driver.TokStream
