import Asn1Verif.Base.Text
/- line protocol, stream `inttype` — not implemented yet -/
namespace Driver.InttypeStream
def handle (_args : List String) : String := "bad-op"
end Driver.InttypeStream
