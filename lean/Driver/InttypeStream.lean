import Asn1Verif.Base.Text
import Asn1Verif.Codegen.IntType
/-
  line protocol, stream `inttype` (C15)

  request  `inttype <min|none> <max|none> <0|1 extensible>`
  answer   `ok <variant> <stored min|none> <stored max|none> <ext> field=<ty> fn=<ty>:<min>:<max>
               attr=<text inside integer(..)> const=<ty>:<MIN>:<MIN_T>:<MAX>:<MAX_T>:<EXTENSIBLE>`
           | `err resolve`   (a bound that is not an `i64` literal is taken for a value reference,
                              which does not exist in the one-type module)
-/
namespace Driver.InttypeStream
open Asn1Verif Asn1Verif.Text Asn1Verif.Codegen.IntType

/-- optionally signed decimal number of any size, or `none` -/
def parseBound (s : String) : Option (Option Int) :=
  if s = "none" then some none
  else
    let cs := s.toList
    let ds := match cs with | '-' :: r => r | r => r
    if ds.isEmpty ∨ ¬ ds.all Char.isDigit then none
    else
      let n : Nat := ds.foldl (fun acc c => acc * 10 + (c.toNat - 48)) 0
      some (some (match cs with | '-' :: _ => -(n : Int) | _ => (n : Int)))

def optStr (o : Option Int) : String :=
  match o with
  | some v => toString v
  | none => "none"

def isI64 (o : Option Int) : Bool :=
  match o with
  | none => true
  | some v => decide (InI64 v)

def renderTy (t : IntTy) : String :=
  let n := t.kind.name
  let e := boolStr t.ext
  "ok " ++ n ++ " " ++ optStr t.stored.1 ++ " " ++ optStr t.stored.2 ++ " " ++ e ++
  " field=" ++ n ++
  " fn=" ++ n ++ ":" ++ toString t.fnMin ++ ":" ++ toString t.fnMax ++
  " attr=" ++ t.attrText ++
  " const=" ++ n ++ ":" ++ optStr t.constMin ++ ":" ++ optStr t.constMin ++ ":" ++
    optStr t.constMax ++ ":" ++ optStr t.constMax ++ ":" ++ e

def handle (args : List String) : String :=
  match args with
  | [mn, mx, ext] =>
    match parseBound mn, parseBound mx, parseBool ext with
    | some mn, some mx, some ext =>
      if isI64 mn && isI64 mx then renderTy (choose mn mx ext) else "err resolve"
    | _, _, _ => "bad-op"
  | _ => "bad-op"

end Driver.InttypeStream
