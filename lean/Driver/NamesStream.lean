import Asn1Verif.Base.Text
/- line protocol, stream `names` — not implemented yet -/
namespace Driver.NamesStream
def handle (_args : List String) : String := "bad-op"
end Driver.NamesStream
