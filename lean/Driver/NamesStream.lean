import Asn1Verif.Base.Text
import Asn1Verif.Codegen.Names
/- line protocol, stream `names` (C09): the mangling functions of both layers, answered by the model -/
namespace Driver.NamesStream
open Asn1Verif Asn1Verif.Text Asn1Verif.Codegen.Names

/-- hex of ASCII bytes → characters; `none` = malformed, `some none` = contains a non-ASCII byte -/
def nameOfHex (s : String) : Option (Option Name) :=
  match hexToBytes s with
  | none => none
  | some bs =>
    if bs.all (fun b => b.toNat < 128) then some (some (bs.map fun b => Char.ofNat b.toNat))
    else some none

def hexOfName (n : Name) : String :=
  bytesToHex (n.map fun c => BitVec.ofNat 8 c.toNat)

def run1 (hex : String) (f : Name → Name) : String :=
  match nameOfHex hex with
  | none => "bad-op"
  | some none => "skip"
  | some (some n) => "ok " ++ hexOfName (f n)

def handle (args : List String) : String :=
  match args with
  | ["a.field", h] => run1 h fieldA
  | ["a.variant", h] => run1 h variantA
  | ["a.type", h] => run1 h structOrEnumA
  | ["a.const", h] => run1 h constantA
  | ["a.module", h, pad] =>
    match parseBool pad with
    | some p => run1 h (moduleA p)
    | none => "bad-op"
  | ["a.nice", h] => run1 h makeNameNice
  | ["b.field", h, chk] =>
    match parseBool chk with
    | some c => run1 h (fieldB c)
    | none => "bad-op"
  | ["b.variant", h] => run1 h variantB
  | ["b.module", h] => run1 h moduleB
  | ["emit.field", h] => run1 h emitField
  | ["emit.variant", h] => run1 h emitVariant
  | ["emit.type", h] => run1 h emitType
  | ["emit.const", h] => run1 h emitConst
  | ["emit.module", h] => run1 h emitModule
  | ["emit.inline", hp, hf] =>
    match nameOfHex hp, nameOfHex hf with
    | some (some p), some (some f) => "ok " ++ hexOfName (emitInline (emitType p) f)
    | none, _ => "bad-op"
    | _, none => "bad-op"
    | _, _ => "skip"
  | ["iskw", h] => run1 h (fun n => if isRustKeyword n then ['1'] else ['0'])
  | "gen" :: _ => "skip"
  | "emit" :: _ => "skip"
  | "text" :: _ => "skip"
  | _ => "bad-op"

end Driver.NamesStream
