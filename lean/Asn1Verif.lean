import Asn1Verif.Base.Outcome
