import Asn1Verif.Der.Basic
/-
  Lemmas about the DER mirror (`Der/Basic.lean`).

  Leading zeros: the model uses `lz64 n = 64 - bitWidth n` with `bitWidth n = log2 n + 1` (`0` for `0`),
  i.e. the real `u64::leading_zeros` semantics; the only facts the proofs need are
  `lt_pow_intLen` (the bytes the writer keeps hold the whole value) and `lz64_div8_le`; both come
  from `Nat.lt_log2_self` and `omega`, no 8-way case split.
-/
namespace Asn1Verif.Der
open Asn1Verif Outcome

/-! ### constants (re-extracted from /repo on every run; `rfl` fails when they change) -/

theorem class_mask_eq : u8 Consts.DER_CLASS_BITS_MASK = 0xC0#8 := rfl
theorem class_universal_eq : u8 Consts.DER_CLASS_BITS_UNIVERSAL = 0x00#8 := rfl
theorem class_application_eq : u8 Consts.DER_CLASS_BITS_APPLICATION = 0x40#8 := rfl
theorem class_context_eq : u8 Consts.DER_CLASS_BITS_CONTEXT_SPECIFIC = 0x80#8 := rfl
theorem class_private_eq : u8 Consts.DER_CLASS_BITS_PRIVATE = 0xC0#8 := rfl
theorem length_short_max_eq : Consts.DER_LENGTH_SHORT_MAX_VALUE = 127 := rfl
theorem length_mask_eq : u8 Consts.DER_LENGTH_BIT_MASK = 0x80#8 := rfl
theorem length_short_eq : u8 Consts.DER_LENGTH_BIT_SHORT_FORM = 0x00#8 := rfl
theorem length_long_eq : u8 Consts.DER_LENGTH_BIT_LONG_FORM = 0x80#8 := rfl

/-! ### Outcome plumbing -/

theorem bind_ne_panic {α β : Type} {x : Outcome α} {f : α → Outcome β}
    (hx : x ≠ .panic) (hf : ∀ a, f a ≠ .panic) : (x >>= f) ≠ .panic := by
  cases x with
  | ok a => exact hf a
  | err k => simp
  | panic => exact absurd rfl hx

theorem uSub_ok {a b : Nat} (h : b ≤ a) : uSub a b = ok (a - b) := by
  simp [uSub, h]

/-! ### big-endian bytes -/

@[simp] theorem length_beBytes (k n : Nat) : (beBytes k n).length = k := by
  induction k with
  | zero => rfl
  | succ k ih => simp [beBytes, ih]

theorem drop_beBytes (k j n : Nat) (h : j ≤ k) : (beBytes k n).drop j = beBytes (k - j) n := by
  induction k generalizing j with
  | zero =>
    have : j = 0 := by omega
    subst this; rfl
  | succ k ih =>
    cases j with
    | zero => rfl
    | succ j =>
      have : k + 1 - (j + 1) = k - j := by omega
      rw [this]
      simp only [beBytes, List.drop_succ_cons]
      exact ih j (by omega)

theorem u8_toNat (n : Nat) : (u8 n).toNat = n % 256 := by
  simp [u8, BitVec.toNat_ofNat]

theorem foldl_beBytes (k n acc : Nat) :
    (beBytes k n).foldl (fun a (b : Byte) => a * 256 + b.toNat) acc = acc * 256 ^ k + n % 256 ^ k := by
  induction k generalizing acc with
  | zero => simp [beBytes, Nat.mod_one]
  | succ k ih =>
    simp only [beBytes, List.foldl_cons]
    rw [ih, u8_toNat, Nat.mod_pow_succ (x := n) (b := 256) (k := k), Nat.pow_succ]
    rw [Nat.add_mul, Nat.mul_assoc, Nat.mul_comm (256 ^ k) 256, Nat.mul_comm (n / 256 ^ k % 256)]
    omega

theorem fromBe_beBytes (k n : Nat) : fromBe (beBytes k n) = n % 256 ^ k := by
  simp [fromBe, foldl_beBytes]

theorem fromBe_zeros_append (j : Nat) (bs : List Byte) :
    fromBe (List.replicate j 0#8 ++ bs) = fromBe bs := by
  unfold fromBe
  rw [List.foldl_append]
  congr 1
  induction j with
  | zero => rfl
  | succ j ih => simp [List.replicate_succ, ih]

/-- the value of at most 8 bytes fits into a `u64` -/
theorem fromBe_lt (bs : List Byte) : fromBe bs < 256 ^ bs.length := by
  suffices h : ∀ (bs : List Byte) (acc : Nat),
      bs.foldl (fun a (b : Byte) => a * 256 + b.toNat) acc < (acc + 1) * 256 ^ bs.length by
    simpa [fromBe] using h bs 0
  intro bs
  induction bs with
  | nil => intro acc; simp
  | cons b bs ih =>
    intro acc
    simp only [List.foldl_cons, List.length_cons]
    refine Nat.lt_of_lt_of_le (ih _) ?_
    have hb : b.toNat < 256 := b.isLt
    rw [Nat.pow_succ, Nat.mul_comm (256 ^ bs.length) 256, ← Nat.mul_assoc]
    exact Nat.mul_le_mul_right _ (by omega)

/-! ### `read_exact` -/

theorem readExact_append (bs post : List Byte) (k : Nat) (h : bs.length = k) :
    readExact k (bs ++ post) = ok (bs, post) := by
  unfold readExact
  have : ¬ (bs ++ post).length < k := by simp; omega
  rw [if_neg this, List.take_left' h, List.drop_left' h]

theorem readExact_ne_panic (k : Nat) (inp : List Byte) : readExact k inp ≠ .panic := by
  unfold readExact; split <;> simp

theorem readByte_ne_panic (inp : List Byte) : readByte inp ≠ .panic := by
  cases inp <;> simp [readByte]

/-- what was read and what is left make up the source -/
theorem readExact_ok {k : Nat} {inp got rest : List Byte} (h : readExact k inp = ok (got, rest)) :
    inp = got ++ rest ∧ got.length = k := by
  unfold readExact at h
  split at h
  · simp at h
  · rename_i hk
    simp only [ok.injEq, Prod.mk.injEq] at h
    obtain ⟨h1, h2⟩ := h
    subst h1 h2
    exact ⟨(List.take_append_drop k inp).symm, by simp; omega⟩

theorem readByte_ok {inp rest : List Byte} {b : Byte} (h : readByte inp = ok (b, rest)) :
    inp = b :: rest := by
  cases inp with
  | nil => simp [readByte] at h
  | cons c cs =>
    simp only [readByte, ok.injEq, Prod.mk.injEq] at h
    rw [h.1, h.2]

/-! ### leading zeros and the number of bytes the writer keeps -/

/-- `lz64` is `u64::leading_zeros`: 64 for zero, otherwise the highest set bit of `n` is bit
    `63 - lz64 n` -/
theorem lz64_spec (n : Nat) (h : n < 2 ^ 64) :
    (n = 0 → lz64 n = 64) ∧
    (n ≠ 0 → lz64 n ≤ 63 ∧ 2 ^ (63 - lz64 n) ≤ n ∧ n < 2 ^ (63 - lz64 n + 1)) := by
  refine ⟨fun h0 => by subst h0; rfl, fun h0 => ?_⟩
  have hl : n.log2 < 64 := (Nat.log2_lt h0).mpr h
  have e : 63 - lz64 n = n.log2 := by
    unfold lz64 bitWidth; rw [if_neg h0]; omega
  rw [e]
  refine ⟨by unfold lz64 bitWidth; rw [if_neg h0]; omega, Nat.log2_self_le h0, Nat.lt_log2_self⟩

/-- `leading_zeros() / 8` as an explicit comparison cascade (what one would write by hand) -/
theorem lz64_div8_cascade (n : Nat) (h : n < 2 ^ 64) :
    lz64 n / 8 =
      if n = 0 then 8 else if n < 2 ^ 8 then 7 else if n < 2 ^ 16 then 6 else if n < 2 ^ 24 then 5
      else if n < 2 ^ 32 then 4 else if n < 2 ^ 40 then 3 else if n < 2 ^ 48 then 2
      else if n < 2 ^ 56 then 1 else 0 := by
  by_cases h0 : n = 0
  · subst h0; rfl
  · rw [if_neg h0]
    have a1 := Nat.log2_lt (k := 8) h0
    have a2 := Nat.log2_lt (k := 16) h0
    have a3 := Nat.log2_lt (k := 24) h0
    have a4 := Nat.log2_lt (k := 32) h0
    have a5 := Nat.log2_lt (k := 40) h0
    have a6 := Nat.log2_lt (k := 48) h0
    have a7 := Nat.log2_lt (k := 56) h0
    have a8 := Nat.log2_lt (k := 64) h0
    unfold lz64 bitWidth
    rw [if_neg h0]
    repeat' split
    all_goals omega

/-- number of content bytes `write_integer_u64`/`write_integer_i64` emit for the bit pattern `u`:
    `8 - min(leading_zeros / 8, 7)` -/
def intLen (u : Nat) : Nat := 8 - min (lz64 u / 8) 7

theorem lz64_div8_le (u : Nat) : lz64 u / 8 ≤ 8 := by
  unfold lz64; omega

theorem intLen_pos (u : Nat) : 1 ≤ intLen u := by unfold intLen; omega
theorem intLen_le (u : Nat) : intLen u ≤ 8 := by unfold intLen; omega

/-- the bytes kept hold the whole value: the dropped bytes are zero -/
theorem lt_pow_intLen (u : Nat) (h : u < 2 ^ 64) : u < 256 ^ intLen u := by
  have h256 : (256 : Nat) = 2 ^ 8 := by decide
  rw [h256, ← Nat.pow_mul]
  by_cases h0 : u = 0
  · subst h0; exact Nat.pow_pos (by decide)
  · have hl : u.log2 < 64 := (Nat.log2_lt h0).mpr h
    have h1 : u < 2 ^ (u.log2 + 1) := Nat.lt_log2_self
    refine Nat.lt_of_lt_of_le h1 (Nat.pow_le_pow_right (by decide) ?_)
    unfold intLen lz64 bitWidth
    rw [if_neg h0]
    omega

/-- for a length that needs the long form the byte count is not clamped -/
theorem long_form_len (n : Nat) (h : 127 < n) : 8 - lz64 n / 8 = intLen n := by
  have h0 : n ≠ 0 := by omega
  have h7 : 7 ≤ n.log2 := by
    apply Nat.le_of_not_lt
    intro hc
    have : n < 2 ^ 7 := (Nat.log2_lt h0).mp hc
    omega
  unfold intLen lz64 bitWidth
  rw [if_neg h0]
  omega

/-- `len.max(1)` of `write_number` is the number of bytes `write_integer_i64` emits -/
theorem number_len (u : Nat) : max (8 - lz64 u / 8) 1 = intLen u := by
  have := lz64_div8_le u
  unfold intLen; omega

theorem writeIntegerU64_eq (n : Nat) : writeIntegerU64 n = beBytes (intLen n) n := by
  unfold writeIntegerU64 intLen
  simp only [length_beBytes]
  exact drop_beBytes 8 _ n (by omega)

theorem writeIntegerI64_eq (v : Int) :
    writeIntegerI64 v = beBytes (intLen (i64AsU64 v)) (i64AsU64 v) := by
  unfold writeIntegerI64 intLen
  simp only [length_beBytes]
  exact drop_beBytes 8 _ _ (by omega)

theorem length_writeIntegerU64 (n : Nat) : (writeIntegerU64 n).length = intLen n := by
  rw [writeIntegerU64_eq, length_beBytes]

theorem length_writeIntegerI64 (v : Int) : (writeIntegerI64 v).length = intLen (i64AsU64 v) := by
  rw [writeIntegerI64_eq, length_beBytes]

/-! ### two's complement casts -/

theorem i64AsU64_lt (v : Int) : i64AsU64 v < 2 ^ 64 := by
  unfold i64AsU64; omega

theorem u64AsI64_i64AsU64 (v : Int) (h1 : -(2 ^ 63 : Int) ≤ v) (h2 : v < 2 ^ 63) :
    u64AsI64 (i64AsU64 v) = v := by
  unfold u64AsI64 i64AsU64; omega

theorem i64AsU64_u64AsI64 (n : Nat) (h : n < 2 ^ 64) : i64AsU64 (u64AsI64 n) = n := by
  unfold u64AsI64 i64AsU64; split <;> omega

theorem i64AsU64_ofNat (n : Nat) (h : n < 2 ^ 64) : i64AsU64 (n : Int) = n := by
  unfold i64AsU64; omega

theorem u64AsI64_range (n : Nat) (h : n < 2 ^ 64) :
    -(2 ^ 63 : Int) ≤ u64AsI64 n ∧ u64AsI64 n < 2 ^ 63 := by
  unfold u64AsI64; split <;> omega

/-- `from_i64(to_i64(v)) = v` for every value of each of the eight integer types -/
theorem fromI64_toI64 (t : NumTy) (v : Int) (ht : t.Valid) (hv : t.InRange v) :
    t.fromI64 (t.toI64 v) = v := by
  obtain ⟨s, b⟩ := t
  simp only [NumTy.Valid] at ht
  simp only [NumTy.InRange] at hv
  simp only [NumTy.fromI64, NumTy.toI64, u64AsI64, i64AsU64]
  cases s <;> rcases ht with h | h | h | h <;> subst h <;>
    simp only [Bool.false_eq_true, ite_false, ite_true] at hv ⊢ <;> omega

/-! ### integer content octets -/

theorem readIntegerU64_beBytes (k n : Nat) (post : List Byte) (hk : k ≤ 8) :
    readIntegerU64 k (beBytes k n ++ post) = ok (n % 256 ^ k, post) := by
  unfold readIntegerU64
  simp only [List.length_replicate]
  rw [if_neg (by omega), uSub_ok hk]
  simp only [bind_ok]
  have h8 : 8 - (8 - k) = k := by omega
  rw [h8, readExact_append _ _ _ (length_beBytes k n)]
  simp only [bind_ok, List.take_replicate]
  rw [fromBe_zeros_append, fromBe_beBytes]

theorem readIntegerI64_beBytes (k n : Nat) (post : List Byte) (hk : k ≤ 8) :
    readIntegerI64 k (beBytes k n ++ post) = ok (u64AsI64 (n % 256 ^ k), post) := by
  unfold readIntegerI64
  simp only [List.length_replicate]
  rw [if_neg (by omega), uSub_ok hk]
  simp only [bind_ok]
  have h8 : 8 - (8 - k) = k := by omega
  rw [h8, readExact_append _ _ _ (length_beBytes k n)]
  simp only [bind_ok, List.take_replicate]
  rw [fromBe_zeros_append, fromBe_beBytes]

theorem readIntegerU64_write (n : Nat) (post : List Byte) (h : n < 2 ^ 64) :
    readIntegerU64 (intLen n) (writeIntegerU64 n ++ post) = ok (n, post) := by
  rw [writeIntegerU64_eq, readIntegerU64_beBytes _ _ _ (intLen_le n),
    Nat.mod_eq_of_lt (lt_pow_intLen n h)]

/-- whatever `v` is, the reader returns the `i64` with the written bit pattern -/
theorem readIntegerI64_write (v : Int) (post : List Byte) :
    readIntegerI64 (intLen (i64AsU64 v)) (writeIntegerI64 v ++ post)
      = ok (u64AsI64 (i64AsU64 v), post) := by
  rw [writeIntegerI64_eq, readIntegerI64_beBytes _ _ _ (intLen_le _),
    Nat.mod_eq_of_lt (lt_pow_intLen _ (i64AsU64_lt v))]

theorem readIntegerU64_ne_panic (k : Nat) (inp : List Byte) : readIntegerU64 k inp ≠ .panic := by
  unfold readIntegerU64
  simp only [List.length_replicate]
  split
  · simp
  · rw [uSub_ok (by omega)]
    simp only [bind_ok]
    refine bind_ne_panic (readExact_ne_panic _ _) ?_
    intro a; simp

theorem readIntegerI64_ne_panic (k : Nat) (inp : List Byte) : readIntegerI64 k inp ≠ .panic := by
  unfold readIntegerI64
  simp only [List.length_replicate]
  split
  · simp
  · rw [uSub_ok (by omega)]
    simp only [bind_ok]
    refine bind_ne_panic (readExact_ne_panic _ _) ?_
    intro a; simp

/-- a successful integer read took exactly `k ≤ 8` bytes from the front -/
theorem readIntegerU64_ok {k : Nat} {inp rest : List Byte} {n : Nat}
    (h : readIntegerU64 k inp = ok (n, rest)) :
    ∃ got, inp = got ++ rest ∧ got.length = k ∧ k ≤ 8 ∧ n = fromBe got := by
  unfold readIntegerU64 at h
  simp only [List.length_replicate] at h
  split at h
  · simp at h
  · rename_i hk
    rw [uSub_ok (by omega)] at h
    simp only [bind_ok] at h
    cases hr : readExact (8 - (8 - k)) inp with
    | ok p =>
      obtain ⟨got, rest'⟩ := p
      rw [hr] at h
      simp only [bind_ok, List.take_replicate, ok.injEq, Prod.mk.injEq] at h
      obtain ⟨h1, h2⟩ := h
      subst h2
      obtain ⟨e1, e2⟩ := readExact_ok hr
      refine ⟨got, e1, by omega, by omega, ?_⟩
      rw [← h1, fromBe_zeros_append]
    | err e => rw [hr] at h; simp at h
    | panic => rw [hr] at h; simp at h

theorem readIntegerI64_ok {k : Nat} {inp rest : List Byte} {x : Int}
    (h : readIntegerI64 k inp = ok (x, rest)) :
    ∃ got, inp = got ++ rest ∧ got.length = k ∧ k ≤ 8 ∧ x = u64AsI64 (fromBe got) := by
  unfold readIntegerI64 at h
  simp only [List.length_replicate] at h
  split at h
  · simp at h
  · rename_i hk
    rw [uSub_ok (by omega)] at h
    simp only [bind_ok] at h
    cases hr : readExact (8 - (8 - k)) inp with
    | ok p =>
      obtain ⟨got, rest'⟩ := p
      rw [hr] at h
      simp only [bind_ok, List.take_replicate, ok.injEq, Prod.mk.injEq] at h
      obtain ⟨h1, h2⟩ := h
      subst h2
      obtain ⟨e1, e2⟩ := readExact_ok hr
      refine ⟨got, e1, by omega, by omega, ?_⟩
      rw [← h1, fromBe_zeros_append]
    | err e => rw [hr] at h; simp at h
    | panic => rw [hr] at h; simp at h

/-! ### identifier octet -/

theorem id_octet_class : ∀ (c : TagClass) (k : Fin 64),
    (classBits c ||| u8 k.val) &&& 0xC0#8 = classBits c ∧
    ((classBits c ||| u8 k.val) &&& ~~~ 0xC0#8).toNat = k.val := by
  intro c; cases c <;> decide

theorem class_bits_cases : ∀ b : Byte,
    b &&& 0xC0#8 = 0x00#8 ∨ b &&& 0xC0#8 = 0x40#8 ∨ b &&& 0xC0#8 = 0x80#8 ∨ b &&& 0xC0#8 = 0xC0#8 := by
  decide

theorem low6_lt : ∀ b : Byte, (b &&& ~~~ 0xC0#8).toNat < 64 := by decide

theorem readIdentifier_cons (b : Byte) (rest : List Byte) :
    ∃ c, readIdentifier (b :: rest) = ok (⟨c, (b &&& ~~~ 0xC0#8).toNat⟩, rest) ∧
      classBits c = b &&& 0xC0#8 := by
  unfold readIdentifier
  simp only [readByte, bind_ok, class_mask_eq, class_universal_eq, class_application_eq,
    class_context_eq, class_private_eq]
  rcases class_bits_cases b with h | h | h | h <;> simp only [h]
  · exact ⟨.universal, by simp, rfl⟩
  · exact ⟨.application, by simp, rfl⟩
  · exact ⟨.contextSpecific, by simp, rfl⟩
  · exact ⟨.private_, by simp, rfl⟩

theorem classBits_injective : ∀ c d : TagClass, classBits c = classBits d → c = d := by
  intro c d; cases c <;> cases d <;> decide

theorem readIdentifier_write (t : Tag) (post : List Byte) (h : t.number < 64) :
    readIdentifier (writeIdentifier t ++ post) = ok (t, post) := by
  obtain ⟨c, n⟩ := t
  simp only at h
  obtain ⟨hc, hn⟩ := id_octet_class c ⟨n, h⟩
  simp only at hc hn
  obtain ⟨d, hd, hcl⟩ := readIdentifier_cons (classBits c ||| u8 n) post
  simp only [writeIdentifier, List.cons_append, List.nil_append]
  rw [hd, hn]
  rw [hc] at hcl
  rw [classBits_injective d c hcl]

theorem readIdentifier_ne_panic (inp : List Byte) : readIdentifier inp ≠ .panic := by
  cases inp with
  | nil => simp [readIdentifier, readByte]
  | cons b rest =>
    obtain ⟨c, hc, _⟩ := readIdentifier_cons b rest
    rw [hc]; simp

theorem readIdentifier_ok {inp rest : List Byte} {t : Tag} (h : readIdentifier inp = ok (t, rest)) :
    ∃ b, inp = b :: rest ∧ t.number = (b &&& ~~~ 0xC0#8).toNat ∧ t.number < 64 := by
  cases inp with
  | nil => simp [readIdentifier, readByte] at h
  | cons b rs =>
    obtain ⟨c, hc, _⟩ := readIdentifier_cons b rs
    rw [hc] at h
    simp only [ok.injEq, Prod.mk.injEq] at h
    obtain ⟨h1, h2⟩ := h
    subst h1 h2
    exact ⟨b, rfl, rfl, low6_lt b⟩

/-! ### length octets -/

theorem short_octet : ∀ k : Fin 128,
    (0x00#8 ||| u8 k.val) &&& 0x80#8 = 0x00#8 ∧ ((0x00#8 ||| u8 k.val) &&& ~~~ 0x80#8).toNat = k.val := by
  decide

theorem long_octet : ∀ k : Fin 128,
    (0x80#8 ||| u8 k.val) &&& 0x80#8 ≠ 0x00#8 ∧ ((0x80#8 ||| u8 k.val) &&& ~~~ 0x80#8).toNat = k.val := by
  decide

theorem writeLength_short (n : Nat) (h : n ≤ 127) : writeLength n = [0x00#8 ||| u8 n] := by
  unfold writeLength
  rw [length_short_max_eq, if_pos h, length_short_eq]

theorem writeLength_long (n : Nat) (h : 127 < n) :
    writeLength n = (0x80#8 ||| u8 (intLen n)) :: writeIntegerU64 n := by
  unfold writeLength
  rw [length_short_max_eq, if_neg (by omega), length_long_eq]
  simp only [long_form_len n h, List.cons_append, List.nil_append]

theorem writeLengthC_eq (n : Nat) : writeLengthC n = ok (writeLength n) := by
  unfold writeLengthC writeLength
  split
  · rfl
  · simp only [uSub_ok (lz64_div8_le n), bind_ok]

theorem readLength_write (n : Nat) (post : List Byte) (h : n < 2 ^ 64) :
    readLength (writeLength n ++ post) = ok (n, post) := by
  by_cases hs : n ≤ 127
  · rw [writeLength_short n hs]
    obtain ⟨h1, h2⟩ := short_octet ⟨n, by omega⟩
    simp only at h1 h2
    simp only [readLength, List.cons_append, List.nil_append, readByte, bind_ok, length_mask_eq,
      length_short_eq]
    simp only [h1, h2, if_true]
  · rw [writeLength_long n (by omega)]
    have hk : intLen n < 128 := by have := intLen_le n; omega
    obtain ⟨h1, h2⟩ := long_octet ⟨intLen n, hk⟩
    simp only at h1 h2
    simp only [readLength, List.cons_append, readByte, bind_ok, length_mask_eq, length_short_eq]
    simp only [h1, h2, if_false]
    exact readIntegerU64_write n post h

theorem readLength_ne_panic (inp : List Byte) : readLength inp ≠ .panic := by
  unfold readLength
  refine bind_ne_panic (readByte_ne_panic inp) ?_
  rintro ⟨b, rest⟩
  simp only
  split
  · simp
  · exact readIntegerU64_ne_panic _ _

/-- a successful length read took `1 + k` bytes, `k ≤ 8`, and the value is a `u64` -/
theorem readLength_ok {inp rest : List Byte} {n : Nat} (h : readLength inp = ok (n, rest)) :
    ∃ got, inp = got ++ rest ∧ 1 ≤ got.length ∧ got.length ≤ 9 ∧ n < 2 ^ 64 := by
  cases inp with
  | nil => simp [readLength, readByte] at h
  | cons b rs =>
    simp only [readLength, readByte, bind_ok] at h
    split at h
    · simp only [ok.injEq, Prod.mk.injEq] at h
      obtain ⟨h1, h2⟩ := h
      subst h1 h2
      refine ⟨[b], rfl, by simp, by simp, ?_⟩
      have : (b &&& ~~~ u8 Consts.DER_LENGTH_BIT_MASK).toNat < 2 ^ 8 := BitVec.isLt _
      omega
    · obtain ⟨got, e1, e2, e3, e4⟩ := readIntegerU64_ok h
      refine ⟨b :: got, by rw [e1]; rfl, by simp, by simp; omega, ?_⟩
      have := fromBe_lt got
      have hp : 256 ^ got.length ≤ 256 ^ 8 := Nat.pow_le_pow_right (by decide) (by omega)
      have h8 : (256 : Nat) ^ 8 = 2 ^ 64 := by decide
      omega

/-! ### boolean octet -/

theorem readBoolean_cons (b : Byte) (rest : List Byte) :
    readBoolean (b :: rest) = ok (b != 0#8, rest) := rfl

theorem readBoolean_ne_panic (inp : List Byte) : readBoolean inp ≠ .panic := by
  cases inp <;> simp [readBoolean, readByte]

/-! ### `BasicWriter` / `BasicReader` -/

theorem writeNumber_eq (t : NumTy) (tag : Tag) (v : Int) :
    writeNumber t tag v =
      writeIdentifier tag ++ (writeLength (intLen (i64AsU64 v)) ++ writeIntegerI64 (t.toI64 v)) := by
  unfold writeNumber
  simp only [NumTy.toI64, i64AsU64_u64AsI64 _ (i64AsU64_lt v), number_len, List.append_assoc]

theorem writeNumberC_eq (t : NumTy) (tag : Tag) (v : Int) :
    writeNumberC t tag v = ok (writeNumber t tag v) := by
  unfold writeNumberC writeNumber
  simp only [uSub_ok (lz64_div8_le _), bind_ok, writeLengthC_eq]

theorem writeEnumeratedC_eq (tag : Tag) (i : Nat) :
    writeEnumeratedC tag i = ok (writeEnumerated tag i) := writeNumberC_eq _ _ _

/-- the reader returns the written bit pattern converted back to the Rust type; no range
    hypothesis on `v` -/
theorem readNumber_write (t : NumTy) (tag : Tag) (v : Int) (post : List Byte)
    (htag : tag.number < 64) :
    readNumber t tag (writeNumber t tag v ++ post) = ok (t.fromI64 (t.toI64 v), post) := by
  rw [writeNumber_eq]
  unfold readNumber
  simp only [List.append_assoc]
  rw [readIdentifier_write tag _ htag]
  simp only [bind_ok, ne_eq, not_true_eq_false, ite_false]
  have h8 := intLen_le (i64AsU64 v)
  rw [readLength_write _ _ (by omega)]
  simp only [bind_ok]
  have hm : intLen (i64AsU64 v) % 2 ^ 32 = intLen (i64AsU64 v) := Nat.mod_eq_of_lt (by omega)
  have hu : i64AsU64 (t.toI64 v) = i64AsU64 v := by
    simp only [NumTy.toI64, i64AsU64_u64AsI64 _ (i64AsU64_lt v)]
  rw [hm, ← hu, readIntegerI64_write]
  simp only [bind_ok]
  rw [hu]
  rfl

theorem readNumber_ne_panic (t : NumTy) (tag : Tag) (inp : List Byte) :
    readNumber t tag inp ≠ .panic := by
  unfold readNumber
  refine bind_ne_panic (readIdentifier_ne_panic inp) ?_
  rintro ⟨identifier, r1⟩
  simp only
  split
  · simp
  · refine bind_ne_panic (readLength_ne_panic r1) ?_
    rintro ⟨len, r2⟩
    refine bind_ne_panic (readIntegerI64_ne_panic _ r2) ?_
    intro a; simp

theorem readBooleanTlv_ne_panic (tag : Tag) (inp : List Byte) :
    readBooleanTlv tag inp ≠ .panic := by
  unfold readBooleanTlv
  refine bind_ne_panic (readIdentifier_ne_panic inp) ?_
  rintro ⟨identifier, r1⟩
  simp only
  split
  · simp
  · refine bind_ne_panic (readLength_ne_panic r1) ?_
    rintro ⟨len, r2⟩
    simp only
    split
    · simp
    · exact readBoolean_ne_panic r2

theorem readEnumerated_ne_panic (tag : Tag) (count : Nat) (inp : List Byte) :
    readEnumerated tag count inp ≠ .panic := by
  unfold readEnumerated
  refine bind_ne_panic (readNumber_ne_panic _ tag inp) ?_
  rintro ⟨v, rest⟩
  simp only
  split <;> simp

/-- a successful `read_number` consumed between 2 and 18 bytes from the front of the source and
    delivers a value of the Rust type -/
theorem readNumber_ok {t : NumTy} {tag : Tag} {inp rest : List Byte} {v : Int}
    (h : readNumber t tag inp = ok (v, rest)) :
    ∃ got x, inp = got ++ rest ∧ 2 ≤ got.length ∧ got.length ≤ 18 ∧ v = t.fromI64 x := by
  unfold readNumber at h
  cases h1 : readIdentifier inp with
  | err e => rw [h1] at h; simp at h
  | panic => rw [h1] at h; simp at h
  | ok p1 =>
    obtain ⟨identifier, r1⟩ := p1
    rw [h1] at h
    simp only [bind_ok] at h
    split at h
    · simp at h
    · cases h2 : readLength r1 with
      | err e => rw [h2] at h; simp at h
      | panic => rw [h2] at h; simp at h
      | ok p2 =>
        obtain ⟨len, r2⟩ := p2
        rw [h2] at h
        simp only [bind_ok] at h
        cases h3 : readIntegerI64 (len % 2 ^ 32) r2 with
        | err e => rw [h3] at h; simp at h
        | panic => rw [h3] at h; simp at h
        | ok p3 =>
          obtain ⟨x, r3⟩ := p3
          rw [h3] at h
          simp only [bind_ok, ok.injEq, Prod.mk.injEq] at h
          obtain ⟨hv, hr⟩ := h
          subst hr
          obtain ⟨b, e1, _, _⟩ := readIdentifier_ok h1
          obtain ⟨g2, e2, l2a, l2b, _⟩ := readLength_ok h2
          obtain ⟨g3, e3, l3, l3b, _⟩ := readIntegerI64_ok h3
          refine ⟨b :: (g2 ++ g3), x, ?_, ?_, ?_, hv.symm⟩
          · rw [e1, e2, e3]; simp
          · simp; omega
          · simp; omega

end Asn1Verif.Der
